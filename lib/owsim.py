"""Shared by C07 and C05: OwSim.tla / OwSimData.tla with TLC, the real ow-sim binary on the fake HDF5."""
import concurrent.futures
import hashlib
import json
import os
import shutil
import subprocess
import tempfile

from .common import Infra, SPEC, VERIF, REPO, HARNESS, goenv, run_vh, last_json
from . import tracecheck

CACHE = os.path.join(VERIF, ".cache", "owsim")


def graphs(ctx, cfg, timeout=3000):
    """All graphs + reference datasets enumerated by TLC from OwSimData.tla (cached: depends on the spec only)."""
    h = hashlib.sha256()
    for fn in ("OwSimData.tla", cfg):
        with open(os.path.join(SPEC, fn), "rb") as f:
            h.update(f.read())
    key = h.hexdigest()[:24]
    os.makedirs(CACHE, exist_ok=True)
    cpath, spath = os.path.join(CACHE, key + ".cases"), os.path.join(CACHE, key + ".json")
    if os.path.exists(cpath) and os.path.exists(spath):
        st = json.load(open(spath))
        st["cached"] = True
        return cpath, st
    dump = os.path.join(ctx.scratch, cfg + ".tlcout")
    r = ctx.tlc("OwSimData", cfg=cfg, timeout=timeout, capture_to=dump)
    r.require_ok()
    n = 0
    tmp = cpath + ".tmp%d" % os.getpid()
    with open(tmp, "w") as out:
        for ln in r.lines():
            if ln.startswith('"{'):
                out.write(ln + "\n")
                n += 1
    if n == 0:
        raise Infra("OwSimData emitted no graphs")
    st = {"cfg": cfg, "graphs": n, "states_generated": r.generated, "states_distinct": r.distinct, "cached": False}
    os.replace(tmp, cpath)
    json.dump(st, open(spath, "w"))
    os.remove(dump)
    return cpath, st


def build_owsim(ctx, race=False):
    mod = os.path.join(ctx.scratch, "owsim.mod")
    if not os.path.exists(mod):
        with open(os.path.join(REPO, "go.mod")) as f:
            gm = f.read()
        with open(mod, "w") as f:
            f.write(gm + "\nreplace gonum.org/v1/hdf5 => %s\n" % os.path.join(HARNESS, "fakehdf5"))
        shutil.copy(os.path.join(REPO, "go.sum"), os.path.join(ctx.scratch, "owsim.sum"))
    out = os.path.join(ctx.scratch, "ow-sim-race" if race else "ow-sim")
    if os.path.exists(out):
        return out
    cmd = ["go", "build", "-modfile", mod, "-tags", "verif", "-o", out]
    if race:
        cmd.append("-race")
    cmd.append("./cmd/ow-sim")
    b = subprocess.run(cmd, cwd=REPO, env=goenv(), capture_output=True, text=True)
    if b.returncode != 0:
        raise Infra("cannot build ow-sim against the fake HDF5 library:\n" + b.stderr[-3000:])
    return out


def workdir(ctx):
    base = "/dev/shm" if os.path.isdir("/dev/shm") and os.access("/dev/shm", os.W_OK) else ctx.scratch
    d = tempfile.mkdtemp(prefix="vf-ow-", dir=base)
    import atexit
    atexit.register(lambda: shutil.rmtree(d, ignore_errors=True))
    return d


def run_engine(ctx, cases, binary, args, seed_offset=0):
    rc, out, err = run_vh(ctx, ["owsim", cases, binary, workdir(ctx)] + list(args), timeout=3300,
                          env_extra={"VERIF_SEED": str(ctx.seed + seed_offset)})
    if rc != 0:
        raise Infra("owsim engine failed: " + err[-2000:])
    return last_json(out)


def validate_traces(ctx, tdir, limit=None):
    """Each trace file is checked against TraceOwSim.tla by its own TLC run (the protocol constants differ
    per graph); runs are made in parallel. Returns (n_ok, [(file, consumed, total, event, preceding)])."""
    files = sorted(os.path.join(tdir, f) for f in os.listdir(tdir) if f.endswith(".ndjson"))
    if limit:
        files = files[:limit]

    def one(p):
        accepted, consumed, total, r = tracecheck.validate(ctx, "TraceOwSim", p, timeout=600)
        return p, accepted, consumed, total

    bad, ok = [], 0
    with concurrent.futures.ThreadPoolExecutor(max_workers=8) as ex:
        for p, accepted, consumed, total in ex.map(one, files):
            if accepted:
                ok += 1
            else:
                lines = open(p).read().splitlines()
                ev = lines[consumed + 1] if 0 <= consumed + 1 < len(lines) else "(end of trace)"
                bad.append((p, consumed, total, ev, lines[max(1, consumed - 8):consumed + 1], lines[0]))
    return ok, bad, files
