"""Shared by C07 and C05: OwSim.tla / OwSimData.tla with TLC, the real ow-sim binary on the fake HDF5."""
import concurrent.futures
import hashlib
import json
import os
import shutil
import subprocess
import tempfile

from .common import Infra, SPEC, VERIF, REPO, HARNESS, goenv, run_vh, last_json
from . import tracecheck

CACHE = os.path.join(VERIF, ".cache", "owsim")


def graphs(ctx, cfg, timeout=3000):
    """All graphs + reference datasets enumerated by TLC from OwSimData.tla (cached: depends on the spec only)."""
    h = hashlib.sha256()
    for fn in ("OwSimData.tla", cfg):
        with open(os.path.join(SPEC, fn), "rb") as f:
            h.update(f.read())
    key = h.hexdigest()[:24]
    os.makedirs(CACHE, exist_ok=True)
    cpath, spath = os.path.join(CACHE, key + ".cases"), os.path.join(CACHE, key + ".json")
    if os.path.exists(cpath) and os.path.exists(spath):
        st = json.load(open(spath))
        st["cached"] = True
        return cpath, st
    dump = os.path.join(ctx.scratch, cfg + ".tlcout")
    r = ctx.tlc("OwSimData", cfg=cfg, timeout=timeout, capture_to=dump)
    r.require_ok()
    n = 0
    tmp = cpath + ".tmp%d" % os.getpid()
    with open(tmp, "w") as out:
        for ln in r.lines():
            if ln.startswith('"{'):
                out.write(ln + "\n")
                n += 1
    if n == 0:
        raise Infra("OwSimData emitted no graphs")
    st = {"cfg": cfg, "graphs": n, "states_generated": r.generated, "states_distinct": r.distinct, "cached": False}
    os.replace(tmp, cpath)
    json.dump(st, open(spath, "w"))
    os.remove(dump)
    return cpath, st


def build_owsim(ctx, race=False):
    mod = os.path.join(ctx.scratch, "owsim.mod")
    if not os.path.exists(mod):
        with open(os.path.join(REPO, "go.mod")) as f:
            gm = f.read()
        with open(mod, "w") as f:
            f.write(gm + "\nreplace gonum.org/v1/hdf5 => %s\n" % os.path.join(HARNESS, "fakehdf5"))
        shutil.copy(os.path.join(REPO, "go.sum"), os.path.join(ctx.scratch, "owsim.sum"))
    out = os.path.join(ctx.scratch, "ow-sim-race" if race else "ow-sim")
    if os.path.exists(out):
        return out
    cmd = ["go", "build", "-modfile", mod, "-tags", "verif", "-o", out]
    if race:
        cmd.append("-race")
    cmd.append("./cmd/ow-sim")
    b = subprocess.run(cmd, cwd=REPO, env=goenv(), capture_output=True, text=True)
    if b.returncode != 0:
        raise Infra("cannot build ow-sim against the fake HDF5 library:\n" + b.stderr[-3000:])
    return out


def workdir(ctx):
    base = "/dev/shm" if os.path.isdir("/dev/shm") and os.access("/dev/shm", os.W_OK) else ctx.scratch
    d = tempfile.mkdtemp(prefix="vf-ow-", dir=base)
    import atexit
    atexit.register(lambda: shutil.rmtree(d, ignore_errors=True))
    return d


def run_engine(ctx, cases, binary, args, seed_offset=0):
    rc, out, err = run_vh(ctx, ["owsim", cases, binary, workdir(ctx)] + list(args), timeout=3300,
                          env_extra={"VERIF_SEED": str(ctx.seed + seed_offset)})
    if rc != 0:
        raise Infra("owsim engine failed: " + err[-2000:])
    return last_json(out)


def validate_traces(ctx, tdir, limit=None):
    """Each trace file is checked against TraceOwSim.tla by its own TLC run (the protocol constants differ
    per graph); runs are made in parallel. Returns (n_ok, [(file, consumed, total, event, preceding)])."""
    files = sorted(os.path.join(tdir, f) for f in os.listdir(tdir) if f.endswith(".ndjson"))
    if limit:
        files = files[:limit]

    def one(p):
        accepted, consumed, total, r = tracecheck.validate(ctx, "TraceOwSim", p, timeout=600)
        return p, accepted, consumed, total

    bad, ok = [], 0
    with concurrent.futures.ThreadPoolExecutor(max_workers=8) as ex:
        for p, accepted, consumed, total in ex.map(one, files):
            if accepted:
                ok += 1
            else:
                lines = open(p).read().splitlines()
                ev = lines[consumed + 1] if 0 <= consumed + 1 < len(lines) else "(end of trace)"
                bad.append((p, consumed, total, ev, lines[max(1, consumed - 8):consumed + 1], lines[0]))
    return ok, bad, files


def schedule_replay(ctx, cases, binary, n_graphs, per_graph, seed_offset=2000, label="b3"):
    """B3: TLC-chosen interleavings forced onto the real binary.

    For a seeded sample of multi-generation graphs the protocol constants are written by the engine; TLC simulates
    OwSimSched.tla (the eager behaviours of OwSim, as hook-event sequences) `per_graph` times per graph; the verif
    build of ow-sim runs each graph once per schedule with its hooks acting as gates ($OWSIM_SCHEDULE), its result
    is compared with the sequential reference and its event log is validated against TraceOwSim.tla.  A run whose
    goroutines cannot follow the schedule ends with exit status 97 and is counted as not realised (no verdict)."""
    base = os.path.join(ctx.scratch, label)
    cdir, sdir, tdir = os.path.join(base, "cfg"), os.path.join(base, "sched"), os.path.join(base, "traces")
    for d in (cdir, sdir, tdir):
        os.makedirs(d)
    env = {"VERIF_SEED": str(ctx.seed + seed_offset)}
    rc, out, err = run_vh(ctx, ["owsim", cases, binary, workdir(ctx), "-sample", str(n_graphs), "-options", "basic", "-configs", cdir],
                          timeout=600, env_extra=env)
    if rc != 0:
        raise Infra("owsim engine (-configs) failed: " + err[-1500:])
    cfgs = sorted(f for f in os.listdir(cdir) if f.startswith("cfg_"))
    if not cfgs:
        raise Infra("no multi-generation graph in the sample")

    def gen(fn):
        ci = fn[len("cfg_"):-len(".json")]
        # many more behaviours are drawn than are run: the rare shapes (a writer receiving the wrong token and passing
        # it back; several drain pass-backs) are picked first, the rest fills up
        r = ctx.tlc("OwSimSched", cfg="OwSimSched.cfg", workers=1, timeout=300, simulate="num=%d" % (per_graph * 40), depth=2000,
                    seed=ctx.seed + int(ci), files=[("config.ndjson", open(os.path.join(cdir, fn)).read())])
        seen, pool = set(), []
        for ln in r.lines():
            if ln.startswith('"{'):
                doc = json.loads(json.loads(ln))
                key = json.dumps(doc["schedule"])
                if key in seen:
                    continue
                seen.add(key)
                evs = doc["schedule"]
                rank = (-sum(1 for e in evs if e["ev"] == "wpassback"), -sum(1 for e in evs if e["ev"] == "mainpassback"), len(pool))
                pool.append((rank, evs))
        rare = sorted(pool)[:max(1, per_graph // 2)]
        rest = [x for x in pool if x not in rare][:per_graph - len(rare)]
        k = 0
        for _, evs in rare + rest:
            with open(os.path.join(sdir, "sched_%s_%d.ndjson" % (ci, k)), "w") as f:
                for e in evs:
                    f.write(json.dumps(e) + "\n")
            k += 1
        if "Error" in (r.stdout or "") and "violated" in (r.stdout or ""):
            raise Infra("OwSimSched violates an OwSim invariant (specification error):\n" + r.tail(2000))
        return k
    with concurrent.futures.ThreadPoolExecutor(max_workers=8) as ex:
        nsched = sum(ex.map(gen, cfgs))
    if nsched == 0:
        raise Infra("OwSimSched produced no schedule")
    s = run_engine(ctx, cases, binary, ["-sample", str(n_graphs), "-options", "basic", "-workers", "16", "-trace", tdir, "-schedules", sdir],
                   seed_offset=seed_offset)
    unreal = [m for m in s["mismatches"] if m["kind"] == "schedule-unrealised"]
    n_unreal = s["extra"]["fail_kinds"].get("schedule-unrealised/default", 0)
    real = [m for m in s["mismatches"] if m["kind"] != "schedule-unrealised"]
    for m in real:
        ctx.report({"kind": m["kind"], "option": "scheduled"}, "ow-sim under a TLC-chosen schedule: %s" % m["detail"][:1500], m)
    # traces of the realised runs: must be behaviours of OwSim AND follow the schedule event by event
    ok, bad, files = validate_traces(ctx, tdir)
    followed = 0
    for p in files:
        b = os.path.basename(p)[len("trace_"):-len(".ndjson")]
        ci, k = b.split("_")
        sched_files = sorted(f for f in os.listdir(sdir) if f.startswith("sched_%s_" % ci))
        if int(k) >= len(sched_files):
            continue
        want = [json.loads(x) for x in open(os.path.join(sdir, sched_files[int(k)])) if x.strip()]
        got = [json.loads(x) for x in open(p).read().splitlines()[1:] if x.strip()]
        got = [{kk: vv for kk, vv in e.items() if kk != "seq"} for e in got if e.get("ev") not in ("load", "purge")]
        if got == want:
            followed += 1
    for p, consumed, total, ev, before, cfg in bad[:5]:
        ctx.report({"kind": "trace-rejected", "option": "scheduled"},
                   "event log of a scheduled ow-sim run is not a behaviour of OwSim: event #%d %s; preceding: %s; config %s"
                   % (consumed + 1, ev, before, cfg[:400]), {"event": ev, "preceding": before, "config": cfg})
    ctx.cov["evaluations"] += s["evaluations"]
    ctx.cov["traces_validated_against_impl"] += ok
    ctx.notes[label] = {"graphs": len(cfgs), "schedules": nsched, "runs": s["evaluations"], "not_realised": n_unreal,
                        "followed_event_by_event": followed, "traces_accepted": ok, "traces_rejected": len(bad),
                        "not_realised_sample": [m["detail"][:200] for m in unreal[:2]]}
    if s["evaluations"] and followed * 2 < s["evaluations"]:
        raise Infra("fewer than half of the TLC-chosen schedules were followed by the real binary (%d of %d): the gate or OwSimSched is out of step"
                    % (followed, s["evaluations"]))
    return ctx.notes[label]


def split_design(ctx):
    """OwSimSplit.tla (hand-over to the -writer child process) with TLC: the structure with the wait at exit satisfies
    every property incl. termination; the structure without it (closing only from the last generation's hand-over) is
    shown to violate exit-after-written exactly when the model's last generation has no cells (self-test of the spec)."""
    notes = ctx.notes.setdefault("tlc", {})
    # (three generations; four; a pipe narrower / wider than a copier chunk; thorough: five generations)
    for cfg in ("OwSimSplit_wait.cfg", "OwSimSplit_pinned.cfg", "OwSimSplit_wait4.cfg", "OwSimSplit_wait_c2.cfg", "OwSimSplit_wait_c4.cfg") + (() if ctx.quick else ("OwSimSplit_wait5.cfg",)):
        r = ctx.tlc("MCOwSimSplit", cfg=cfg, timeout=900)
        r.require_ok(cfg)
        ctx.cov["states"] += r.distinct
        ctx.cov["transitions"] += r.generated
        notes[cfg] = {"states_distinct": r.distinct, "states_generated": r.generated}
    for cfg, inv in (("OwSimSplit_pinned_exit.cfg", "ExitOnlyAfterAllWritten"), ("OwSimSplit_pinned_lost.cfg", "NothingLost")):
        r = ctx.tlc("MCOwSimSplit", cfg=cfg, timeout=900)
        if ("Invariant %s is violated" % inv) not in (r.stdout or ""):
            raise Infra("%s: the structure without a wait at exit was expected to violate %s (vacuity self-test)" % (cfg, inv))
        notes[cfg] = "%s violated, as expected for the structure without a wait at exit" % inv


def split_replay(ctx, cases, binary, n_graphs, label="split"):
    """The split-output path on the real binary: a seeded sample of graphs is run with `-outputs <last model>=<file>`
    plain, with slow library calls, and with one generation of the split model padded to thousands of cells (frames far
    above the pipe capacity, big-then-small and small-then-big); every dataset of both files is compared with the
    reference and the shared event log of both processes is validated against TraceOwSimSplit.tla."""
    tdir = os.path.join(ctx.scratch, label + "-traces")
    os.makedirs(tdir)
    s = run_engine(ctx, cases, binary, ["-sample", str(n_graphs), "-options", "split", "-workers", "8", "-trace", tdir], seed_offset=4000)
    for m in s["mismatches"]:
        if m["kind"] == "split-states-missing":
            # one signature whatever the option (a recorded finding of C07; not a matter of C05)
            if ctx.prop == "C07":
                ctx.report({"kind": m["kind"]}, "ow-sim (%s): %s" % (m["option"], m["detail"][:1500]), m)
            continue
        ctx.report({"kind": m["kind"], "option": m["option"]}, "ow-sim (%s): %s" % (m["option"], m["detail"][:1500]), m)
    files = sorted(os.path.join(tdir, f) for f in os.listdir(tdir) if f.startswith("split_") and f.endswith(".ndjson"))

    def one(p):
        accepted, consumed, total, r = tracecheck.validate(ctx, "TraceOwSimSplit", p, timeout=600)
        return p, accepted, consumed, total

    ok, bad = 0, []
    with concurrent.futures.ThreadPoolExecutor(max_workers=8) as ex:
        for p, accepted, consumed, total in ex.map(one, files):
            if accepted:
                ok += 1
            else:
                lines = open(p).read().splitlines()
                ev = lines[consumed] if 0 <= consumed < len(lines) else "(end of log)"
                bad.append((p, consumed, ev, lines[max(1, consumed - 8):consumed], lines[0]))
    seen = set()
    for p, consumed, ev, before, cfg in bad:
        try:
            evname = json.loads(ev).get("ev")
        except Exception:
            evname = ev
        cfgd = json.loads(cfg)
        last_empty = bool(cfgd["counts"]) and cfgd["counts"][-1] == 0
        key = (evname, last_empty)
        if key in seen:
            continue
        seen.add(key)
        ctx.report({"kind": "split-trace-rejected", "event": str(evname), "last_generation_empty": last_empty},
                   "event log of ow-sim and its writer process is not a behaviour of OwSimSplit (wait at exit): event #%d %s; preceding: %s; config %s"
                   % (consumed, ev, before, cfg[:400]), {"event": ev, "preceding": before, "config": cfg})
    ctx.cov["evaluations"] += s["evaluations"]
    ctx.cov["traces_validated_against_impl"] += ok
    ctx.notes[label] = {"runs": s["evaluations"], "logs": len(files), "accepted": ok, "rejected": len(bad), "fail_kinds": s["extra"].get("fail_kinds")}
    if files and not bad:
        def mutate(evs):
            ks = [i for i, e in enumerate(evs) if e.get("ev") == "cwritten"]
            del evs[ks[-1]]
            return "dropped the last cwritten event"
        withw = [p for p in files if '"cwritten"' in open(p).read()]
        if withw:
            tracecheck.corrupt_and_expect_reject(ctx, "TraceOwSimSplit", withw[0], mutate)
            ctx.notes[label]["binding_selftest"] = "log with a dropped cwritten event rejected"
    if not files:
        raise Infra("no split-output event log was recorded")
    return ctx.notes[label]
