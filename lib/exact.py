"""Shared by C11/C16/C18: exact (rational) executable specifications evaluated by TLC, replayed on the real models."""
import os

from .common import Infra, run_vh, last_json


def tlc_cases(ctx, module, cfg, timeout=1500, workers=None):
    dump = os.path.join(ctx.scratch, cfg + ".tlcout")
    r = ctx.tlc(module, cfg=cfg, timeout=timeout, capture_to=dump, workers=workers)
    r.require_ok()
    path = os.path.join(ctx.scratch, cfg + ".cases")
    n = 0
    with open(path, "w") as out:
        for ln in r.lines():
            if ln.startswith('"{'):
                out.write(ln + "\n")
                n += 1
    if n == 0:
        raise Infra("%s/%s emitted no cases" % (module, cfg))
    ctx.cov["states"] += r.distinct
    ctx.cov["transitions"] += r.generated
    ctx.notes.setdefault("tlc", {})[cfg] = {"states_distinct": r.distinct, "cases": n}
    return path


def run_exact(ctx, cases, engine_args, label):
    rc, out, err = run_vh(ctx, list(engine_args) + [cases])
    if rc != 0:
        ctx.report({"kind": "crash", "where": label}, "%s crashed: %s" % (label, err[-1000:]), {"stderr": err[-3000:]})
        return None
    s = last_json(out)
    ctx.cov["evaluations"] += s["evaluations"]
    ctx.cov["distinct_nontrivial"] += s["distinct_nontrivial"]
    ctx.cov["traces_validated_against_impl"] += s["evaluations"]
    ctx.notes.setdefault("engine", []).append({label: s.get("extra")})
    for smp in s["samples"][:2]:
        ctx.sample(smp)
    return s
