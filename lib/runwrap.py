"""Shared by C04/C05/C03b: RunWrapper.tla with TLC, configurations replayed on all catalogue models."""
import json
import os

from .common import Infra, run_vh, last_json


def tlc_configs(ctx, cfg, timeout=1800):
    dump = os.path.join(ctx.scratch, cfg + ".tlcout")
    r = ctx.tlc("RunWrapper", cfg=cfg, timeout=timeout, capture_to=dump)
    r.require_ok()
    path = os.path.join(ctx.scratch, cfg + ".cases")
    n = 0
    with open(path, "w") as out:
        for ln in r.lines():
            if ln.startswith('"{'):
                out.write(ln + "\n")
                n += 1
    if n == 0:
        raise Infra("RunWrapper emitted no configurations (%s)" % cfg)
    ctx.cov["states"] += r.distinct
    ctx.cov["transitions"] += r.generated
    ctx.notes.setdefault("tlc", {})[cfg] = {"states_generated": r.generated, "states_distinct": r.distinct, "configurations": n}
    return path, r


def run_engine(ctx, cases, args=(), race=False, env_extra=None, label="runwrap"):
    prog = os.path.join(ctx.scratch, "progress-%s.json" % label)
    rc, out, err = run_vh(ctx, ["runwrap", cases, "-progress", prog] + list(args), race=race, env_extra=env_extra, timeout=3000)
    if "DATA RACE" in err:
        return None, {"kind": "race", "stderr": err[:6000], "case": _read(prog)}
    if rc != 0:
        return None, {"kind": "crash", "stderr": err[-4000:], "case": _read(prog)}
    return last_json(out), None


def _read(p):
    try:
        with open(p) as f:
            return json.load(f)
    except (OSError, ValueError):
        return None
