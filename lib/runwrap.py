"""Shared by C04/C05/C03b: RunWrapper.tla with TLC, configurations replayed on all catalogue models."""
import json
import os

from .common import Infra, run_vh, last_json


def tlc_configs(ctx, cfg, timeout=1800, module="RunWrapper", simulate=None, depth=None, workers=None):
    dump = os.path.join(ctx.scratch, cfg + ".tlcout")
    r = ctx.tlc(module, cfg=cfg, timeout=timeout, capture_to=dump, simulate=simulate, depth=depth,
                seed=(ctx.seed if simulate else None), workers=workers)
    if simulate:
        if r.rc != 0 or "Error" in (r.stderr or ""):
            raise Infra("TLC simulation of %s failed: %s" % (cfg, r.tail(1500)))
    else:
        r.require_ok()
    path = os.path.join(ctx.scratch, cfg + ".cases")
    n = 0
    with open(path, "w") as out:
        for ln in r.lines():
            if ln.startswith('"{'):
                out.write(ln + "\n")
                n += 1
    if n == 0:
        raise Infra("RunWrapper emitted no configurations (%s)" % cfg)
    ctx.cov["states"] += r.distinct
    ctx.cov["transitions"] += r.generated
    ctx.notes.setdefault("tlc", {})[cfg] = {"states_generated": r.generated, "states_distinct": r.distinct, "configurations": n}
    return path, r


def run_engine(ctx, cases, args=(), race=False, env_extra=None, label="runwrap"):
    prog = os.path.join(ctx.scratch, "progress-%s.json" % label)
    rc, out, err = run_vh(ctx, ["runwrap", cases, "-progress", prog] + list(args), race=race, env_extra=env_extra, timeout=3000)
    if "DATA RACE" in err:
        return None, {"kind": "race", "stderr": err[:6000], "case": _read(prog)}
    if rc != 0:
        return None, {"kind": "crash", "stderr": err[-4000:], "case": _read(prog)}
    return last_json(out), None


def _read(p):
    try:
        with open(p) as f:
            return json.load(f)
    except (OSError, ValueError):
        return None


def proxy_traces(ctx, runs_per_model):
    """B2 for RunWrapper.tla: every catalogue model is run through tracing proxy arrays (vh proxytrace); TLC checks
    with TraceRunWrapper.tla that each goroutine's element accesses stay inside ONE cell's footprint, that no two
    goroutines serve one cell, that nothing is touched after Run has returned, and evaluates NoRace / FrameAlways /
    JoinBeforeReturn on the observed read/write sets."""
    from . import tracecheck
    tr = os.path.join(ctx.scratch, "proxy.ndjson")
    rc, out, err = run_vh(ctx, ["proxytrace", tr, str(runs_per_model)], timeout=1800)
    if rc != 0:
        raise Infra("proxytrace engine failed: " + err[-2000:])
    s = last_json(out)
    for m in s["mismatches"]:
        # a model that cannot be run through proxies at all is a gap of the harness, not a verdict
        raise Infra("model %s cannot be traced through proxy arrays: %s" % (m.get("model"), m.get("detail")))
    total, rejects = tracecheck.validate_multi(ctx, "TraceRunWrapper", tr, reset_ev="run", timeout=1200, heap="4g")
    for pos, ev, before in rejects:
        head = before[0] if before else {}
        ctx.report({"kind": "footprint-trace", "model": head.get("model")},
                   "%s (nc=%s np=%s nb=%s t=%s oc=%s ot=%s, %s-backed): the element accesses observed through proxy arrays are not a behaviour of "
                   "RunWrapper.tla: event #%d %s is not explained (a goroutine left its cell's footprint, two goroutines served one cell, "
                   "the caller touched an element, or something was touched after Run returned); preceding events %s"
                   % (head.get("model"), head.get("nc"), head.get("np"), head.get("nb"), head.get("t"), head.get("oc"), head.get("ot"),
                      head.get("backend"), pos, json.dumps(ev), json.dumps(before[1:])[:900]),
                   {"event": ev, "run": head, "before": before})
    ctx.cov["evaluations"] += s["evaluations"]
    ctx.cov["traces_validated_against_impl"] += s["distinct_nontrivial"]
    ctx.notes["proxy_traces"] = {"runs": s["distinct_nontrivial"], "events": total, "rejected": len(rejects), **s["extra"]}
    for smp in s["samples"][:1]:
        ctx.sample(smp)

    # binding self-tests: (a) one write moved to a neighbouring cell's row, (b) one access moved behind its "ret"
    def wrong_row(evs):
        run = None
        for i, e in enumerate(evs):
            if e["ev"] == "run":
                run = e
            if e["ev"] == "acc" and e["kind"] == "w" and run and run["nc"] >= 2 and e["locs"][0][0] == "O":
                e["locs"][0][1] = (e["locs"][0][1] + 1) % run["nc"]
                return "write to output row moved to another cell (event %d)" % i
        raise Infra("no multi-cell run in the proxy log")

    def late(evs):
        for i, e in enumerate(evs):
            if e["ev"] == "ret" and i > 0 and evs[i - 1]["ev"] == "acc":
                evs[i - 1], evs[i] = evs[i], evs[i - 1]
                return "last access of a run moved behind the return (event %d)" % i
        raise Infra("no return preceded by an access in the proxy log")
    # self-tests run on a short prefix of the log (a few runs are enough)
    short = os.path.join(ctx.scratch, "proxy-short.ndjson")
    with open(tr) as f, open(short, "w") as g:
        runs = 0
        for ln in f:
            if '"ev":"run"' in ln:
                runs += 1
                if runs > 60:
                    break
            g.write(ln)
    d1, _ = tracecheck.corrupt_and_expect_reject(ctx, "TraceRunWrapper", short, wrong_row, heap="2g")
    d2, _ = tracecheck.corrupt_and_expect_reject(ctx, "TraceRunWrapper", short, late, heap="2g")
    ctx.notes["proxy_binding_selftest"] = [d1 + ": rejected", d2 + ": rejected"]
