"""Shared by C01/C02/C03: generate behaviours from NdArray.tla with TLC, replay them on the real arrays."""
import hashlib
import json
import os
import shutil
import subprocess
import time

from .common import Infra, SPEC, VERIF, run_vh, last_json

CACHE = os.path.join(VERIF, ".cache", "nd")


def _key(cfg, mode):
    h = hashlib.sha256()
    for fn in ("NdArray.tla", "MCNdArray.tla", cfg):
        with open(os.path.join(SPEC, fn), "rb") as f:
            h.update(f.read())
    h.update(mode.encode())
    return h.hexdigest()[:24]


def gen_cases(ctx, cfg, simulate=None, timeout=900, use_cache=True):
    """Model-check NdArray with `cfg` (exhaustive BFS over the tree of behaviours, invariants and
    action properties checked in every state) and collect the behaviours Finish prints.
    simulate = (seconds, depth): random behaviours with `tlc -simulate` for that long instead.
    The result depends only on the specification files, so it is cached under .cache/ keyed by their
    hash. Returns (path, stats dict)."""
    mode = "bfs" if not simulate else "sim-%s-%s-%s" % (simulate[0], simulate[1], ctx.seed)
    key = _key(cfg, mode)
    os.makedirs(CACHE, exist_ok=True)
    cpath, spath = os.path.join(CACHE, key + ".cases"), os.path.join(CACHE, key + ".json")
    if use_cache and os.path.exists(cpath) and os.path.exists(spath):
        with open(spath) as f:
            st = json.load(f)
        st["cached"] = True
        return cpath, st
    dump = os.path.join(ctx.scratch, cfg + ".tlcout")
    if simulate:
        secs, depth = simulate
        try:
            r = ctx.tlc("MCNdArray", cfg=cfg, timeout=secs, capture_to=dump, simulate="num=100000000",
                        depth=depth, seed=ctx.seed)
            raise Infra("simulation ended by itself: %s" % r.tail(2000))
        except Infra as e:
            if "timeout" not in str(e):
                raise
        subprocess.run(["pkill", "-f", ctx.scratch], check=False)
        time.sleep(0.5)
        generated = distinct = 0
        for ln in open(dump, errors="replace"):
            if "Error" in ln and "TLC" in ln:
                raise Infra("TLC error in simulation: " + ln)
    else:
        r = ctx.tlc("MCNdArray", cfg=cfg, timeout=timeout, capture_to=dump)
        r.require_ok()
        generated, distinct = r.generated, r.distinct
    n = 0
    tmp = cpath + ".tmp%d" % os.getpid()
    with open(dump, errors="replace") as f, open(tmp, "w") as out:
        for ln in f:
            if ln.startswith('"{') and ln.rstrip().endswith('}"'):
                out.write(ln)
                n += 1
    if n == 0:
        raise Infra("no behaviours emitted by %s" % cfg)
    st = {"cfg": cfg, "mode": mode, "behaviours": n, "states_generated": generated, "states_distinct": distinct,
          "cached": False}
    if simulate:
        st["states_generated"] = st["states_distinct"] = n  # lower bound: one terminal state per behaviour
    os.replace(tmp, cpath)
    with open(spath, "w") as f:
        json.dump(st, f)
    os.remove(dump)
    return cpath, st


def replay(ctx, cases, props, extra=()):
    rc, out, err = run_vh(ctx, ["ndarray", "replay", cases, "-props", ",".join(props)] + list(extra), timeout=3000)
    if rc != 0:
        # hard crash of the engine process: find the case with a sequential re-run
        prog = os.path.join(ctx.scratch, "progress")
        rc2, out2, err2 = run_vh(ctx, ["ndarray", "replay", cases, "-props", ",".join(props), "-progress", prog] + list(extra),
                                 timeout=3000)
        case = open(prog).read() if os.path.exists(prog) else "?"
        return None, {"crash": True, "stderr": (err2 or err)[-3000:], "case": case}
    return last_json(out), None


def account(ctx, st, s):
    ctx.cov["states"] += st["states_distinct"]
    ctx.cov["transitions"] += st["states_generated"]
    ctx.cov["evaluations"] += s["evaluations"]
    ctx.cov["distinct_nontrivial"] += s["distinct_nontrivial"]
    ctx.cov["traces_validated_against_impl"] += s["evaluations"]
    ctx.notes.setdefault("configs", []).append({
        "cfg": st["cfg"], "mode": st["mode"], "behaviours": st["behaviours"],
        "tlc_states": st["states_distinct"], "tlc_from_cache": st["cached"],
        "replays": s["evaluations"], "element_checks": s["extra"]["element_checks"],
        "ops": s["extra"]["ops"], "fail_kinds": s["extra"]["fail_kinds"]})
    for smp in s["samples"][:1]:
        ctx.sample(smp)


def report_fails(ctx, s, want_prop):
    """Register engine mismatches that belong to property `want_prop`."""
    for m in s["mismatches"]:
        if m.get("prop") != want_prop:
            continue
        sig = {"kind": m["kind"], "op": m["op"], "backend": m["backend"]}
        ctx.report(sig, "%s/%s %s at step %d (%s): %s" % (m["type"], m["backend"], m["kind"], m["step"], m["op"], m["detail"]), m)


def big_arrays(ctx, kinds):
    """The definitions of NdArray.tla (exact write footprints; bulk operations = the row-major element-by-element pass)
    evaluated element by element by the engine on stores of 3e4..1.4e5 elements (TLC's stores have a few dozen cells):
    odd element counts above 2^15 / 2^16, planes, stepped blocks, 1 x 1 x n rows, Go- and C-backed in every pairing."""
    from .common import run_vh, last_json
    rc, out, err = run_vh(ctx, ["bigarrays"], timeout=600)
    if rc != 0:
        ctx.report({"kind": "process-crash", "op": "bigarrays"}, "whole-array operations on big stores crashed the process: " + err[-1500:], {"stderr": err[-3000:]})
        return
    s = last_json(out)
    ctx.cov["evaluations"] += s["evaluations"]
    ctx.notes["big_arrays"] = {"element_checks": s["evaluations"], "mismatches": s["n_mismatch"]}
    for m in s["mismatches"]:
        if m["kind"] in kinds or m["kind"] == "panic":
            ctx.report({"kind": "big-" + m["kind"], "op": m["op"][:60]}, "%s: %s" % (m["op"], m["detail"]), m)
