"""C-ABI half of C03: RunWrapper.tla configurations through libopenwater.so:RunSingleModel."""
import os
import subprocess

from .common import Infra, REPO, HARNESS, goenv, run_vh, last_json
from . import runwrap


def run(ctx):
    cases_cfg, r = runwrap.tlc_configs(ctx, "RunWrapper.cfg")
    lib = os.path.join(ctx.scratch, "libopenwater.so")
    b = subprocess.run(["go", "build", "-buildmode=c-shared", "-o", lib, "./libopenwater"], cwd=REPO, env=goenv(),
                       capture_output=True, text=True)
    if b.returncode != 0:
        raise Infra("cannot build libopenwater.so:\n" + b.stderr[-3000:])
    drv = os.path.join(ctx.scratch, "cdriver")
    g = subprocess.run(["gcc", "-O1", "-o", drv, os.path.join(HARNESS, "cabi", "driver.c"), "-ldl"], capture_output=True, text=True)
    if g.returncode != 0:
        raise Infra("cannot build C driver:\n" + g.stderr[-2000:])
    casefile = os.path.join(ctx.scratch, "cabi-cases.txt")
    resfile = os.path.join(ctx.scratch, "cabi-results.txt")
    prog = os.path.join(ctx.scratch, "cabi-progress.txt")
    rc, out, err = run_vh(ctx, ["cabi", "gen", cases_cfg, casefile, "-draws", "1" if ctx.quick else "4"])
    if rc != 0:
        raise Infra("cabi gen failed: " + err[-2000:])
    d = subprocess.run([drv, lib, casefile, resfile, prog], capture_output=True, text=True, timeout=3000)
    crashed = d.returncode != 0
    rc, out, err = run_vh(ctx, ["cabi", "check", casefile, resfile])
    if rc != 0:
        raise Infra("cabi check failed: " + err[-2000:])
    s = last_json(out)
    ctx.cov["evaluations"] += s["evaluations"]
    ctx.cov["distinct_nontrivial"] += s["distinct_nontrivial"]
    ctx.cov["traces_validated_against_impl"] += s["evaluations"]
    ctx.notes["cabi"] = {"calls": s["evaluations"], "fail_kinds": s["extra"]["fail_kinds"], "driver_rc": d.returncode}
    for smp in s["samples"][:1]:
        ctx.sample(smp)
    for m in s["mismatches"]:
        if m["kind"] == "missing-result" and crashed:
            where = open(prog).read().strip() if os.path.exists(prog) else "?"
            ctx.report({"kind": "cabi-crash", "model": m["model"]},
                       "RunSingleModel crashed the calling C process at case %s: %s" % (where, d.stderr[-600:]), m)
        else:
            ctx.report({"kind": "cabi-" + m["kind"], "model": m["model"]},
                       "C entry point vs Go API, %s case %s %s: %s" % (m["model"], m["case_id"], m["dims"], m["detail"]), m)
    ctx.assumptions.append("C ABI: cells<=3, sets<=3, blocks<=3, T<=2, one extra output row/timestep; initStates with and without a states buffer")
