"""Shared by C06/C14: ModelRuns.tla histories from TLC, replayed on real model objects."""
import json
import os

from .common import Infra, run_vh, last_json


def histories(ctx, cfg, timeout=1200):
    dump = os.path.join(ctx.scratch, cfg + ".tlcout")
    r = ctx.tlc("ModelRuns", cfg=cfg, timeout=timeout, capture_to=dump)
    r.require_ok()
    path = os.path.join(ctx.scratch, cfg + ".cases")
    n = 0
    with open(path, "w") as out:
        for ln in r.lines():
            if ln.startswith('"{'):
                out.write(ln + "\n")
                n += 1
    if n == 0:
        raise Infra("ModelRuns emitted no histories (%s)" % cfg)
    ctx.cov["states"] += r.distinct
    ctx.cov["transitions"] += r.generated
    ctx.notes.setdefault("tlc", {})[cfg] = {"states_generated": r.generated, "states_distinct": r.distinct, "histories": n}
    return path


def replay(ctx, mode, cases, args=()):
    prog = os.path.join(ctx.scratch, "progress-mr.json")
    rc, out, err = run_vh(ctx, ["modelruns", mode, cases, "-progress", prog] + list(args), timeout=3000)
    if rc != 0:
        case = None
        try:
            case = json.load(open(prog))
        except (OSError, ValueError):
            pass
        return None, {"stderr": err[-4000:], "case": case}
    return last_json(out), None


def account(ctx, s):
    ctx.cov["evaluations"] += s["evaluations"]
    ctx.cov["distinct_nontrivial"] += s["distinct_nontrivial"]
    ctx.cov["traces_validated_against_impl"] += s["evaluations"]
    ctx.notes.setdefault("engine", []).append(s["extra"])
    for smp in s["samples"][:2]:
        ctx.sample(smp)
