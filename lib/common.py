"""Shared plumbing for the /verif checks (python3, stdlib only).

Exit codes of a check: 0 held / only known findings, 1 unlisted violation(s), 2 infrastructure.
"""
import atexit
import json
import os
import re
import shutil
import subprocess
import sys
import tempfile
import time

VERIF = os.path.dirname(os.path.dirname(os.path.abspath(__file__)))
REPO = os.environ.get("VERIF_REPO", "/repo")
SPEC = os.path.join(VERIF, "spec")
HARNESS = os.path.join(VERIF, "harness")
NCPU = os.cpu_count() or 4
# Mutation testing of the machinery (tools/try_mutants.sh) must not clobber the real evidence/replay files
OUTDIR = VERIF if not os.environ.get("VERIF_SCRATCH_EVIDENCE") else tempfile.mkdtemp(prefix="vf-mut-out-")


class Infra(Exception):
    """Infrastructure failure: exit 2, never a violation."""


def goenv():
    env = dict(os.environ)
    env.update({
        "GOFLAGS": "-mod=mod", "GOPROXY": "off", "GOSUMDB": "off", "GOTOOLCHAIN": "local",
        "CGO_ENABLED": "1",
    })
    return env


class Ctx:
    def __init__(self, prop, tier, seed):
        self.prop = prop
        self.tier = tier
        self.seed = seed
        self.t0 = time.time()
        self.scratch = tempfile.mkdtemp(prefix="vf-%s-" % prop)
        atexit.register(self.cleanup)
        self.violations = []      # list of dict(sig, detail, replay)
        self.known_hits = []      # list of (finding, detail)
        self.cov = {"samples": [], "evaluations": 0, "distinct_nontrivial": 0,
                    "states": 0, "transitions": 0, "traces_validated_against_impl": 0}
        self.assumptions = []
        self.notes = {}
        self._bins = {}

    def cleanup(self):
        shutil.rmtree(self.scratch, ignore_errors=True)

    @property
    def quick(self):
        return self.tier == "quick"

    def sub(self, name):
        p = os.path.join(self.scratch, name)
        os.makedirs(p, exist_ok=True)
        return p

    # ---- building ---------------------------------------------------------------
    def sync_harness(self):
        """go.sum of the harness module follows /repo's (the harness adds no dependency)."""
        src = os.path.join(REPO, "go.sum")
        dst = os.path.join(HARNESS, "go.sum")
        try:
            with open(src, "rb") as f:
                want = f.read()
            have = b""
            if os.path.exists(dst):
                with open(dst, "rb") as f:
                    have = f.read()
            if not have.startswith(want):
                with open(dst, "wb") as f:
                    f.write(want)
        except OSError as e:
            raise Infra("cannot sync go.sum: %s" % e)

    def build_vh(self, race=False):
        """Build the harness binary against /repo's current working tree (tag verif)."""
        key = "vh-race" if race else "vh"
        if key in self._bins:
            return self._bins[key]
        self.sync_harness()
        out = os.path.join(self.scratch, key)
        cmd = ["go", "build", "-tags", "verif", "-o", out]
        if REPO != "/repo":
            # mutation testing of the machinery itself: build against another checkout (VERIF_REPO)
            # through an alternative go.mod; registered commands always use /repo.
            with open(os.path.join(HARNESS, "go.mod")) as f:
                gm = f.read().replace("=> /repo", "=> " + REPO).replace("=> ./fakehdf5", "=> " + os.path.join(HARNESS, "fakehdf5"))
            alt = os.path.join(self.scratch, "alt.mod")
            with open(alt, "w") as f:
                f.write(gm)
            shutil.copy(os.path.join(REPO, "go.sum"), os.path.join(self.scratch, "alt.sum"))
            cmd += ["-modfile", alt]
        if race:
            cmd.append("-race")
        cmd.append("./cmd/vh")
        r = subprocess.run(cmd, cwd=HARNESS, env=goenv(), capture_output=True, text=True)
        if r.returncode != 0:
            # A compile error may be caused by an edit of /repo (then it is not ours to judge):
            raise Infra("harness build failed:\n" + r.stdout + r.stderr)
        self._bins[key] = out
        return out

    # ---- TLC ---------------------------------------------------------------------
    def tlc(self, module, cfg=None, workers=None, timeout=900, extra=(), files=(), heap=None,
            capture_to=None, deadlock=False, simulate=None, depth=None, seed=None, env_extra=None,
            stack=None):
        """Run TLC on spec/<module>.tla with spec/<cfg> in a scratch copy. Returns TLCResult.

        files: extra (name, content) pairs or paths copied next to the spec (trace files …).
        capture_to: path that receives stdout (for big case dumps); else stdout kept in memory.
        """
        wd = tempfile.mkdtemp(prefix="tlc-", dir=self.scratch)
        for fn in os.listdir(SPEC):
            if fn.endswith(".tla") or fn.endswith(".cfg"):
                shutil.copy(os.path.join(SPEC, fn), wd)
        for f in files:
            if isinstance(f, tuple):
                with open(os.path.join(wd, f[0]), "w") as fh:
                    fh.write(f[1])
            else:
                shutil.copy(f, wd)
        cfg = cfg or (module + ".cfg")
        w = str(workers or NCPU)
        cmd = ["tlc", "-workers", w, "-metadir", os.path.join(wd, "meta"), "-config", cfg]
        if not deadlock:
            cmd.append("-deadlock")
        if simulate:
            cmd += ["-simulate", simulate]
        if depth:
            cmd += ["-depth", str(depth)]
        if seed is not None:
            cmd += ["-seed", str(seed)]
        cmd += list(extra)
        cmd.append(module + ".tla")
        env = dict(os.environ)
        jopts = []
        if heap:
            jopts.append("-Xmx%s" % heap)
        if stack:
            jopts.append("-Xss%s" % stack)
        if jopts:
            env["JAVA_TOOL_OPTIONS"] = (env.get("JAVA_TOOL_OPTIONS", "") + " " + " ".join(jopts)).strip()
        if env_extra:
            env.update(env_extra)
        t0 = time.time()
        try:
            if capture_to:
                with open(capture_to, "w") as out:
                    r = subprocess.run(cmd, cwd=wd, env=env, stdout=out, stderr=subprocess.PIPE,
                                       text=True, timeout=timeout)
                stdout = None
            else:
                r = subprocess.run(cmd, cwd=wd, env=env, capture_output=True, text=True, timeout=timeout)
                stdout = r.stdout
        except subprocess.TimeoutExpired:
            subprocess.run(["pkill", "-f", wd], check=False)
            raise Infra("TLC timeout (%ss) on %s/%s" % (timeout, module, cfg))
        res = TLCResult(module, cfg, r.returncode, stdout, r.stderr, capture_to, time.time() - t0, wd)
        return res

    # ---- verdicts ----------------------------------------------------------------
    def load_known(self):
        p = os.path.join(VERIF, "known_findings.json")
        if not os.path.exists(p):
            return []
        with open(p) as f:
            doc = json.load(f)
        return [k for k in doc.get("findings", []) if k.get("property") == self.prop]

    def report(self, sig, detail, replay_obj=None):
        """Register one violation of the real code. `sig` is a dict of identifying keys; it is
        matched against known_findings.json (every key of a finding's `match` must be equal)."""
        for k in self.load_known():
            m = k.get("match", {})
            if all(str(sig.get(a)) == str(b) for a, b in m.items()):
                self.known_hits.append((k, detail))
                return
        rp = os.path.join(OUTDIR, "replay", self.prop)
        os.makedirs(rp, exist_ok=True)
        path = os.path.join(rp, "case-%d.json" % (len(self.violations) + 1))
        if len(self.violations) < 20:
            with open(path, "w") as f:
                json.dump({"property": self.prop, "signature": sig, "detail": detail,
                           "case": replay_obj}, f, indent=1, default=str)
        self.violations.append({"sig": sig, "detail": detail, "replay": path})

    def sample(self, obj, limit=6):
        if len(self.cov["samples"]) < limit:
            self.cov["samples"].append(obj)

    def finish(self, level, technique_note=None):
        if os.path.isdir(os.path.join(OUTDIR, "replay", self.prop)) and not self.violations:
            shutil.rmtree(os.path.join(OUTDIR, "replay", self.prop), ignore_errors=True)
        seen = set()
        for k, detail in self.known_hits:
            kid = k.get("id")
            if kid in seen:
                continue
            seen.add(kid)
            n = sum(1 for kk, _ in self.known_hits if kk.get("id") == kid)
            print("KNOWN-FINDING: property=%s %s (%s; %d occurrence(s) this run)" %
                  (self.prop, k.get("what", kid), kid, n))
        for v in self.violations[:5]:
            print("VIOLATION property=%s replay=%s" % (self.prop, v["replay"]))
            print("  detail: %s" % (str(v["detail"])[:600]))
        if len(self.violations) > 5:
            print("  … %d further violations not listed" % (len(self.violations) - 5))
        cov = dict(self.cov)
        if not cov["samples"]:
            cov["samples"] = ["(no sample recorded)"]
        cov.update(self.notes)
        cov["known_finding_hits"] = len(self.known_hits)
        ev = {
            "property_id": self.prop, "tier": self.tier, "seed": int(self.seed), "level": level,
            "coverage": cov, "assumptions": self.assumptions,
            "wall_s": round(time.time() - self.t0, 2), "violations": len(self.violations),
        }
        os.makedirs(os.path.join(OUTDIR, "evidence"), exist_ok=True)
        with open(os.path.join(OUTDIR, "evidence", self.prop + ".json"), "w") as f:
            json.dump(ev, f, indent=1, default=str)
        print("%s %s: evaluations=%d distinct=%d states=%d traces=%d violations=%d known=%d wall=%.1fs" % (
            self.prop, self.tier, cov["evaluations"], cov["distinct_nontrivial"], cov["states"],
            cov["traces_validated_against_impl"], len(self.violations), len(self.known_hits),
            time.time() - self.t0))
        return 1 if self.violations else 0


_STATS = re.compile(r"(\d+) states generated, (\d+) distinct states found")


class TLCResult:
    def __init__(self, module, cfg, rc, stdout, stderr, path, wall, wd):
        self.module, self.cfg, self.rc, self.stdout, self.stderr = module, cfg, rc, stdout, stderr
        self.path, self.wall, self.wd = path, wall, wd
        self.generated = self.distinct = 0
        text = self.tail()
        for m in _STATS.finditer(text):
            self.generated, self.distinct = int(m.group(1)), int(m.group(2))

    def tail(self, n=200000):
        if self.stdout is not None:
            return self.stdout[-n:]
        with open(self.path, "rb") as f:
            f.seek(0, 2)
            size = f.tell()
            f.seek(max(0, size - n))
            return f.read().decode("utf-8", "replace")

    def head(self, n=20000):
        if self.stdout is not None:
            return self.stdout[:n]
        with open(self.path, "rb") as f:
            return f.read(n).decode("utf-8", "replace")

    def ok(self):
        t = self.tail()
        return self.rc == 0 and "Model checking completed. No error has been found" in t

    def sim_ok(self):
        # simulation mode ends by reaching num traces
        return self.rc == 0

    def require_ok(self, what=""):
        """The SPEC must satisfy its own properties; otherwise the machinery is broken (exit 2)."""
        if not self.ok():
            raise Infra("TLC did not succeed on %s/%s %s (rc=%s):\n%s\n%s" % (
                self.module, self.cfg, what, self.rc, self.head(3000), self.tail(6000)))
        return self

    def lines(self):
        if self.stdout is not None:
            for ln in self.stdout.splitlines():
                yield ln
        else:
            with open(self.path, errors="replace") as f:
                for ln in f:
                    yield ln.rstrip("\n")

    def coverage_zero(self):
        """Action/expression names never taken under -coverage 1."""
        return [ln for ln in self.lines() if re.search(r"<\w+ line .*>: 0:0$", ln)]


def run_vh(ctx, args, stdin_path=None, timeout=3600, race=False, env_extra=None, binary=None):
    """Run a harness engine as a child process. Returns (rc, stdout, stderr)."""
    vh = binary or ctx.build_vh(race=race)
    env = goenv()
    env["VERIF_SEED"] = str(ctx.seed)
    if env_extra:
        env.update(env_extra)
    try:
        if stdin_path:
            with open(stdin_path, "rb") as fin:
                r = subprocess.run([vh] + list(args), stdin=fin, capture_output=True, text=True,
                                   timeout=timeout, env=env)
        else:
            r = subprocess.run([vh] + list(args), capture_output=True, text=True, timeout=timeout, env=env)
    except subprocess.TimeoutExpired:
        raise Infra("engine timeout: vh %s" % " ".join(args))
    return r.returncode, r.stdout, r.stderr


def last_json(stdout):
    """Engines print one JSON summary object as their last stdout line."""
    for ln in reversed(stdout.strip().splitlines()):
        ln = ln.strip()
        if ln.startswith("{"):
            try:
                return json.loads(ln)
            except ValueError:
                continue
    raise Infra("engine produced no JSON summary:\n" + stdout[-2000:])


def main_entry(run_fn_by_prop):
    if len(sys.argv) < 3:
        print("usage: check <Cxx> <quick|thorough>")
        sys.exit(2)
    prop, tier = sys.argv[1], sys.argv[2]
    if tier not in ("quick", "thorough"):
        tier = os.environ.get("VERIF_TIER", "quick")
    seed = int(os.environ.get("VERIF_SEED", "1") or "1")
    fn = run_fn_by_prop.get(prop)
    if fn is None:
        print("no check registered for %s" % prop)
        sys.exit(2)
    ctx = Ctx(prop, tier, seed)
    try:
        rc = fn(ctx)
    except Infra as e:
        if ctx.violations:
            # mismatches between the real code and the specification that were established (and saved as replay
            # cases) BEFORE a later stage of the check broke down remain what they are; the breakdown is reported
            # next to them and the stages after it did not run
            print("INFRASTRUCTURE FAILURE in a later stage (the violations below were established before it): %s" % str(e)[:1500])
            ctx.notes["infrastructure_failure"] = str(e)[:3000]
            sys.exit(ctx.finish("exploration"))
        print("INFRASTRUCTURE FAILURE (exit 2, not a verdict): %s" % e)
        sys.exit(2)
    sys.exit(rc)
