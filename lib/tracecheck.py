"""B2 plumbing: validate ndjson traces with a Trace*.tla spec; binding self-test by corruption."""
import json
import os
import re

from .common import Infra

_CONS = re.compile(r'<<"TRACE_CONSUMED", (\d+), (\d+)>>')


def validate(ctx, module, trace_path, cfg=None, timeout=900, workers=1, extra_files=(), env_extra=None,
             heap=None):
    """Returns (accepted, consumed, total, TLCResult). Raises Infra if TLC itself failed to run."""
    files = [("trace.ndjson", open(trace_path).read())] + list(extra_files)
    r = ctx.tlc(module, cfg=cfg, workers=workers, timeout=timeout, files=files, env_extra=env_extra,
                heap=heap, stack="512m")
    text = r.stdout or ""
    m = None
    for m in _CONS.finditer(text):
        pass
    if m is None:
        # an invariant violation inside the trace spec also means "not a behaviour of the spec"
        if "is violated" in text or "Invariant" in text and "violated" in text:
            st = re.findall(r"^State (\d+):", text, re.M)
            consumed = int(st[-1]) - 1 if st else -1
            return False, consumed, -1, r
        raise Infra("trace validation produced no verdict (%s):\n%s\n%s" % (module, text[-3000:], r.stderr[-2000:]))
    consumed, total = int(m.group(1)), int(m.group(2))
    accepted = (consumed == total) and r.rc == 0 and "No error has been found" in text
    return accepted, consumed, total, r


def corrupt_and_expect_reject(ctx, module, trace_path, mutate, cfg=None, timeout=900, heap=None):
    """Binding self-test: `mutate(list_of_event_dicts)` corrupts one field / drops one event;
    the trace spec must reject the result, otherwise the check is vacuous (Infra)."""
    with open(trace_path) as f:
        evs = [json.loads(x) for x in f if x.strip()]
    desc = mutate(evs)
    p = os.path.join(ctx.scratch, "corrupt-%s.ndjson" % module)
    with open(p, "w") as f:
        for e in evs:
            f.write(json.dumps(e) + "\n")
    accepted, consumed, total, r = validate(ctx, module, p, cfg=cfg, timeout=timeout, heap=heap)
    if accepted:
        raise Infra("binding self-test failed: %s accepted a corrupted trace (%s)" % (module, desc))
    return desc, consumed


def validate_multi(ctx, module, trace_path, reset_ev="new", cfg=None, timeout=900, max_rejects=8, heap=None):
    """Validate a concatenation of traces; after a rejection continue with the next trace so that the
    rest is still checked. Returns (n_events_total, [ (global_event_index, event_dict, preceding_events) ])."""
    with open(trace_path) as f:
        lines = [x for x in f if x.strip()]
    rejects = []
    base = 0
    cur = lines
    total = len(lines)
    while cur and len(rejects) < max_rejects:
        p = os.path.join(ctx.scratch, "seg-%s-%d.ndjson" % (module, base))
        with open(p, "w") as f:
            f.writelines(cur)
        accepted, consumed, tot, r = validate(ctx, module, p, cfg=cfg, timeout=timeout, heap=heap)
        if accepted:
            break
        if consumed < 0 or consumed >= len(cur):
            raise Infra("trace validation failed without locating the event (%s)" % module)
        ev = json.loads(cur[consumed])
        # context: events of the same trace before the failing one
        start = consumed
        while start > 0 and json.loads(cur[start]).get("ev") != reset_ev:
            start -= 1
        ctxev = [json.loads(x) for x in cur[start:consumed]]
        # keep the opening (reset) event of the trace plus the last events before the failing one
        rejects.append((base + consumed, ev, (ctxev[:1] + ctxev[1:][-11:]) if ctxev else []))
        nxt = consumed + 1
        while nxt < len(cur) and json.loads(cur[nxt]).get("ev") != reset_ev:
            nxt += 1
        base += nxt
        cur = cur[nxt:]
    return total, rejects


_LAWS = re.compile(r'"LAW_VIOLATIONS",\s*(\{.*?\})\s*>>', re.S)


def law_violations(ctx, module, trace_path, reset_ev="case", chunk=400000, parallel=4, heap="4g", timeout=2400,
                   cfg=None):
    """Judge a log with one of the law-collecting trace specs (the ones that print <<"LAW_VIOLATIONS", viol>>).

    The log is a concatenation of independent cases, each opened by a `reset_ev` event; it is cut at case
    boundaries into chunks of at most `chunk` lines (a single TLC run keeps every state of the one behaviour it
    follows, so a log of several million lines does not fit one JVM), the chunks are validated by up to
    `parallel` TLC processes at a time, and the positions reported by each are translated back to positions in
    the whole log.  Returns ([(position (1-based), law)], distinct_states, generated_states).
    Raises Infra when any chunk is not consumed to its end or reports no verdict."""
    from concurrent.futures import ThreadPoolExecutor
    with open(trace_path) as f:
        lines = [x for x in f if x.strip()]
    # chunk boundaries at reset events
    starts = [0]
    last_reset = 0
    for i, ln in enumerate(lines):
        if ('"ev":"%s"' % reset_ev) in ln or ('"ev": "%s"' % reset_ev) in ln:
            if i - starts[-1] >= chunk and last_reset > starts[-1]:
                starts.append(last_reset)
            last_reset = i
            if i - starts[-1] >= chunk and i > starts[-1]:
                starts.append(i)
    bounds = list(zip(starts, starts[1:] + [len(lines)]))

    def one(b):
        a, z = b
        p = os.path.join(ctx.scratch, "chunk-%s-%d.ndjson" % (module, a))
        with open(p, "w") as f:
            f.writelines(lines[a:z])
        accepted, consumed, total, res = validate(ctx, module, p, cfg=cfg, heap=heap, timeout=timeout)
        os.remove(p)
        if not accepted:
            raise Infra("%s did not consume the whole log chunk at line %d (%s of %s)\n%s" % (module, a, consumed, total, (res.stdout or "")[-1500:]))
        mm = _LAWS.search(res.stdout)
        if not mm:
            raise Infra("%s reported no verdict for the log chunk at line %d" % (module, a))
        v = [(int(x) + a, y) for x, y in re.findall(r'<<\s*(\d+),\s*"(\w+)"\s*>>', mm.group(1))]
        return v, res.distinct, res.generated
    viols, distinct, generated = [], 0, 0
    with ThreadPoolExecutor(max_workers=max(1, parallel)) as ex:
        for v, d, g in ex.map(one, bounds):
            viols += v
            distinct += d
            generated += g
    return sorted(viols), distinct, generated
