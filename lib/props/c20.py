"""C20 — derived climate variables are physically ordered.

TraceClimate.tla states the clauses of C20 as ORDER laws over a grid elevation x relative humidity x dry-bulb
temperature ([-40, 55] C incl. points straddling the freezing point where the saturation curve switches
formulation, (0, 100] %, [0, 10000] m): outputs finite, saturation vapour pressure positive and strictly
increasing with temperature, dew point <= wet bulb <= dry bulb, deltaT = dry bulb - wet bulb, dew point rising
with humidity.  The engine evaluates the catalogued ClimateVariables model at every grid point and logs the
observations rank-encoded (order-isomorphic; TLC does no arithmetic on them); TLC judges every point against
every law and reports the failing ones.  Binding self-test: a log with one swapped pair of ranks must be reported.
"""
import json
import os
import re

from ..common import Infra, run_vh, last_json
from .. import tracecheck


def judge(ctx, tr):
    accepted, consumed, total, res = tracecheck.validate(ctx, "TraceClimate", tr, heap="8g", timeout=2400)
    if not accepted:
        raise Infra("TraceClimate did not consume the whole log (%s of %s)" % (consumed, total))
    mm = re.search(r'"LAW_VIOLATIONS",\s*(\{.*?\})\s*>>', res.stdout, re.S)
    if not mm:
        raise Infra("TraceClimate reported no verdict")
    ctx.cov["states"] += res.distinct
    ctx.cov["transitions"] += res.generated
    return [(int(a), b) for a, b in re.findall(r'<<\s*(\d+),\s*"(\w+)"\s*>>', mm.group(1))]


def run(ctx):
    tr = os.path.join(ctx.scratch, "climate.ndjson")
    args = ["climate", tr, "0.5"] if ctx.quick else ["climate", tr, "0.05", "fine"]
    rc, out, err = run_vh(ctx, args)
    if rc != 0:
        ctx.report({"kind": "crash", "model": "ClimateVariables"}, "ClimateVariables crashed on the grid: " + err[-1000:], {"stderr": err[-3000:]})
        return ctx.finish("model_checking")
    s = last_json(out)
    ctx.cov["evaluations"] += s["evaluations"]
    ctx.cov["distinct_nontrivial"] += s["distinct_nontrivial"]
    ctx.cov["traces_validated_against_impl"] += s["evaluations"]
    ctx.notes["grid"] = s["extra"]
    for smp in s["samples"][:1]:
        ctx.sample(smp)
    viols = judge(ctx, tr)
    with open(tr) as f:
        evs = [json.loads(x) for x in f if x.strip()]
    per = {}
    for pos, law in sorted(viols):
        ev = evs[pos - 1]
        per[law] = per.get(law, 0) + 1
        if per[law] > 3:
            continue
        raw = ev["raw"]
        ctx.report({"kind": "climate-" + law, "saturated": raw[1] >= 100},
                   "ClimateVariables violates %s at elevation %s m, humidity %s %%, dry bulb %s C: vapour pressure %s, dew point %s, wet bulb %s, deltaT %s (%d point(s) fail this law)"
                   % (law, raw[0], raw[1], raw[2], raw[3], raw[4], raw[5], raw[6], sum(1 for _, l2 in viols if l2 == law)), {"event": ev})
    ctx.notes["failing_points"] = len(viols)
    # binding self-test: swap the wet-bulb and dry-bulb ranks of one interior point
    ks = [i for i, e in enumerate(evs) if e["ev"] == "pt" and e["wet"] < e["dry"]]
    if not ks:
        raise Infra("no point with wet bulb below dry bulb: grid degenerate")
    k = ks[len(ks) // 2]
    evs[k]["wet"], evs[k]["dry"] = evs[k]["dry"], evs[k]["wet"]
    p2 = os.path.join(ctx.scratch, "climate-corrupt.ndjson")
    with open(p2, "w") as f:
        for e in evs:
            f.write(json.dumps(e) + "\n")
    v2 = judge(ctx, p2)
    if (k + 1, "wetbetween") not in v2:
        raise Infra("binding self-test failed: a swapped wet/dry pair was not reported by TraceClimate")
    ctx.notes["binding_selftest"] = "log with one swapped wet/dry rank pair reported at that point"
    ctx.assumptions += ["grid-bounded: temperatures every %s C plus points within 1e-9..1e-3 of the freezing point; %d humidities; 5 elevations"
                        % ("0.5" if ctx.quick else "0.05", s["extra"]["humidities"]),
                        "monotonicity is judged between neighbouring grid points"]
    return ctx.finish("model_checking")
