"""C13 — reservoir storage closes its water balance and respects its release rules.

TraceStorage.tla states the clauses of C13 as laws over observed solver steps: the release rule (the demand,
raised to the minimum-release curve and capped by the maximum-release curve, both AT THE VOLUME AT HAND) holds at
every volume the solver traverses -- observed through the verif hook at every trial evaluation; spill happens
only above the full-supply volume and never exceeds the excess; no accepted sub-timestep leaves a negative volume;
the reported outflow is exactly what the accepted sub-timesteps released plus what was spilled; the volume change
equals (inflow - outflow) x timestep plus the reported rainfall and evaporation volumes; the final level and area
are the table values of the final volume.  The engine runs the real Storage model on seeded cases (monotone tables
and release curves of 2..5 points; series that fill to spill, draw down towards empty, mix both, or do nothing)
and logs rank-encoded observations; TLC judges every observation against its laws.  Sums and table look-ups are formed by the
engine in float64 (TLC has no reals).  A run that kills the process is located (first timestep that dies) and
reported with the state of the storage before that timestep.
"""
import json
import os
import re

from ..common import Infra, run_vh, last_json
from .. import tracecheck


def judge(ctx, tr):
    viols, distinct, generated = tracecheck.law_violations(ctx, "TraceStorage", tr, chunk=300000, parallel=4, heap="4g", timeout=2400)
    ctx.cov["states"] += distinct
    ctx.cov["transitions"] += generated
    return viols


def interp(x, xs, ys):
    if x <= xs[0]:
        return ys[0]
    if x >= xs[-1]:
        return ys[-1]
    for j in range(1, len(xs)):
        if x <= xs[j]:
            return ys[j - 1] + (x - xs[j - 1]) / (xs[j] - xs[j - 1]) * (ys[j] - ys[j - 1])
    return ys[-1]


def locate_crash(ctx, case, ncases, T):
    """First timestep count at which case `case["case"]` dies, and the volume before that timestep."""
    k = case["case"]

    def dies(n):
        p = os.path.join(ctx.scratch, "probe-%d-%d.ndjson" % (k, n))
        if os.path.exists(p):
            os.remove(p)
        rc, out, err = run_vh(ctx, ["storagelaws", p, str(ncases), str(T), "-only", str(k), "-steps", str(n)], timeout=600)
        return rc != 0, p
    lo, hi = 0, T          # survives lo steps, dies with hi steps
    if not dies(T)[0]:
        return None
    while hi - lo > 1:
        mid = (lo + hi) // 2
        if dies(mid)[0]:
            hi = mid
        else:
            lo = mid
    vprev = case["v0"]
    if lo > 0:
        _, p = dies(lo)
        with open(p) as f:
            steps = [json.loads(x) for x in f if '"step"' in x]
        vprev = steps[-1]["raw"]["vol"]
    t = hi - 1
    dt = case["dt"]
    avail = vprev + case["inflow"][t] * dt
    # the release rule at the volume before: the demand raised to the minimum-release curve, capped by the maximum one
    rel = max(min(case["demand"][t], interp(vprev, case["volumes"], case["maxRelease"])), interp(vprev, case["volumes"], case["minRelease"]))
    losses = case["pet"][t] * 1e-3 * interp(vprev, case["volumes"], case["areas"]) + rel * dt
    return {"t": t, "volume_before": vprev, "available": avail, "potential_losses": losses, "emptied": avail <= losses}


def run(ctx):
    tr = os.path.join(ctx.scratch, "storage.ndjson")
    prog = os.path.join(ctx.scratch, "storage-progress.json")
    ncases, T = (150, 40) if ctx.quick else (1500, 80)
    frm, crashes, evals, cases_run = 0, 0, 0, 0
    while True:
        rc, out, err = run_vh(ctx, ["storagelaws", tr, str(ncases), str(T), "-from", str(frm), "-progress", prog, "-cap", "40" if ctx.quick else "300"], timeout=3000)
        p = open(prog).read() if os.path.exists(prog) else ""
        if rc == 0 and p == "done":
            s = last_json(out)
            evals += s["evaluations"]
            cases_run += s["distinct_nontrivial"]
            for m in s["mismatches"]:
                ctx.report({"kind": m["kind"], "model": "Storage"}, "Storage: %s" % m.get("detail"), m)
            for smp in s["samples"][:1]:
                ctx.sample(smp)
            break
        try:
            case = json.loads(p)
        except ValueError:
            raise Infra("storagelaws died without progress: " + err[-1500:])
        if case["case"] < frm:
            raise Infra("storagelaws made no progress: " + err[-1500:])
        # the cases completed before the one that died are in the log; count them from it later
        crashes += 1
        first = [l for l in err.splitlines() if l.startswith("panic:") or l.startswith("fatal")][:1]
        where = locate_crash(ctx, case, ncases, T) or {"t": None, "emptied": False}
        ctx.report({"kind": "crash", "model": "Storage", "emptied": bool(where.get("emptied"))},
                   "Storage killed the process (%s) at timestep %s of a %s case: volume before %s m3, water available in the step %s m3, potential evaporation + release %s m3; tables volumes=%s areas=%s maxRelease=%s"
                   % (first[0] if first else "?", where.get("t"), case["style"], where.get("volume_before"), where.get("available"), where.get("potential_losses"),
                      case["volumes"], case["areas"], case["maxRelease"]),
                   {"case": case, "where": where, "stderr": err[-2500:]})
        frm = case["case"] + 1
        if crashes > 400:
            raise Infra("too many crashes")
    with open(tr) as f:
        evs = [json.loads(x) for x in f if x.strip()]
    cases_run = sum(1 for e in evs if e["ev"] == "final")
    evals = sum(1 for e in evs if e["ev"] != "case")
    ctx.cov["evaluations"] += evals
    ctx.cov["distinct_nontrivial"] += cases_run
    ctx.cov["traces_validated_against_impl"] += cases_run
    viols = judge(ctx, tr)
    seen = {}
    for pos, law in sorted(viols):
        ev = evs[pos - 1]
        k = pos - 1
        while k > 0 and evs[k]["ev"] != "case":
            k -= 1
        c = evs[k]
        key = (c["style"], law)
        seen[key] = seen.get(key, 0) + 1
        if seen[key] > 2:
            continue
        ctx.report({"kind": "storage-" + law, "model": "Storage", "style": c["style"]},
                   "Storage (%s case %s, %d-point tables, dt %s) violates the %s law at timestep %s (%s observation): %s"
                   % (c["style"], c["case"], c["n"], c["dt"], law, ev.get("t"), ev["ev"], json.dumps(ev.get("raw"))[:700]), {"event": ev, "case": c})
    ctx.notes["cases"] = {"requested": ncases, "completed": cases_run, "killed_process": crashes, "timesteps": T, "failing_timesteps": len(viols)}
    ctx.notes["rule"] = ("cases = seeded (tables of 2..5 points x style fill / drawdown / mixed / quiet / weir x timestep 1 h or 1 d); evaluations = timesteps "
                         "judged by TLC against the laws of TraceStorage.tla; distinct_nontrivial = cases that ran to the end")
    # binding self-test: a perturbed balance residual must be reported
    ks = [i for i, e in enumerate(evs) if e["ev"] == "step" and e["balresid"] <= e["baltol"]]
    if not ks:
        raise Infra("no timestep with a closed balance in the log")
    k = ks[len(ks) // 2]
    evs[k]["balresid"] = evs[k]["baltol"] + 1
    a = k
    while a > 0 and evs[a]["ev"] != "case":
        a -= 1
    z = k + 1
    while z < len(evs) and evs[z]["ev"] != "case":
        z += 1
    p2 = os.path.join(ctx.scratch, "storage-corrupt.ndjson")
    with open(p2, "w") as f:
        for e in evs[a:z]:
            f.write(json.dumps(e) + "\n")
    if (k - a + 1, "balance") not in judge(ctx, p2):
        raise Infra("binding self-test failed: a perturbed balance residual was not reported by TraceStorage")
    ctx.notes["binding_selftest"] = "log with one perturbed balance residual reported at that timestep"
    ctx.assumptions += ["of a timestep's trial evaluations and sub-timesteps an evenly spaced sample is judged (quick 40, thorough 300 per timestep; every spill; all of them enter the outflow-consistency sum)",
                        "floats equal to one part in 1e12 share a rank (the engine's table look-up vs the model's); allowances 1e-9 relative (balance, outflow consistency, table values)",
                        "seeded sample of cases (not exhaustive)"]
    return ctx.finish("exploration")
