"""C02 — bulk array operations equal their element-by-element, row-major definition.

NdArray.tla defines Unroll/Contiguous/Reshape/Maximum/Minimum as functions of (view, store) and
ApplySlice/CopyFrom/Scale/AddTo/ApplyFunc1 as row-major element-by-element writes; TLC enumerates views
of every layout class (contiguous, row-gapped, column, stepped, single-element, 1-wide dims) and every
source layout x destination layout combination, and the replay engine checks the real answers whichever
fast path the code takes (B1).  IndexOps.tla does the same for the integer helpers.  Random histories
are validated against TraceNdArray.tla (B2).
"""
import os

from ..common import Infra, run_vh, last_json
from .. import ndarray
from .c01 import run_traces

C02_EVENTS = {"slice", "read", "reshape", "reshape-error", "reshape-error-missing", "reshape-failed",
              "applyslice", "copyfrom", "twoarray", "crash"}


def configs(ctx):
    if ctx.quick:
        return [("NdArray_views.cfg", None), ("NdArray_alias.cfg", None), ("NdArray_writes.cfg", None),
                ("NdArray_reduce.cfg", None), ("NdArray_zstep.cfg", None), ("NdArray_bcast.cfg", None), ("NdArray_siblings.cfg", None), ("NdArray_neg.cfg", None), ("NdArray_negw.cfg", None), ("NdArray_sim.cfg", (20, 14))]
    return [("NdArray_views.cfg", None), ("NdArray_alias.cfg", None), ("NdArray_writes.cfg", None), ("NdArray_reduce.cfg", None), ("NdArray_zstep.cfg", None), ("NdArray_bcast_t.cfg", None), ("NdArray_siblings.cfg", None), ("NdArray_neg.cfg", None), ("NdArray_negw.cfg", None),
            ("NdArray_views_t.cfg", None), ("NdArray_views3.cfg", None), ("NdArray_writes_t.cfg", None), ("NdArray_sim.cfg", (240, 16))]


def index_ops(ctx):
    cfg = "IndexOps.cfg" if ctx.quick else "IndexOps_t.cfg"
    dump = os.path.join(ctx.scratch, "indexops.out")
    r = ctx.tlc("IndexOps", cfg=cfg, timeout=1500, capture_to=dump)
    r.require_ok()
    cases = os.path.join(ctx.scratch, "indexops.cases")
    n = 0
    with open(cases, "w") as out:
        for ln in r.lines():
            if ln.startswith('"{'):
                out.write(ln + "\n")
                n += 1
    if n == 0:
        raise Infra("IndexOps emitted no cases")
    rc, so, se = run_vh(ctx, ["indexops", cases])
    if rc != 0:
        ctx.report({"kind": "crash", "op": "indexops"}, "index helper crashed: " + se[-1000:], {"stderr": se[-3000:]})
        return
    s = last_json(so)
    ctx.cov["states"] += r.distinct
    ctx.cov["transitions"] += r.generated
    ctx.cov["evaluations"] += s["evaluations"]
    ctx.cov["distinct_nontrivial"] += s["distinct_nontrivial"]
    ctx.cov["traces_validated_against_impl"] += s["evaluations"]
    ctx.notes["indexops"] = {"cfg": cfg, "vectors": n, "tlc_states": r.distinct}
    if s["samples"]:
        ctx.sample(s["samples"][-1])
    for m in s["mismatches"]:
        ctx.report({"kind": "indexops", "op": m["fn"]}, "%s(d=%s, v=%s) = %s, arithmetic definition gives %s"
                   % (m["fn"], m["d"], m["v"], m["got"], m["want"]), m)


def run(ctx):
    for cfg, sim in configs(ctx):
        cases, st = ndarray.gen_cases(ctx, cfg, simulate=sim, timeout=3000)
        for extra in ([], ["-cross"]) if cfg.startswith("NdArray_writes") else ([],):
            s, crash = ndarray.replay(ctx, cases, ["C02"], extra=extra)
            if crash:
                ctx.report({"kind": "process-crash"}, "replay of %s crashed the process: %s" % (cfg, crash["stderr"][-800:]), crash)
                continue
            ndarray.account(ctx, st, s)
            ndarray.report_fails(ctx, s, "C02")
    index_ops(ctx)
    ndarray.big_arrays(ctx, ("footprint", "bulk", "value"))
    run_traces(ctx, C02_EVENTS, "C02", 150 if ctx.quick else 2500, 40)
    ctx.assumptions += ["test values are small non-negative integers (exact in all 8 element types)",
                        "two-array operations on overlapping views are only generated when the order of element transfers cannot matter (the statement does not say whether a memmove-style fast path or the sequential definition wins there)",
                        "aliasing is demanded only for contiguous Go-backed views, as in the statement"]
    return ctx.finish("model_checking")
