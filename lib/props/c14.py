"""C14 — model results are a pure, causal function of parameters, states and inputs.

ModelRuns.tla: the label of out(t) is K(model, P content, S0 content, inputs[0..t]) -- no dependence on
the object, its past, other objects, globals, or later inputs.  TLC enumerates all histories of
New / ApplyParameters / Run (on base, changed-suffix and truncated inputs) / "some other model runs"
over two objects up to the bound and checks the labelling (Causal, PureLabels).  The engine replays every
history on real objects of each of the 41 models; observations with equal labels must be bit-identical.
"""
from .. import modelruns


def run(ctx):
    cfg = "ModelRuns_hist.cfg" if ctx.quick else "ModelRuns_hist_t.cfg"
    cases = modelruns.histories(ctx, cfg)
    args = ["-draws", "1"] if ctx.quick else ["-draws", "3", "-sample", "6000"]
    s, crash = modelruns.replay(ctx, "hist", cases, args)
    if crash:
        c = crash.get("case") or {}
        ctx.report({"kind": "crash", "model": c.get("model")}, "model %s crashed: %s" % (c.get("model"), crash["stderr"][-800:]), crash)
    else:
        modelruns.account(ctx, s)
        for m in s["mismatches"]:
            ctx.report({"kind": m["kind"], "model": m["model"], "output": m["output"]},
                       "%s draw %d: %s" % (m["model"], m["draw"], m["detail"]), m)
    ctx.assumptions += ["values sampled (seeded) from curated valid ranges; bit-wise comparison (NaN by bits)"]
    return ctx.finish("exploration")
