"""C14 — model results are a pure, causal function of parameters, states and inputs.

ModelRuns.tla: the label of out(t) is K(model, P content, S0 content, inputs[0..t]) -- no dependence on
the object, its past, other objects, globals, or later inputs.  TLC enumerates all histories of
New / ApplyParameters / Run (on base, changed-suffix and truncated inputs) / "some other model runs"
over two objects up to the bound and checks the labelling (Causal, PureLabels).  The engine replays every
history on real objects of each of the 41 models; observations with equal labels must be bit-identical.
"""
from ..common import Infra
from .. import modelruns


def run(ctx):
    import json, os
    cfg = "ModelRuns_hist.cfg" if ctx.quick else "ModelRuns_hist_t.cfg"
    cases = modelruns.histories(ctx, cfg)
    args = ["-draws", "3", "-sample", "1200"] if ctx.quick else ["-draws", "6", "-sample", "6000"]
    d1 = os.path.join(ctx.scratch, "digest-all.json")
    s, crash = modelruns.replay(ctx, "hist", cases, args + ["-digest", d1])
    ok = True
    if crash:
        c = crash.get("case") or {}
        ctx.report({"kind": "crash", "model": c.get("model")}, "model %s crashed: %s" % (c.get("model"), crash["stderr"][-800:]), crash)
        ok = False
    else:
        modelruns.account(ctx, s)
        for m in s["mismatches"]:
            ctx.report({"kind": m["kind"], "model": m["model"], "output": m["output"]},
                       "%s draw %d: %s" % (m["model"], m["draw"], m["detail"]), m)
    if ok and not ctx.quick:
        # the thorough bound enumerates histories over zeroed output arrays only (with used arrays it has 1.6 million
        # states and as many records); the histories WITH used output arrays are those of the quick bound, replayed again
        cases_u = modelruns.histories(ctx, "ModelRuns_hist.cfg")
        su, crash_u = modelruns.replay(ctx, "hist", cases_u, ["-draws", "3", "-sample", "4000"])
        if crash_u:
            cu = crash_u.get("case") or {}
            ctx.report({"kind": "crash", "model": cu.get("model")}, "model %s crashed: %s" % (cu.get("model"), crash_u["stderr"][-800:]), crash_u)
        else:
            modelruns.account(ctx, su)
            for m in su["mismatches"]:
                ctx.report({"kind": m["kind"], "model": m["model"], "output": m["output"]}, "%s draw %d: %s" % (m["model"], m["draw"], m["detail"]), m)
    # Pristine references: for every model and every parameter content a SEPARATE process that only ever sees
    # that one content (no other model runs in it). Nothing may survive in package-level state or depend on
    # what ran before, so the values observed in the big process must agree with them bit for bit.
    if ok:
        import concurrent.futures
        from ..common import run_vh, last_json
        rc, out, err = run_vh(ctx, ["catalog"])
        names = sorted(json.loads(out.strip().splitlines()[-1]).keys())
        jobs = [(n, k) for n in names for k in (0, 1)]

        def solo(job):
            n, k = job
            dp = os.path.join(ctx.scratch, "digest-%s-%d.json" % (n, k))
            rc, out, err = run_vh(ctx, ["modelruns", "hist", cases, "-models", n, "-content", str(k), "-noother", "-digest", dp,
                                        "-sample", "300"] + args[:2], timeout=1200)
            if rc == 0:
                try:
                    for m in last_json(out)["mismatches"]:
                        if str(m.get("kind", "")).startswith("probe-mismatch") or m.get("kind") == "panic":
                            probe_fails.append((n, m))
                except Exception:
                    pass
            return n, k, rc, dp, err

        a = json.load(open(d1))
        probe_fails = []
        compared, reported = 0, set()
        with concurrent.futures.ThreadPoolExecutor(max_workers=12) as ex:
            for n, k, rc, dp, err in ex.map(solo, jobs):
                if rc != 0 or not os.path.exists(dp):
                    ctx.report({"kind": "crash", "model": n}, "model %s crashed in a solo process: %s" % (n, err[-600:]), {"stderr": err[-2000:]})
                    continue
                b = json.load(open(dp))
                for key, val in b.items():
                    if key in a:
                        compared += 1
                        if a[key] != val and n not in reported:
                            reported.add(n)
                            ctx.report({"kind": "process-history-dependence", "model": n},
                                       "%s: label %s evaluates to %s in a process that only ever ran this parameter content, but to %s in a "
                                       "process where other runs came first (something survives in package-level state)" % (n, key, val[:70], a[key][:70]),
                                       {"label": key, "solo": val, "shared": a[key]})
        seen_pf = set()
        for n, m in probe_fails:
            if (n, m.get("kind")) in seen_pf:
                continue
            seen_pf.add((n, m.get("kind")))
            ctx.report({"kind": m["kind"], "model": n, "output": m.get("output")}, "%s (pristine process): %s" % (n, m["detail"]), m)
        ctx.notes["cross_process_labels_compared"] = compared
        ctx.cov["evaluations"] += len(jobs)
        if compared < 100:
            raise Infra("cross-process comparison found almost no common labels (%d)" % compared)
    ctx.assumptions += ["values sampled (seeded) from curated valid ranges incl. catalogue defaults and branch-selecting values; bit-wise comparison (NaN by bits)"]
    ctx.notes["rule"] = "cases = (model x history generated by TLC from ModelRuns.tla x seeded numeric draw); evaluations = histories replayed; distinct_nontrivial = number of distinct labels (model, draw, parameter content, initial-state source, canonical input prefix) observed - each compared bit-wise across all histories that produce it, and across two processes with opposite parameter order"
    return ctx.finish("exploration")
