"""C17 — the JSON single-model runner is equivalent to a direct run and always answers.

JsonRunner.tla: the response function over request classes (malformed / no name / unknown model / table
parameters / no, some, all, unequal-length inputs x none, some, all, extra parameters): always exactly one
JSON document, a problem description or results equal to the direct one-cell run with defaults and
zero-filled inputs reported in Log; and the JSON-safe nesting of n-d arrays with non-finite values.  TLC
checks totality/consistency and enumerates the classes and nesting cases.  The engine synthesises concrete
requests for every class x all 41 models (seeded valid values, permuted order, duplicates, byte-level
mutations for the malformed class), feeds them to sim.RunSingleModelJSON and checks the single document,
its class, the Log and numeric equality with a direct Run.  Requests run in a child process; a crash is a
violation attributed to the request being processed.
"""
import base64
import json
import os

from ..common import Infra, run_vh, last_json

STRUCTURAL = {"GR4J": ["X4"], "DateGenerator": ["startMonth"], "StorageRouting": ["RoutingPower", "RoutingConstant"]}


def run(ctx):
    dump = os.path.join(ctx.scratch, "jsonrunner.tlcout")
    r = ctx.tlc("JsonRunner", cfg="JsonRunner.cfg", workers=1, timeout=600, capture_to=dump)
    r.require_ok()
    classes = os.path.join(ctx.scratch, "classes.txt")
    n = 0
    with open(classes, "w") as out:
        for ln in r.lines():
            if ln.startswith('"{'):
                out.write(ln + "\n")
                n += 1
    if n == 0:
        raise Infra("JsonRunner emitted nothing")
    ctx.cov["states"] += r.distinct
    ctx.cov["transitions"] += r.generated
    ctx.notes["tlc"] = {"classes_and_nesting_cases": n, "states": r.distinct}
    # nesting
    rc, out, err = run_vh(ctx, ["jsonrun", "nest", classes])
    if rc != 0:
        ctx.report({"kind": "crash", "where": "JsonSafeArray"}, "JsonSafeArray crashed: " + err[-800:], {"stderr": err[-3000:]})
    else:
        s = last_json(out)
        ctx.cov["evaluations"] += s["evaluations"]
        for m in s["mismatches"]:
            ctx.report({"kind": m["kind"]}, "JsonSafeArray shape %s shift %s (%s view): %s" % (m.get("shape"), m.get("shift"), m.get("layout"), m["detail"]), m)
    # requests
    reqs = os.path.join(ctx.scratch, "requests.ndjson")
    rc, out, err = run_vh(ctx, ["jsonrun", "gen", classes, reqs, "-per", "2" if ctx.quick else "40"])
    if rc != 0:
        raise Infra("jsonrun gen failed: " + err[-2000:])
    total = last_json(out)["evaluations"]
    byid = {}
    with open(reqs) as f:
        for ln in f:
            q = json.loads(ln)
            byid[q["id"]] = q
    results = os.path.join(ctx.scratch, "results.ndjson")
    prog = os.path.join(ctx.scratch, "jr-progress.txt")
    frm, crashes = 0, 0
    while True:
        rc, out, err = run_vh(ctx, ["jsonrun", "exec", reqs, results, prog, "-from", str(frm)], timeout=3000)
        p = open(prog).read().strip() if os.path.exists(prog) else ""
        if p == "done":
            break
        if not p.isdigit() or int(p) <= frm:
            raise Infra("jsonrun exec died without progress: " + err[-1500:])
        frm = int(p)
        crashes += 1
        q = byid.get(frm, {})
        missing = q.get("missing_params") or []
        trigger = "none"
        for cand in STRUCTURAL.get(q.get("model"), []):
            if cand in missing:
                trigger = cand
                break
        first = [l for l in err.splitlines() if l.startswith("panic:") or "SIG" in l or l.startswith("fatal")][:1]
        ctx.report({"kind": "crash", "model": q.get("model"), "defaulted": trigger, "extreme": bool(q.get("extreme"))},
                   "RunSingleModelJSON crashed the process (%s) on a %s request for %s: %s" % (
                       first[0] if first else "?", q.get("class"), q.get("model"), base64.b64decode(q.get("bytes", ""))[:400]),
                   {"request": base64.b64decode(q.get("bytes", "")).decode("utf-8", "replace"), "class": q.get("class"), "stderr": err[-2500:]})
        if crashes > max(400, len(byid) // 5):
            raise Infra("too many crashes (%d of %d requests)" % (crashes, len(byid)))
    bad = 0
    nres = 0
    with open(results) as f:
        for ln in f:
            v = json.loads(ln)
            nres += 1
            if v["ok"]:
                if len(ctx.cov["samples"]) < 3 and "result" in byid[v["id"]]["expect"] :
                    ctx.sample({"class": v["class"], "model": v["model"], "request": base64.b64decode(byid[v["id"]]["bytes"]).decode("utf-8", "replace")[:300]})
                continue
            bad += 1
            ctx.report({"kind": v["kind"], "model": v["model"]}, "%s / %s: %s | request: %s" % (v["class"], v["model"], v["detail"][:500], v.get("request", "")[:300]), v)
    ctx.cov["evaluations"] += nres + crashes
    ctx.cov["distinct_nontrivial"] += len(set(q["class"] for q in byid.values()))
    ctx.cov["traces_validated_against_impl"] += nres
    ctx.notes["requests"] = {"generated": len(byid), "answered": nres, "crashes": crashes, "not_ok": bad}
    ctx.assumptions += ["supplied parameter/input values are drawn from valid ranges; missing parameters take the catalogue defaults (which for several models are 0)",
                        "States in requests are ignored by the runner by design (InitialiseStates(1) is used), as in the statement"]
    return ctx.finish("model_checking")
