"""C07 — ow-sim executes a model graph exactly like the sequential reference semantics.

OwSim.tla (protocol): main loop, per-model goroutines, lazy load / purge of generations, link application,
the unbuffered writingDone channel with FIFO parked-receiver/sender queues, the token-passing writers and
the final drain; TLC checks exhaustively (3 and 4 generations, with and without output file): every
generation written exactly once before exit, nothing purged before it was written and its links applied,
no use after purge, links applied before a generation runs, writers serialised, no deadlock, and
termination under fairness.  OwSimData.tla (function): the sequential reference over integer series with
exact node kernels (incl. a table-parameter model and two models with prefix-related names) and the meaning of
the four dataset-selection flags (SelectionTable); TLC enumerates all graphs within the bounds with the expected
datasets and, per graph, flag combinations with the datasets each must produce.
Bindings: (1) the REAL ow-sim binary (built from /repo against the fake HDF5) runs a seeded sample of
those graphs with every command-line output selection (incl. the split-output writer sub-process) and every
dataset of the output files is compared exactly; (2) hook event logs of perturbed real runs are validated
by TLC against TraceOwSim.tla (= OwSim's actions + all its invariants at every step).
"""
import json
import os

from ..common import Infra
from .. import owsim, tracecheck


def protocol(ctx):
    cfgs = ["OwSim_3.cfg", "OwSim_4.cfg", "OwSim_noout.cfg", "OwSim_live.cfg"] + ([] if ctx.quick else ["OwSim_5.cfg"])
    for cfg in cfgs:
        r = ctx.tlc("MCOwSim", cfg=cfg, timeout=2400, deadlock=True)
        r.require_ok(cfg)
        ctx.cov["states"] += r.distinct
        ctx.cov["transitions"] += r.generated
        ctx.notes.setdefault("tlc", {})[cfg] = {"states_distinct": r.distinct, "states_generated": r.generated}
    # documented dependency: with arbitrary (non-FIFO) service of parked receivers termination fails
    r = ctx.tlc("MCOwSim", cfg="OwSim_live_anyorder.cfg", timeout=600, deadlock=True)
    ctx.notes["tlc"]["OwSim_live_anyorder.cfg"] = ("Terminates violated (expected: progress of ow-sim rests on FIFO service of parked receivers by the Go runtime)"
                                                   if "Terminates was violated" in (r.stdout or "") else "no violation found")


def run(ctx):
    protocol(ctx)
    binary = owsim.build_owsim(ctx)
    # (1) B1 on the real binary: two families of graphs (wide batches / three generations)
    # + table-parameter models (dimension sizing from the parameter file) and prefix-related model names (selection flags)
    for gcfg, n in (("OwSimData_scale.cfg", 24 if ctx.quick else 400), ("OwSimData_names.cfg", 16 if ctx.quick else 300), ("OwSimData_tables.cfg", 24 if ctx.quick else 400),
                    ("OwSimData.cfg", 32 if ctx.quick else 500), ("OwSimData_3.cfg", 24 if ctx.quick else 400)):
        cases, st = owsim.graphs(ctx, gcfg)
        ctx.cov["states"] += st["states_distinct"]
        ctx.cov["transitions"] += st["states_generated"]
        ctx.notes["tlc"][gcfg] = st
        s = owsim.run_engine(ctx, cases, binary, ["-sample", str(n), "-options", "all", "-workers", "16"])
        ctx.cov["evaluations"] += s["evaluations"]
        ctx.cov["distinct_nontrivial"] += s["distinct_nontrivial"]
        ctx.cov["traces_validated_against_impl"] += s["evaluations"]
        ctx.notes.setdefault("b1", []).append(s["extra"])
        for smp in s["samples"][:1]:
            ctx.sample(smp)
        for m in s["mismatches"]:
            ctx.report({"kind": m["kind"], "option": m["option"]}, "ow-sim (%s): %s" % (m["option"], m["detail"][:1500]), m)
    # a wider sample of the three-generation scaling graphs with the default option only (links that skip a generation
    # into a model that also has nodes in between, factors that differ from node to node)
    cases_w, _ = owsim.graphs(ctx, "OwSimData_scale.cfg")
    sw = owsim.run_engine(ctx, cases_w, binary, ["-sample", str(120 if ctx.quick else 1500), "-options", "basic", "-workers", "16"], seed_offset=6000)
    ctx.cov["evaluations"] += sw["evaluations"]
    ctx.cov["traces_validated_against_impl"] += sw["evaluations"]
    ctx.notes.setdefault("b1", []).append(sw["extra"])
    for m in sw["mismatches"]:
        ctx.report({"kind": m["kind"], "option": m["option"]}, "ow-sim (%s): %s" % (m["option"], m["detail"][:1500]), m)
    # (2) B2: hook traces of perturbed runs
    tdir = os.path.join(ctx.scratch, "owtraces")
    os.makedirs(tdir)
    nt = 24 if ctx.quick else 300
    s2 = owsim.run_engine(ctx, cases, binary, ["-sample", str(nt), "-options", "basic+noout", "-workers", "16", "-trace", tdir, "-perturb"], seed_offset=1000)
    for m in s2["mismatches"]:
        ctx.report({"kind": m["kind"], "option": m["option"] + "/perturbed"}, "ow-sim under schedule perturbation (%s): %s" % (m["option"], m["detail"][:1500]), m)
    ok, bad, files = owsim.validate_traces(ctx, tdir)
    ctx.cov["evaluations"] += s2["evaluations"]
    ctx.cov["traces_validated_against_impl"] += ok
    ctx.notes["b2"] = {"traces": len(files), "accepted": ok, "rejected": len(bad)}
    for p, consumed, total, ev, before, cfg in bad[:5]:
        ctx.report({"kind": "trace-rejected"},
                   "event log of a real ow-sim run is not a behaviour of OwSim (or violates one of its invariants): event #%d %s; preceding: %s; config %s"
                   % (consumed + 1, ev, before, cfg[:400]), {"event": ev, "preceding": before, "config": cfg})
    if files and not bad:
        def mutate(evs):
            ks = [i for i, e in enumerate(evs) if e.get("ev") == "wwriteend"]
            k = ks[-1]
            del evs[k]
            return "dropped the last wwriteend event"
        tracecheck.corrupt_and_expect_reject(ctx, "TraceOwSim", files[0], mutate)
        ctx.notes["binding_selftest"] = "trace with a dropped wwriteend event rejected"
    # (3) B3: interleavings chosen by TLC (OwSimSched.tla) forced onto the real binary through the gating hooks
    cases3, _ = owsim.graphs(ctx, "OwSimData_3.cfg")
    owsim.schedule_replay(ctx, cases3, binary, 8 if ctx.quick else 80, 3 if ctx.quick else 10)
    # ... and on graphs with a zero scaling factor somewhere and array-valued state rows (what a kernel leaves unwritten
    # shows when the schedule lets a writer purge a generation before a later one runs)
    cases_s, _ = owsim.graphs(ctx, "OwSimData_scale.cfg")
    owsim.schedule_replay(ctx, cases_s, binary, 8 if ctx.quick else 80, 3 if ctx.quick else 10, seed_offset=3000, label="b3_scale")
    # (4) the hand-over to a writer child process (-outputs Model=file): OwSimSplit.tla, TraceOwSimSplit.tla
    owsim.split_design(ctx)
    owsim.split_replay(ctx, cases3, binary, 10 if ctx.quick else 120)
    ctx.assumptions += ["B3: schedules are drawn by TLC's simulation mode from the eager behaviours of OwSim (hook-less continuation steps first); a schedule the goroutines cannot follow is counted, not judged",
                        "S1: HDF5 library is harness/fakehdf5", "protocol model: <=4 generations (thorough 5), 2 model types, links between every pair of generations",
                        "B1 graphs: all graphs with <=2 model types of {Input,Sum,FixedPartition,Muskingum}, <=2 generations, <=2 nodes per batch, <=2 links, T=3; a seeded sample is executed",
                        "liveness holds under FIFO service of parked channel receivers (Go runtime behaviour)"]
    return ctx.finish("model_checking")
