"""C16 — partition, conversion and generation models satisfy their algebraic identities (rational models).

ExactModels.tla defines the 15 catalogue models whose kernels are (piecewise) linear with rational
coefficients in exact rational arithmetic, with the documented unit factors; TLC checks the identities of the
statement (outputs sum to the input, extraction <= demand and availability, outflow >= 0, identity / mask /
sum / linear maps, total = quick + slow, zero driver => zero load, linearity with the mg/L -> kg/m3 factor)
as invariants over every case of the grid (zero, negative demand, table end points) and emits the expected
outputs; the engine runs each case through the catalogue and compares within a few ulp.
The five generators with power-law terms (BankErosion, USLEFineSedimentGeneration, DynamicSednetGully(Alt),
SednetParticulateNutrientGeneration) are covered for INTEGER power factors (and day-of-year 15, where USLE's
seasonal cosine is exactly 1): their kernels are then rational too and are transcribed the same way.
"""
from .. import exact


def run(ctx):
    for cfg, label in (("ExactModels.cfg" if ctx.quick else "ExactModels_t.cfg", "exact-models"), ("ExactGenerators.cfg", "exact-generators")):
        cases = exact.tlc_cases(ctx, "ExactModels", cfg, timeout=2400)
        s = exact.run_exact(ctx, cases, ["exact"], label)
        if s:
            for m in s["mismatches"]:
                ctx.report({"kind": m["kind"], "model": m["model"]}, "%s: %s | case %s" % (m["model"], m["detail"], str(m["case"].get("exact"))[:300]), m)
    ctx.assumptions += ["power-law generators: integer power factors only (exact rational transcription); fractional exponents are not explored",
                        "comparison tolerance 1e-14 relative (unit factors such as 1e-3 are not dyadic)"]
    return ctx.finish("model_checking")
