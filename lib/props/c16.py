"""C16 — partition, conversion and generation models satisfy their algebraic identities (rational models).

ExactModels.tla defines the 15 catalogue models whose kernels are (piecewise) linear with rational
coefficients in exact rational arithmetic, with the documented unit factors; TLC checks the identities of the
statement (outputs sum to the input, extraction <= demand and availability, outflow >= 0, identity / mask /
sum / linear maps, total = quick + slow, zero driver => zero load, linearity with the mg/L -> kg/m3 factor)
as invariants over every case of the grid (zero, negative demand, table end points) and emits the expected
outputs; the engine runs each case through the catalogue and compares within a few ulp.
Not covered (real exponents): BankErosion, USLEFineSedimentGeneration, DynamicSednetGully(Alt),
SednetParticulateNutrientGeneration.
"""
from .. import exact


def run(ctx):
    cfg = "ExactModels.cfg" if ctx.quick else "ExactModels_t.cfg"
    cases = exact.tlc_cases(ctx, "ExactModels", cfg, timeout=2400)
    s = exact.run_exact(ctx, cases, ["exact"], "exact-models")
    if s:
        for m in s["mismatches"]:
            ctx.report({"kind": m["kind"], "model": m["model"]}, "%s: %s | case %s" % (m["model"], m["detail"], str(m["case"].get("exact"))[:300]), m)
    ctx.assumptions += ["claimed for the 15 models with rational kernels; the five pow()-based generators are not covered (DESIGN.md section 10)",
                        "comparison tolerance 1e-14 relative (unit factors such as 1e-3 are not dyadic)"]
    return ctx.finish("model_checking")
