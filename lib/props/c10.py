"""C10 — rainfall-runoff models never create water and keep stores within bounds.

TraceRunoff.tla states the clauses of C10 as laws over observed timesteps: outputs finite and non-negative, every
store within [0, capacity], reported components add up to the reported total, cumulative runoff (plus reported
actual ET) never exceeds cumulative rainfall plus initial storage, and for GR4J without exchange and PET the balance
closes (rainfall = runoff + production, routing and unit-hydrograph stores).  The engine runs the five real models on
seeded cases -- parameters from the physically meaningful ranges only, non-negative rainfall / PET series with long
dry spells and extreme storms, initial states as produced by the model itself -- and logs one rank-encoded
observation per timestep (stores at timestep t = final states of a run over the first t+1 steps); TLC judges every
timestep against every law.  The sums the statement speaks of are formed by the engine in float64 (TLC has no
reals); the comparisons, the quantification over timesteps and cases, and the verdict are the specification's.
"""
import json
import os
import re

from ..common import Infra, run_vh, last_json
from .. import tracecheck


def judge(ctx, tr):
    accepted, consumed, total, res = tracecheck.validate(ctx, "TraceRunoff", tr, heap="8g", timeout=2400)
    if not accepted:
        raise Infra("TraceRunoff did not consume the whole log (%s of %s)" % (consumed, total))
    mm = re.search(r'"LAW_VIOLATIONS",\s*(\{.*?\})\s*>>', res.stdout, re.S)
    if not mm:
        raise Infra("TraceRunoff reported no verdict")
    ctx.cov["states"] += res.distinct
    ctx.cov["transitions"] += res.generated
    return [(int(a), b) for a, b in re.findall(r'<<\s*(\d+),\s*"(\w+)"\s*>>', mm.group(1))]


def run(ctx):
    tr = os.path.join(ctx.scratch, "runoff.ndjson")
    rc, out, err = run_vh(ctx, ["rrlaws", tr, "120" if ctx.quick else "1200", "80" if ctx.quick else "150"], timeout=3000)
    if rc != 0:
        ctx.report({"kind": "crash"}, "a rainfall-runoff model crashed on a case in the physical range: " + err[-1000:], {"stderr": err[-3000:]})
        return ctx.finish("model_checking")
    s = last_json(out)
    for m in s["mismatches"]:
        ctx.report({"kind": m["kind"], "model": m.get("model")}, "%s: %s" % (m.get("model"), m.get("detail")), m)
    ctx.cov["evaluations"] += s["evaluations"]
    ctx.cov["distinct_nontrivial"] += s["distinct_nontrivial"]
    ctx.cov["traces_validated_against_impl"] += s["distinct_nontrivial"]
    ctx.notes["cases"] = s["extra"]
    for smp in s["samples"][:1]:
        ctx.sample(smp)
    viols = judge(ctx, tr)
    with open(tr) as f:
        evs = [json.loads(x) for x in f if x.strip()]
    seen = {}
    for pos, law in sorted(viols):
        ev = evs[pos - 1]
        k = pos - 1
        while k > 0 and evs[k]["ev"] != "case":
            k -= 1
        c = evs[k]
        key = (c["model"], c["variant"], law)
        seen[key] = seen.get(key, 0) + 1
        if seen[key] > 2:
            continue
        ctx.report({"kind": "runoff-" + law, "model": c["model"], "variant": c["variant"]},
                   "%s (%s, %s series) violates the %s law at timestep %s: %s; parameters %s"
                   % (c["model"], c["variant"], c["style"], law, ev.get("t"), json.dumps(ev.get("raw"))[:600], c["params"]),
                   {"event": ev, "case": c})
    ctx.notes["failing_timesteps"] = len(viols)
    ctx.notes["rule"] = ("cases = (model x seeded parameter vector in the physical ranges x seeded rainfall/PET series of one of six styles: mixed, "
                         "dry spells, storms, drizzle, no PET, sustained wet; GR4J additionally in the variants closure / losing / any exchange); evaluations = timesteps "
                         "judged by TLC against the six laws of TraceRunoff.tla; distinct_nontrivial = cases")
    # binding self-test: a store pushed above its capacity must be reported
    ks = [i for i, e in enumerate(evs) if e["ev"] == "step" and e["stores"]]
    if not ks:
        raise Infra("no timestep with a bounded store in the log")
    k = ks[len(ks) // 2]
    evs[k]["stores"][0] = evs[k]["caps"][0] + 1
    p2 = os.path.join(ctx.scratch, "runoff-corrupt.ndjson")
    with open(p2, "w") as f:
        for e in evs:
            f.write(json.dumps(e) + "\n")
    if (k + 1, "stores") not in judge(ctx, p2):
        raise Infra("binding self-test failed: a store above its capacity was not reported by TraceRunoff")
    ctx.notes["binding_selftest"] = "log with one store above its capacity reported at that timestep"
    ctx.assumptions += ["parameters from the curated physical ranges (harness/cmd/vh/models.go `curated`; Sacramento area fractions pctim <= 0.2, adimp <= 0.3, sarva <= pctim, unit hydrograph summing to one, ssout = 0)",
                        "the no-water-created law is not judged for GR4J with a positive or negative exchange coefficient drawn freely (exchange imports water); it is for X2 <= 0 and X2 = 0",
                        "allowances: components 1e-12 relative, cumulative budgets 1e-9 relative, capacities one part in 1e12",
                        "seeded sample of cases (not exhaustive)"]
    return ctx.finish("exploration")
