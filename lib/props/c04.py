"""C04 — vectorised Run equals independent single-cell runs and touches nothing else.

RunWrapper.tla models one Run call with an uninterpreted kernel (values are terms recording the
locations they were computed from).  TLC checks for every configuration within the bounds (cells,
parameter sets, input blocks, timesteps, output slack; equal, fewer and coprime counts) and every
interleaving that the result is exactly "each cell alone with its own column / row / block, nothing else
touched" (PerCellAndFrame, FrameAlways).  Every configuration is then replayed on all catalogued models
(Go- and C-backed caller arrays), the specification's terms being interpreted by the real kernel:
each cell alone on a fresh model object; bit-identical results required (B1+B4).
"""
from .. import runwrap


def run(ctx):
    cfgs = ["RunWrapper.cfg"] if ctx.quick else ["RunWrapper.cfg", "RunWrapper_wide.cfg"]
    for cfg in cfgs + ["RunWrapper_many.cfg"]:
        if "many" in cfg:
            # many cells (33..257): configurations drawn by TLC's simulation mode, one behaviour per configuration
            cases, r = runwrap.tlc_configs(ctx, cfg, module="MCRunWrapper", simulate="num=%d" % (2 if ctx.quick else 12), depth=3000, workers=4)
        else:
            cases, r = runwrap.tlc_configs(ctx, cfg)
        draws = 1 if ctx.quick or "wide" in cfg else 3
        s, bad = runwrap.run_engine(ctx, cases, ["-draws", str(draws)])
        if bad:
            c = bad.get("case") or {}
            ctx.report({"kind": bad["kind"], "model": c.get("model")},
                       "model %s crashed inside Run on a valid case (config %s): %s" % (c.get("model"), c.get("config"), bad["stderr"][-700:]), bad)
            continue
        ctx.cov["evaluations"] += s["evaluations"]
        ctx.cov["distinct_nontrivial"] += s["distinct_nontrivial"]
        ctx.cov["traces_validated_against_impl"] += s["distinct_nontrivial"]
        ctx.notes.setdefault("engine", []).append(s["extra"])
        for smp in s["samples"][:2]:
            ctx.sample(smp)
        for m in s["mismatches"]:
            ctx.report({"kind": m["kind"], "model": m["model"]},
                       "%s/%s %s (nc=%d np=%d nb=%d t=%d oc=%d ot=%d seed=%d): %s" % (
                           m["model"], m["backend"], m["kind"], m["config"]["nc"], m["config"]["np"], m["config"]["nb"],
                           m["config"]["t"], m["config"]["oc"], m["config"]["ot"], m["seed"], m["detail"]), m)
    runwrap.proxy_traces(ctx, 6 if ctx.quick else 60)
    ctx.assumptions += ["proxy traces: accesses made through a slice handed out by Unroll() of a contiguous view are not observable (they stay inside that view's recorded footprint)",
                        "parameters, states and inputs are drawn (seeded) from declared or curated valid ranges (harness/cmd/vh/models.go)",
                        "cells of one Run share structural parameters that fix the state-vector length (Lag length, GR4J unit-hydrograph lengths)"]
    return ctx.finish("model_checking")
