"""C06 — hot-start continuity: split runs reproduce the uninterrupted run.

ModelRuns.tla gives every observable value a label naming what it may depend on; a run resumed from
the states returned by the previous segment continues the labels of the uninterrupted run (the
continuity axiom K*(K*(s,x),y) = K*(s,x.y), an obligation on every real kernel).  TLC enumerates every
composition of the period into consecutive segments, every hand-over mode of the state vector at every
boundary (same array in place / copied to a fresh Go array / copied to a C array) and re-use of the same
or a second model object, and checks the segmentation tiles the period (Tiling, SegmentLabels).  The
engine replays every schedule on every stateful model: all observations with equal labels must agree
(round-off; the solver's mass-balance tolerance for StorageRouting).
"""
from .. import modelruns


def run(ctx):
    cfg = "ModelRuns_split.cfg" if ctx.quick else "ModelRuns_split_t.cfg"
    cases = modelruns.histories(ctx, cfg)
    runs = [(cases, ["-sample", "1200", "-draws", "2"] if ctx.quick else ["-draws", "6"])]
    if not ctx.quick:
        runs.append((modelruns.histories(ctx, "ModelRuns_split.cfg"), ["-draws", "3"]))
    for cs, args in runs:
        s, crash = modelruns.replay(ctx, "split", cs, args)
        if crash:
            c = crash.get("case") or {}
            ctx.report({"kind": "crash", "model": c.get("model")}, "model %s crashed during a split run: %s" % (c.get("model"), crash["stderr"][-800:]), crash)
            continue
        modelruns.account(ctx, s)
        for m in s["mismatches"]:
            ctx.report({"kind": m["kind"], "model": m["model"], "variant": m["variant"], "output": m["output"]},
                       "%s (%s) draw %d: %s" % (m["model"], m["variant"], m["draw"], m["detail"]), m)
    ctx.assumptions += ["tolerance: relative 1e-9 + absolute 1e-12; StorageRouting: the solver's mass-balance tolerance propagated (the root finder's starting guess is legitimately not part of the state)",
                        "parameters/inputs/initial states sampled (seeded) from curated valid ranges; GR4J over all unit-hydrograph lengths, Lag over lags 0..T+2"]
    return ctx.finish("exploration")
