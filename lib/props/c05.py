"""C05 — concurrent cell and model execution is race-free and schedule-independent.

RunWrapper.tla: main + one process per cell, one atomic memory access per step; TLC explores ALL
interleavings within the bounds and checks NoRace, JoinBeforeReturn, ScheduleIndependent (result equals
the sequential cell-by-cell result) and, under fairness, termination.  A deliberately broken variant
(two cells sharing a state row) must be caught (vacuity self-test).  Binding: the same configurations are
executed on all catalogued models with the harness built with the Go race detector under several
GOMAXPROCS values; a race report is a violation, and every run must be bit-identical to the sequential
single-cell oracle.  The ow-sim half (goroutine per model + asynchronous writer) is OwSim.tla, see C07.
"""
import os

from ..common import Infra
from .. import runwrap


def owsim_half(ctx):
    """ow-sim: one goroutine per model type inside a generation + the asynchronous writers. The protocol's
    interleavings are explored on OwSim.tla (see C07); here the REAL binary, built with the race detector,
    runs a seeded sample of the TLC-generated graphs under schedule perturbation."""
    from .. import owsim
    for cfg in ("OwSim_3.cfg", "OwSim_4.cfg"):
        r = ctx.tlc("MCOwSim", cfg=cfg, timeout=1200, deadlock=True)
        r.require_ok(cfg)
        ctx.cov["states"] += r.distinct
        ctx.cov["transitions"] += r.generated
    cases, st = owsim.graphs(ctx, "OwSimData.cfg")
    binary = owsim.build_owsim(ctx, race=True)
    n = 30 if ctx.quick else 400
    rc_env = {"GORACE": "halt_on_error=1 exitcode=66"}
    import os
    old = dict(os.environ)
    os.environ.update(rc_env)
    try:
        s = owsim.run_engine(ctx, cases, binary, ["-sample", str(n), "-options", "basic+noout", "-workers", "8", "-perturb"], seed_offset=500)
        # the same with slow library calls: the asynchronous writers fall behind the main loop, so whatever the main
        # loop does to a generation "too early" overlaps the writer's accesses
        s_slow = owsim.run_engine(ctx, cases, binary, ["-sample", str(max(n // 2, 10)), "-options", "basic", "-workers", "8", "-perturb", "-slowio", "1500"], seed_offset=700)
        # TLC-chosen interleavings (OwSimSched.tla) forced onto the race-detector build
        cases3, _ = owsim.graphs(ctx, "OwSimData_3.cfg")
        owsim.schedule_replay(ctx, cases3, binary, 4 if ctx.quick else 40, 2 if ctx.quick else 8, seed_offset=2500, label="b3_race")
        # the hand-over to a writer child process (-outputs Model=file) on the race-detector build: frames of very
        # different sizes, slow child; results compared, the shared event log validated against TraceOwSimSplit.tla
        owsim.split_replay(ctx, cases3, binary, 5 if ctx.quick else 60, label="split_race")
        s["evaluations"] += s_slow["evaluations"]
        s["mismatches"] += s_slow["mismatches"]
        s["extra"] = {"perturbed": s["extra"], "perturbed_slow_io": s_slow["extra"]}
    finally:
        os.environ.clear()
        os.environ.update(old)
    ctx.cov["evaluations"] += s["evaluations"]
    ctx.cov["traces_validated_against_impl"] += s["evaluations"]
    ctx.notes["owsim_race_runs"] = s["extra"]
    for m in s["mismatches"]:
        if "DATA RACE" in m["detail"]:
            ctx.report({"kind": "race", "model": "ow-sim"}, "data race reported by the Go race detector in ow-sim: " + m["detail"][-1800:], m)
        else:
            ctx.report({"kind": "owsim-" + m["kind"], "model": "ow-sim"}, "ow-sim (race build, perturbed schedule) %s: %s" % (m["option"], m["detail"][:1200]), m)


def footprint_proof(ctx):
    """TLAPS: cells that stay inside their footprints never conflict, for ANY number of cells, parameter sets, input
    blocks and timesteps (RunFootprintProof.tla; the set-level footprints are tied to Program(i) by the TLC invariant
    FootprintsAreSets of RunWrapper.tla)."""
    import shutil, subprocess, tempfile, re
    from ..common import SPEC
    wd = tempfile.mkdtemp(prefix="tlaps-", dir=ctx.scratch)
    shutil.copy(os.path.join(SPEC, "RunFootprintProof.tla"), wd)
    try:
        r = subprocess.run(["tlapm", "--threads", "8", "RunFootprintProof.tla"], cwd=wd, capture_output=True, text=True, timeout=900)
    except (OSError, subprocess.TimeoutExpired) as e:
        raise Infra("tlapm did not run: %s" % e)
    out = r.stdout + r.stderr
    m = re.search(r"All (\d+) obligations? proved", out)
    if r.returncode != 0 or not m:
        raise Infra("RunFootprintProof.tla is not proved (a defect of the proof, not of openwater-core):\n" + out[-2500:])
    ctx.notes["tlaps_footprint_proof"] = "%s obligations proved: Spec => []NoRace for any NC, NP, NB, T" % m.group(1)


def run(ctx):
    footprint_proof(ctx)
    cases, r = runwrap.tlc_configs(ctx, "RunWrapper.cfg")
    # vacuity self-test: the bugged variant must violate NoRace
    rb = ctx.tlc("RunWrapper", cfg="RunWrapper_bug.cfg", timeout=600)
    if "Invariant NoRace is violated" not in (rb.stdout or ""):
        raise Infra("self-test failed: RunWrapper_bug.cfg did not violate NoRace:\n" + rb.tail(2000))
    ctx.notes["selftest_bug_variant"] = "NoRace violated as expected (%d states)" % rb.distinct
    rl = ctx.tlc("RunWrapper", cfg="RunWrapper_live.cfg", timeout=900)
    rl.require_ok("liveness")
    ctx.cov["states"] += rl.distinct
    ctx.cov["transitions"] += rl.generated
    ctx.notes["liveness"] = "Terminates holds under WF (%d states)" % rl.distinct

    procs = ["1", "4", "16"] if ctx.quick else ["1", "2", "4", "8", "16"]
    draws = 1 if ctx.quick else 4
    for gmp in procs:
        s, bad = runwrap.run_engine(ctx, cases, ["-draws", str(draws), "-backends", "go,c", "-mincells", "2"], race=True,
                                    env_extra={"GOMAXPROCS": gmp, "GORACE": "halt_on_error=1"}, label="race" + gmp)
        if bad:
            c = bad.get("case") or {}
            if bad["kind"] == "race":
                ctx.report({"kind": "race", "model": c.get("model")},
                           "data race reported by the Go race detector in %s (GOMAXPROCS=%s): %s" % (c.get("model"), gmp, bad["stderr"][:900]), bad)
            else:
                ctx.report({"kind": "crash", "model": c.get("model")},
                           "model %s crashed (GOMAXPROCS=%s): %s" % (c.get("model"), gmp, bad["stderr"][-700:]), bad)
            continue
        ctx.cov["evaluations"] += s["evaluations"]
        ctx.cov["distinct_nontrivial"] += s["distinct_nontrivial"]
        ctx.cov["traces_validated_against_impl"] += s["distinct_nontrivial"]
        ctx.notes.setdefault("engine", []).append({"GOMAXPROCS": gmp, **s["extra"]})
        for smp in s["samples"][:1]:
            ctx.sample(smp)
        for m in s["mismatches"]:
            ctx.report({"kind": "schedule-dependent:" + m["kind"], "model": m["model"]},
                       "%s/%s GOMAXPROCS=%s %s: %s" % (m["model"], m["backend"], gmp, m["kind"], m["detail"]), m)
    runwrap.proxy_traces(ctx, 6 if ctx.quick else 60)
    owsim_half(ctx)
    ctx.assumptions += ["the Go race detector generalises each observed execution over all interleavings of the same synchronisation events",
                        "TLC interleavings: <=3 cells, <=2 timesteps, one location per row/timestep"]
    return ctx.finish("model_checking")
