"""C12 — constituent transport and trapping models conserve mass (models with rational kernels).

ExactModels.tla transcribes, in exact rational arithmetic, the step functions of LumpedConstituentRouting,
ConstituentDecay (half-lives that divide the timestep, so the decay fraction is an exact power of 1/2),
InstreamCoarseSediment, InstreamParticulateNutrient, StorageTrapAll and StorageDissolvedDecay with decay
disabled; TLC checks on every case of the grid (zero flow, empty store -> minimum-volume flush, deposition and
resuspension, lateral sediment present/absent, point sources): mass entering + initially stored = mass leaving
downstream + decayed/trapped/floodplain + finally stored + flushed; nothing negative for non-negative inputs;
mass is only ever discarded when the water volume is below the minimum volume.  The engine runs every case
through the catalogue (outputs and final states, 1e-14 relative).
Not covered (exp/pow kernels): InstreamFineSediment, StorageParticulateTrapping, InstreamDissolvedNutrientDecay.
"""
from .. import exact


def run(ctx):
    cases = exact.tlc_cases(ctx, "ExactModels", "ExactConstituent.cfg", timeout=2400)
    s = exact.run_exact(ctx, cases, ["exact"], "exact-constituent")
    if s:
        for m in s["mismatches"]:
            ctx.report({"kind": m["kind"], "model": m["model"]}, "%s: %s | case %s" % (m["model"], m["detail"], str(m["case"].get("exact"))[:400]), m)
    ctx.assumptions += ["claimed for the six constituent models whose kernels are rational; in-stream fine sediment, reservoir particulate trapping (pow/exp) and the decay-enabled dissolved models are not covered",
                        "grid: T=2 (particulate nutrient: T=1 with all branches), loads/flows/volumes from small rational sets incl. zero flow and an empty store"]
    return ctx.finish("model_checking")
