"""C12 — constituent transport and trapping models conserve mass (models with rational kernels).

ExactModels.tla transcribes, in exact rational arithmetic, the step functions of LumpedConstituentRouting,
ConstituentDecay (half-lives that divide the timestep, so the decay fraction is an exact power of 1/2),
InstreamCoarseSediment, InstreamParticulateNutrient, StorageTrapAll and StorageDissolvedDecay with decay
disabled; TLC checks on every case of the grid (zero flow, empty store -> minimum-volume flush, deposition and
resuspension, lateral sediment present/absent, point sources): mass entering + initially stored = mass leaving
downstream + decayed/trapped/floodplain + finally stored + flushed; nothing negative for non-negative inputs;
mass is only ever discarded when the water volume is below the minimum volume.  The engine runs every case
through the catalogue (outputs and final states, 1e-14 relative).
InstreamFineSediment is covered on the rational fragment of its power laws (outflow in {0, 1, 32}: x^1.4 = 0, 1, 128;
width / Manning's n in {1, 32}; floodplain exponent 0 or below -750 where exp() is exactly 0 in float64): bank-full
flow 0 vs > 0, flow below / at / above bank-full, deposition limited by the room left, remobilisation limited by the
channel store (FineStoreBounds), neither, initial store given as a proportion, dry reach.
StorageParticulateTrapping is covered for integer length-discharge powers (0, 1, 2: its sedimentation index is then
rational): efficiencies inside (0,100) and clamped at both ends, no inflow, no reservoir length, no water.
"""
from .. import exact


def run(ctx):
    # three model groups, three TLC runs side by side (TLC enumerates initial states sequentially)
    from concurrent.futures import ThreadPoolExecutor
    cfgs = ["ExactLumped.cfg", "ExactConstituent.cfg", "ExactFineSediment.cfg"]
    ctx.build_vh()
    with ThreadPoolExecutor(len(cfgs)) as ex:
        paths = list(ex.map(lambda cfg: exact.tlc_cases(ctx, "ExactModels", cfg, timeout=2400, workers=4), cfgs))
    for cfg, cases in zip(cfgs, paths):
        s = exact.run_exact(ctx, cases, ["exact"], cfg[:-4])
        if s:
            for m in s["mismatches"]:
                ctx.report({"kind": m["kind"], "model": m["model"]}, "%s: %s | case %s" % (m["model"], m["detail"], str(m["case"].get("exact"))[:400]), m)
    ctx.assumptions += ["claimed for the six constituent models whose kernels are rational and for in-stream fine sediment on the rational fragment of its power laws; reservoir particulate trapping for integer powers; the decay-enabled dissolved models are outside the statement",
                        "grid: T=2 (particulate nutrient: T=1 with all branches), loads/flows/volumes from small rational sets incl. zero flow and an empty store"]
    return ctx.finish("model_checking")
