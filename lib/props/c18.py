"""C18 — root finding and piecewise interpolation.

Piecewise.tla: exact table lookup (value at knots, linear interpolant between neighbours, error outside the
table and for NaN); TLC checks the laws on every table of the grid and the engine compares fn.Piecewise on
every query (B5).  RootFind.tla: the bracket discipline of the root finder over an order-isomorphic grid;
TLC checks for every function of the class and every choice of trial points: evaluations inside the
interval, the bracket always has a sign change, the returned point is an evaluated point with its own
value, and (non-decreasing f) the result is no worse than the better end of the initial bracket.
TraceRootFind.tla validates rank-encoded logs of every evaluation the real FindRoot makes (instrumented
closures; monotone, flat, kinked, non-monotone families; all guesses, tolerances, iteration limits >= 1,
derivative present / absent / zero / wrong) against that discipline (B2).
Not covered: the quantitative clause "below the tolerance whenever interval halving would reach it".
"""
import json
import os

from ..common import Infra, run_vh, last_json
from .. import exact, tracecheck


def run(ctx):
    cases = exact.tlc_cases(ctx, "Piecewise", "Piecewise.cfg" if ctx.quick else "Piecewise_t.cfg", timeout=2400)
    s = exact.run_exact(ctx, cases, ["rootfind", "piecewise"], "piecewise")
    if s:
        for m in s["mismatches"]:
            ctx.report({"kind": "piecewise-" + m["kind"]}, "Piecewise xs=%s ys=%s at %s: %s" % (m.get("xs"), m.get("ys"), m.get("q"), m["detail"]), m)
    # tables of 9 to 13 knots (a lookup that treats long tables differently is only reached there)
    cases_long = exact.tlc_cases(ctx, "MCPiecewise", "Piecewise_long.cfg", timeout=600)
    s = exact.run_exact(ctx, cases_long, ["rootfind", "piecewise"], "piecewise-long")
    if s:
        for m in s["mismatches"]:
            ctx.report({"kind": "piecewise-" + m["kind"]}, "Piecewise xs=%s ys=%s at %s: %s" % (m.get("xs"), m.get("ys"), m.get("q"), m["detail"]), m)
    for cfg in ("RootFind_TRUE.cfg", "RootFind_FALSE.cfg"):
        r = ctx.tlc("RootFind", cfg=cfg, timeout=1800)
        r.require_ok(cfg)
        ctx.cov["states"] += r.distinct
        ctx.cov["transitions"] += r.generated
        ctx.notes["tlc"][cfg] = {"states_distinct": r.distinct}
    tr = os.path.join(ctx.scratch, "rootfind.ndjson")
    rc, out, err = run_vh(ctx, ["rootfind", "trace", tr, "400" if ctx.quick else "40000"])
    if rc != 0:
        ctx.report({"kind": "crash", "where": "FindRoot"}, "FindRoot crashed the process: " + err[-1000:], {"stderr": err[-3000:]})
        return ctx.finish("model_checking")
    s2 = last_json(out)
    for m in s2["mismatches"]:
        ctx.report({"kind": "rootfind-" + m["kind"], "family": m.get("family")}, "FindRoot on a bracketed %s function: %s (args a,b,c,init,min,max,tol,conv,maxIter,dxMode = %s)" % (m.get("family"), m["detail"], m.get("args")), m)
    total, rejects = tracecheck.validate_multi(ctx, "TraceRootFind", tr, reset_ev="start", heap="8g")
    ctx.cov["evaluations"] += s2["evaluations"]
    ctx.cov["traces_validated_against_impl"] += s2["distinct_nontrivial"]
    ctx.notes["rootfind_traces"] = {"runs": s2["distinct_nontrivial"], "events": total, "families": s2["extra"]["families"], "rejected": len(rejects)}
    for idx, ev, before in rejects:
        start = [b for b in before if b.get("ev") == "start"]
        ctx.report({"kind": "rootfind-trace-rejected", "event": ev.get("ev")},
                   "evaluation log of FindRoot is not explained by the bracket discipline: event #%d %s; run %s; preceding %s"
                   % (idx + 1, ev, start[-1] if start else "?", before[-5:]), {"event": ev, "preceding": before})
    if not rejects:
        def mutate(evs):
            ks = [i for i, e in enumerate(evs) if e["ev"] == "return"]
            k = ks[len(ks) // 2]
            evs[k]["fx"] += 1
            return "returned value of run ending at event %d replaced by another function value" % k
        tracecheck.corrupt_and_expect_reject(ctx, "TraceRootFind", tr, mutate, heap="8g")
        ctx.notes["binding_selftest"] = "corrupted trace rejected"
    ctx.assumptions += ["iteration limits >= 1 and tolerances > 0 (with zero iterations FindRoot returns the initial guess by construction)",
                        "rank encoding: only order comparisons are made on logged floats",
                        "'no worse than the better end' is accepted when the result is already below the tolerance"]
    return ctx.finish("model_checking")
