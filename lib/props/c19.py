"""C19 — the date generator follows the proleptic Gregorian calendar.

TLC (Calendar.tla) walks a full 400-year cycle exhaustively, checks the calendar laws on the
specification and emits the successor table; the table is replayed into the real DateGenerator
through the model catalogue (B1); random real runs are validated against Calendar!Step (B2).
"""
import os
import re

from ..common import Infra, run_vh, last_json
from .. import tracecheck

ROW = re.compile(r'<<"SUCC", (\d+), (\d+), (\d+), (\d+), (\d+), (\d+), (\d+), (\d+)>>')


def _table(ctx, cfg, path_out):
    dump = os.path.join(ctx.scratch, cfg + ".out")
    r = ctx.tlc("Calendar", cfg=cfg, workers=4, timeout=1200, capture_to=dump)
    r.require_ok()
    rows = []
    for ln in r.lines():
        m = ROW.match(ln)
        if m:
            rows.append(tuple(int(x) for x in m.groups()))
    rows.sort()
    with open(path_out, "a") as f:
        for t in rows:
            f.write(" ".join(map(str, t)) + "\n")
    return r, len(rows)


def run(ctx):
    table = os.path.join(ctx.scratch, "succ.txt")
    open(table, "w").close()
    r1, n1 = _table(ctx, "Calendar.cfg", table)
    r2, n2 = _table(ctx, "Calendar_edge.cfg", table)
    if not ctx.quick:
        r3, n3 = _table(ctx, "Calendar_centuries.cfg", table)
        n2 += n3
    if n1 != 146097:
        raise Infra("Calendar.cfg emitted %d rows, expected 146097" % n1)
    ctx.cov["states"] = r1.distinct + r2.distinct
    ctx.cov["transitions"] = n1 + n2
    ctx.notes["exhaustive"] = True
    ctx.notes["tlc"] = {"Calendar.cfg": [r1.generated, r1.distinct], "Calendar_edge.cfg": [r2.generated, r2.distinct]}

    # B1: the table replayed into the real model
    rc, out, err = run_vh(ctx, ["calendar", "table", table])
    if rc != 0:
        # the engine only calls the model with valid dates from the table: a crash is the model's
        ctx.report({"kind": "crash"}, "DateGenerator crashed on a valid date: " + err[-1500:], {"stderr": err[-4000:]})
        return ctx.finish("model_checking")
    s = last_json(out)
    ctx.cov["evaluations"] += s["evaluations"]
    ctx.cov["distinct_nontrivial"] += s["distinct_nontrivial"]
    ctx.cov["traces_validated_against_impl"] += s["evaluations"]
    for smp in s["samples"]:
        ctx.sample(smp)
    for mm in s["mismatches"]:
        ctx.report({"kind": mm.get("kind"), "start": mm.get("start")}, mm, mm)

    # B2: random real runs validated by TLC against Calendar!Step
    nruns, maxlen = (60, 500) if ctx.quick else (600, 1500)
    tr = os.path.join(ctx.scratch, "cal-trace.ndjson")
    rc, out, err = run_vh(ctx, ["calendar", "trace", table, tr, str(nruns), str(maxlen)])
    if rc != 0:
        ctx.report({"kind": "crash"}, "DateGenerator crashed: " + err[-1500:], {"stderr": err[-4000:]})
        return ctx.finish("model_checking")
    s2 = last_json(out)
    accepted, consumed, total, tr_res = tracecheck.validate(ctx, "TraceCalendar", tr, heap="8g")
    ctx.cov["evaluations"] += s2["evaluations"]
    ctx.cov["traces_validated_against_impl"] += s2["distinct_nontrivial"]
    ctx.notes["trace_events"] = total
    if not accepted:
        with open(tr) as f:
            lines = f.readlines()
        lo = max(0, consumed - 3)
        ctx.report({"kind": "trace-rejected"},
                   "recorded DateGenerator run is not a behaviour of Calendar: first unexplained event #%d: %s"
                   % (consumed + 1, "".join(lines[lo:consumed + 1])), {"events": lines[lo:consumed + 2]})
    else:
        # binding self-test: shift one emitted day-of-year
        def mutate(evs):
            k = [i for i, e in enumerate(evs) if e["ev"] == "out"][len(evs) // 3]
            evs[k]["doy"] += 1
            return "doy+1 at event %d" % k
        tracecheck.corrupt_and_expect_reject(ctx, "TraceCalendar", tr, mutate, heap="8g")
        ctx.notes["binding_selftest"] = "corrupted trace rejected"
    ctx.assumptions += ["start dates are valid calendar dates (the property's precondition)",
                        "years 2000-2399 (one full Gregorian cycle) plus boundary years 1,4,100,400,1582,1600,1900,2100,9999"]
    return ctx.finish("model_checking")
