"""C11 — flow routing: the Lag and Muskingum clauses.

ExactModels.tla: Lag as a delay line over the carried buffer (any lag, incl. lags longer than the series) and
Muskingum with rational coefficients; TLC checks on every case of the grid: the delay law, that Lag loses
nothing, Muskingum's weights sum to one, a steady flow (upstream + lateral) passes unchanged, and the
trapezoidal storage balance K(X I + (1-X) O) closes at every step; the engine runs every case through the
catalogue (outputs and final states).  The StorageRouting clauses (iterative non-linear solve) are not
covered by this technique; its hot-start behaviour is covered by C06.
"""
from ..common import Infra
from .. import exact


def storage_routing(ctx):
    """StorageRouting clauses: per-timestep laws validated by TLC on rank-encoded observations of real runs."""
    import json, os
    from ..common import run_vh, last_json
    from .. import tracecheck
    tr = os.path.join(ctx.scratch, "sr.ndjson")
    rc, out, err = run_vh(ctx, ["srlaws", tr, "1500" if ctx.quick else "20000", "40"])
    if rc != 0:
        ctx.report({"kind": "crash", "model": "StorageRouting"}, "StorageRouting crashed on a case in the stable region: " + err[-1000:], {"stderr": err[-3000:]})
        return
    s = last_json(out)
    for m in s["mismatches"]:
        ctx.report({"kind": m["kind"], "model": "StorageRouting"}, "StorageRouting %s: %s params(bias,k,m,area,dead,dt)=%s" % (m["kind"], m["detail"], m.get("params")), m)
    ctx.cov["evaluations"] += s["evaluations"]
    ctx.cov["traces_validated_against_impl"] += s["distinct_nontrivial"]
    accepted, consumed, total, res = tracecheck.validate(ctx, "TraceStorageRouting", tr, heap="8g")
    if not accepted:
        raise Infra("TraceStorageRouting did not consume the whole log (%s of %s)" % (consumed, total))
    import re
    mm = re.search(r'"LAW_VIOLATIONS",\s*(\{.*?\})\s*>>', res.stdout, re.S)
    if not mm:
        raise Infra("TraceStorageRouting reported no verdict")
    viols = [(int(a), b) for a, b in re.findall(r'<<\s*(\d+),\s*"(\w+)"\s*>>', mm.group(1))]
    with open(tr) as f:
        evs = [json.loads(x) for x in f if x.strip()]
    ctx.notes["storage_routing"] = {"cases": s["distinct_nontrivial"], "timesteps": s["evaluations"], "failing_timesteps": len(viols)}
    seen = set()
    for pos, law in sorted(viols):
        ev = evs[pos - 1]
        k = pos - 1
        while k > 0 and evs[k]["ev"] != "case":
            k -= 1
        c = evs[k]
        raw = c.get("raw", [0] * 6)
        variant = ("dead" if raw[4] > 0 else "nodead") + "-" + ("area" if raw[3] > 0 else "noarea")
        key = (k, law)
        if key in seen:
            continue
        seen.add(key)
        ctx.report({"kind": "storagerouting-" + law, "model": "StorageRouting", "variant": variant,
                    "zeroflow": bool(ev.get("zeroflow")), "residclass": ev.get("residclass"), "atdead": bool(ev.get("atdead")), "qconv": bool(ev.get("qconv"))},
                   "StorageRouting violates the %s law at timestep %s (params bias,k,m,area,dead,dt = %s): ranks %s"
                   % (law, ev.get("t"), raw, {kk: ev[kk] for kk in ("resid", "tolb", "out", "sto", "rel", "tolr")}), {"event": ev, "case": c})
    # binding self-test: a perturbed residual must be reported
    def mutate(evs2):
        ks = [i for i, e in enumerate(evs2) if e["ev"] == "step" and e["resid"] <= e["tolb"]]
        kk = ks[len(ks) // 2]
        evs2[kk]["resid"] = evs2[kk]["tolb"] + 1
        return kk
    with open(tr) as f:
        evs2 = [json.loads(x) for x in f if x.strip()]
    kk = mutate(evs2)
    p2 = os.path.join(ctx.scratch, "sr-corrupt.ndjson")
    with open(p2, "w") as f:
        for e in evs2:
            f.write(json.dumps(e) + "\n")
    a2, c2, t2, r2 = tracecheck.validate(ctx, "TraceStorageRouting", p2, heap="8g")
    if not re.search(r'<<\s*%d,\s*"balance"\s*>>' % (kk + 1), r2.stdout or ""):
        raise Infra("binding self-test failed: a perturbed residual was not reported by TraceStorageRouting")


def run(ctx):
    cfg = "ExactRouting.cfg" if ctx.quick else "ExactRouting_t.cfg"
    cases = exact.tlc_cases(ctx, "ExactModels", cfg, timeout=2400)
    s = exact.run_exact(ctx, cases, ["exact"], "exact-routing")
    if s:
        for m in s["mismatches"]:
            ctx.report({"kind": m["kind"], "model": m["model"]}, "%s: %s | case %s" % (m["model"], m["detail"], str(m["case"].get("exact"))[:300]), m)
    storage_routing(ctx)
    ctx.assumptions += ["Lag and Muskingum: exact; StorageRouting: laws over observed timesteps (rank-encoded), tolerance = 2x the solver's mass-balance limit + round-off",
                        "claimed for the Lag and Muskingum clauses only; StorageRouting's water balance / storage-discharge relation is real-valued and iterative (DESIGN.md section 10)"]
    return ctx.finish("model_checking")
