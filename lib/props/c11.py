"""C11 — flow routing: the Lag and Muskingum clauses.

ExactModels.tla: Lag as a delay line over the carried buffer (any lag, incl. lags longer than the series) and
Muskingum with rational coefficients; TLC checks on every case of the grid: the delay law, that Lag loses
nothing, Muskingum's weights sum to one, a steady flow (upstream + lateral) passes unchanged, and the
trapezoidal storage balance K(X I + (1-X) O) closes at every step; the engine runs every case through the
catalogue (outputs and final states).  The StorageRouting clauses (iterative non-linear solve) are not
covered by this technique; its hot-start behaviour is covered by C06.
"""
from .. import exact


def run(ctx):
    cfg = "ExactRouting.cfg" if ctx.quick else "ExactRouting_t.cfg"
    cases = exact.tlc_cases(ctx, "ExactModels", cfg, timeout=2400)
    s = exact.run_exact(ctx, cases, ["exact"], "exact-routing")
    if s:
        for m in s["mismatches"]:
            ctx.report({"kind": m["kind"], "model": m["model"]}, "%s: %s | case %s" % (m["model"], m["detail"], str(m["case"].get("exact"))[:300]), m)
    ctx.assumptions += ["claimed for the Lag and Muskingum clauses only; StorageRouting's water balance / storage-discharge relation is real-valued and iterative (DESIGN.md section 10)"]
    return ctx.finish("model_checking")
