"""C01 — array slices are live strided views that compose, with exact write footprints.

NdArray.tla is explored exhaustively by TLC (tree of behaviours: NewArray, Slice chains/trees, writes of
every kind), the invariants ViewsOK / Compose (composition theorem) / Live and the action properties
FootprintExact / ViewOpsPure are checked in every state, and every behaviour is replayed on the real
arrays: 8 element types x {Go-backed, C-backed}, comparing the whole backing storage and every element
of every live view after every step (B1).  Random real histories are validated by TLC against
TraceNdArray.tla (B2).
"""
import os

from ..common import Infra, run_vh, last_json
from .. import ndarray, tracecheck

C01_EVENTS = {"new", "slice", "read", "set", "apply", "applyslice", "copyfrom", "crash"}


def configs(ctx):
    if ctx.quick:
        return [("NdArray_views.cfg", None), ("NdArray_writes.cfg", None), ("NdArray_chainw.cfg", None),
                ("NdArray_reduce.cfg", None), ("NdArray_zstep.cfg", None), ("NdArray_bcast.cfg", None), ("NdArray_siblings.cfg", None), ("NdArray_neg.cfg", None), ("NdArray_negw.cfg", None), ("NdArray_twowrites.cfg", None), ("NdArray_rank4.cfg", (15, 8)), ("NdArray_sim.cfg", (20, 14))]
    return [("NdArray_views.cfg", None), ("NdArray_writes.cfg", None), ("NdArray_chainw.cfg", None), ("NdArray_reduce.cfg", None), ("NdArray_zstep.cfg", None), ("NdArray_bcast_t.cfg", None), ("NdArray_siblings.cfg", None), ("NdArray_neg.cfg", None), ("NdArray_negw.cfg", None), ("NdArray_twowrites.cfg", None), ("NdArray_rank4.cfg", (120, 8)),
            ("NdArray_views_t.cfg", None), ("NdArray_views3.cfg", None), ("NdArray_writes_t.cfg", None), ("NdArray_sim.cfg", (240, 16))]


def run_traces(ctx, want_events, prop, ntraces, maxops, extra_args=()):
    tr = os.path.join(ctx.scratch, "nd-trace.ndjson")
    rc, out, err = run_vh(ctx, ["ndtrace", tr, str(ntraces), str(maxops)] + list(extra_args))
    if rc != 0:
        ctx.report({"kind": "driver-crash"}, "random array history crashed the process: " + err[-1500:], {"stderr": err[-3000:]})
        return
    s = last_json(out)
    total, rejects = tracecheck.validate_multi(ctx, "TraceNdArray", tr, heap="8g")
    ctx.cov["evaluations"] += s["evaluations"]
    ctx.cov["traces_validated_against_impl"] += s["distinct_nontrivial"]
    ctx.notes["trace_events"] = {"total": total, "by_kind": s["extra"]["events"], "rejected": len(rejects)}
    for idx, ev, before in rejects:
        if ev.get("ev") in want_events or ev.get("ev", "").startswith("reshape") and "reshape" in want_events:
            ctx.report({"kind": "trace-rejected", "op": ev.get("ev")},
                       "recorded history is not a behaviour of NdArray: event #%d %s is not explained by the specification"
                       % (idx + 1, str(ev)[:500]), {"event": ev, "preceding": before})
    if not rejects:
        def mutate(evs):
            ks = [i for i, e in enumerate(evs) if e["ev"] in ("set", "apply") and len(e["store"]) > 1]
            k = ks[len(ks) // 2]
            evs[k]["store"][0], evs[k]["store"][1] = evs[k]["store"][1] + 1, evs[k]["store"][0]
            return "storage after event %d perturbed" % k
        tracecheck.corrupt_and_expect_reject(ctx, "TraceNdArray", tr, mutate, heap="8g")
        ctx.notes["binding_selftest"] = "corrupted trace rejected"


def run(ctx):
    for cfg, sim in configs(ctx):
        cases, st = ndarray.gen_cases(ctx, cfg, simulate=sim, timeout=3000)
        s, crash = ndarray.replay(ctx, cases, ["C01"])
        if crash:
            ctx.report({"kind": "process-crash"}, "replay of %s crashed the process: %s" % (cfg, crash["stderr"][-800:]), crash)
            continue
        ndarray.account(ctx, st, s)
        ndarray.report_fails(ctx, s, "C01")
    ndarray.big_arrays(ctx, ("footprint", "value"))
    run_traces(ctx, C01_EVENTS, "C01", 150 if ctx.quick else 2500, 40)
    ctx.notes["exhaustive_note"] = "within the bounds of each BFS configuration (see configs); simulation and traces are samples"
    ctx.assumptions += ["test values are small non-negative integers (exact in all 8 element types)",
                        "behaviours beyond the stated bounds are covered only by random simulation/traces"]
    return ctx.finish("model_checking")
