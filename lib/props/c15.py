"""C15 — GR4J computes the published GR4J equations.

GR4JRef.tla is an independent statement of the published daily GR4J model (Perrin et al. 2003) as a one-timestep
transition function over SYMBOLIC real expressions: net rainfall / evaporation and the production-store update,
percolation, the 90/10 split through the two unit hydrographs built from the S-curves with exponent 5/2 and time
bases x4 and 2 x4, groundwater exchange, the non-linear routing store and the direct-flow branch.  The real-valued
primitives (+ - * / min max tanh pow, comparisons) are uninterpreted constructors -- TLC has no reals -- everything
else is explicit.  TLC enumerates the classes (n1, n2) = (ceil(x4), ceil(2 x4)), checks structural invariants
(expressions closed over the model's symbols, delay lines keep their length, the production store independent of
the routing part) and emits the step function of every class.  The engine interprets the expressions in float64
and iterates them over seeded cases (x1..x4 in the documented ranges [1,1500] / [-10,5] / [1,500] / [0.5,4], capacities log-uniform, x4 anywhere in the class incl. its upper
end, non-negative rainfall/PET series of four styles incl. P = E, empty and arbitrary initial stores and delay
lines), comparing runoff, both stores and every delay-line cell with the real model after EVERY timestep.
"""
import os

from ..common import Infra, run_vh, last_json


def run(ctx):
    dump = os.path.join(ctx.scratch, "gr4jref.tlcout")
    r = ctx.tlc("GR4JRef", cfg="GR4JRef.cfg", timeout=600, capture_to=dump)
    r.require_ok()
    classes = os.path.join(ctx.scratch, "gr4j-classes.txt")
    n = 0
    with open(classes, "w") as out:
        for ln in r.lines():
            if ln.startswith('"{'):
                out.write(ln + "\n")
                n += 1
    if n == 0:
        raise Infra("GR4JRef emitted no classes")
    ctx.cov["states"] += r.distinct
    ctx.cov["transitions"] += r.generated
    ctx.notes["tlc"] = {"classes": n, "states": r.distinct}
    rc, out, err = run_vh(ctx, ["gr4jref", classes, "150" if ctx.quick else "3000", "60" if ctx.quick else "120"], timeout=3000)
    if rc != 0:
        ctx.report({"kind": "crash", "model": "GR4J"}, "GR4J crashed on a case in the documented ranges: " + err[-1200:], {"stderr": err[-3000:]})
        return ctx.finish("exploration")
    s = last_json(out)
    ctx.cov["evaluations"] += s["evaluations"]
    ctx.cov["distinct_nontrivial"] += s["distinct_nontrivial"]
    ctx.cov["traces_validated_against_impl"] += s["distinct_nontrivial"]
    ctx.notes["engine"] = s["extra"]
    for smp in s["samples"][:1]:
        ctx.sample(smp)
    seen = {}
    for m in s["mismatches"]:
        seen[m["kind"]] = seen.get(m["kind"], 0) + 1
        if seen[m["kind"]] > 2:
            continue
        ctx.report({"kind": "gr4j-" + m["kind"]}, "GR4J (class n1=%s n2=%s): %s" % (m.get("n1"), m.get("n2"), m["detail"]), m)
    ctx.notes["rule"] = ("cases = (class (ceil(x4), ceil(2 x4)) enumerated by TLC x seeded parameters x seeded series x initial stores); evaluations = timesteps at "
                         "which runoff, S, R and every delay-line cell were compared; distinct_nontrivial = cases")
    ctx.assumptions += ["float64 interpretation of the specification's expressions vs the model: 1e-9 relative (different order of operations)",
                        "the tanh argument is capped at 13 as in the reference implementations of GR4J",
                        "seeded sample of parameters and series (not exhaustive); every class of unit-hydrograph lengths 1..4 / 1..8 is covered"]
    return ctx.finish("exploration")
