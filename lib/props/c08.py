"""C08 — HDF5 array I/O round-trips and addresses exactly the selected region.

H5Store.tla: the file as a map path -> (shape, row-major cells) with Create / Write / WriteSlice /
Load(selection) / Shape / Exists; TLC checks round-trip, selection-is-slice, block exactness and
create-idempotence on the specification and enumerates operation histories with predicted results, which
the engine performs through io.H5Ref<T> for all 8 element types and source views of several in-memory
layouts, comparing every answer and the final datasets (read straight from the library).
H5Lock.tla: the readers/writer discipline; TLC checks that it excludes overlapping write-class library
calls; traces of concurrent callers hammering every H5Ref entry point (lock hooks inside the critical
section + enter/exit of every library call) are validated against it (TraceH5Lock.tla).
libhdf5 is not installed: the library underneath is harness/fakehdf5 (assumption S1).
"""
import json
import os
import shutil
import tempfile

from ..common import Infra, run_vh, last_json
from .. import tracecheck


def workdir(ctx):
    base = "/dev/shm" if os.path.isdir("/dev/shm") and os.access("/dev/shm", os.W_OK) else ctx.scratch
    d = tempfile.mkdtemp(prefix="vf-h5-", dir=base)
    import atexit
    atexit.register(lambda: shutil.rmtree(d, ignore_errors=True))
    return d


def store_half(ctx):
    cfgs = ["H5Store.cfg"] if ctx.quick else ["H5Store.cfg", "H5Store_t.cfg"]
    for cfg in cfgs:
        dump = os.path.join(ctx.scratch, cfg + ".tlcout")
        r = ctx.tlc("MCH5Store", cfg=cfg, timeout=2400, capture_to=dump)
        r.require_ok()
        cases = os.path.join(ctx.scratch, cfg + ".cases")
        n = 0
        with open(cases, "w") as out:
            for ln in r.lines():
                if ln.startswith('"{'):
                    out.write(ln + "\n")
                    n += 1
        if n == 0:
            raise Infra("H5Store emitted no histories")
        ctx.cov["states"] += r.distinct
        ctx.cov["transitions"] += r.generated
        ctx.notes.setdefault("tlc", {})[cfg] = {"states_distinct": r.distinct, "histories": n}
        # the engine is sequential per process (one file at a time): split the histories over 8 processes
        nchunks = 8
        with open(cases) as f:
            lines = f.readlines()
        chunks = []
        for k in range(nchunks):
            cp = "%s.%d" % (cases, k)
            with open(cp, "w") as out:
                out.writelines(lines[k::nchunks])
            chunks.append(cp)
        from concurrent.futures import ThreadPoolExecutor
        ctx.build_vh()
        with ThreadPoolExecutor(nchunks) as ex:
            results = list(ex.map(lambda cp: run_vh(ctx, ["h5io", cp, workdir(ctx)], timeout=3000), chunks))
        for rc, out, err in results:
            if rc != 0:
                ctx.report({"kind": "crash"}, "package io crashed while replaying H5Store histories: " + err[-1200:], {"stderr": err[-4000:]})
                continue
            s = last_json(out)
            ctx.cov["evaluations"] += s["evaluations"]
            ctx.cov["distinct_nontrivial"] += s["distinct_nontrivial"]
            ctx.cov["traces_validated_against_impl"] += s["evaluations"]
            ctx.notes.setdefault("engine", []).append(s["extra"])
            for smp in s["samples"][:1]:
                ctx.sample(smp)
            for m in s["mismatches"]:
                ctx.report({"kind": m["kind"]}, "%s step %d: %s" % (m["type"], m["step"], m["detail"]), m)
    if not ctx.quick:
        r = ctx.tlc("MCH5Store", cfg="H5Store_laws.cfg", timeout=2400)
        r.require_ok("laws")
        ctx.cov["states"] += r.distinct
        ctx.notes["tlc"]["H5Store_laws.cfg"] = {"states_distinct": r.distinct}


def lock_half(ctx):
    r = ctx.tlc("H5Lock", cfg="H5Lock.cfg", timeout=600)
    r.require_ok()
    ctx.cov["states"] += r.distinct
    ctx.cov["transitions"] += r.generated
    rounds = 3 if ctx.quick else 20
    for k in range(rounds):
        tr = os.path.join(ctx.scratch, "lock-trace-%d.ndjson" % k)
        rc, out, err = run_vh(ctx, ["h5lock", tr, workdir(ctx), "6", "60" if ctx.quick else "150"],
                              env_extra={"VERIF_SEED": str(ctx.seed * 100 + k), "GOMAXPROCS": ["16", "2", "4"][k % 3]})
        if rc != 0:
            ctx.report({"kind": "crash", "where": "lock"}, "concurrent H5Ref callers crashed: " + err[-1200:], {"stderr": err[-4000:]})
            return
        s = last_json(out)
        for m in s["mismatches"]:
            ctx.report({"kind": m["kind"], "where": "lock"}, m["detail"], m)
        accepted, consumed, total, res = tracecheck.validate(ctx, "TraceH5Lock", tr)
        ctx.cov["evaluations"] += s["evaluations"]
        ctx.cov["traces_validated_against_impl"] += 1
        ctx.notes.setdefault("lock_traces", []).append({"events": total, "ops": s["extra"]["ops"], "accepted": accepted})
        if not accepted:
            with open(tr) as f:
                lines = f.readlines()
            ev = json.loads(lines[consumed]) if 0 <= consumed < len(lines) else {}
            ctx.report({"kind": "lock-discipline", "event": ev.get("ev"), "call": ev.get("call"), "class": ev.get("class")},
                       "trace of concurrent H5Ref callers is not a behaviour of H5Lock: event #%d %s cannot happen under the "
                       "locking discipline (preceding: %s)" % (consumed + 1, ev, "".join(lines[max(0, consumed - 6):consumed])),
                       {"event": ev, "preceding": lines[max(0, consumed - 30):consumed]})
            return
        if k == 0:
            def mutate(evs):
                ks = [i for i, e in enumerate(evs) if e["ev"] == "lock"]
                k0 = ks[len(ks) // 2]
                del evs[k0]
                return "dropped the 'lock' event #%d" % k0
            tracecheck.corrupt_and_expect_reject(ctx, "TraceH5Lock", tr, mutate)
            ctx.notes["binding_selftest"] = "trace with a dropped lock event rejected"


def lock_race(ctx):
    """The same concurrent callers with the harness built with the Go race detector: data shared between concurrent
    callers inside package io (scratch vectors, caches) shows here even when the interleaving at hand happens to give
    the right values."""
    tr = os.path.join(ctx.scratch, "lock-trace-race.ndjson")
    rc, out, err = run_vh(ctx, ["h5lock", tr, workdir(ctx), "6", "40" if ctx.quick else "150"], race=True,
                          env_extra={"VERIF_SEED": str(ctx.seed * 100 + 77), "GORACE": "halt_on_error=1"})
    if "DATA RACE" in err:
        ctx.report({"kind": "race", "where": "lock"}, "data race reported by the Go race detector among concurrent H5Ref callers: " + err[:1500], {"stderr": err[:6000]})
        return
    if rc != 0:
        ctx.report({"kind": "crash", "where": "lock-race"}, "concurrent H5Ref callers (race build) crashed: " + err[-1200:], {"stderr": err[-4000:]})
        return
    s = last_json(out)
    for m in s["mismatches"]:
        ctx.report({"kind": m["kind"], "where": "lock-race"}, m["detail"], m)
    ctx.cov["evaluations"] += s["evaluations"]
    ctx.notes["lock_race_run"] = s["extra"]["ops"]


def lock_proof(ctx):
    """TLAPS: the discipline of H5Lock.tla is safe for ANY number of callers and calls (inductive invariant)."""
    import subprocess, tempfile
    wd = tempfile.mkdtemp(prefix="tlaps-", dir=ctx.scratch)
    for fn in ("H5Lock.tla", "H5LockProof.tla"):
        shutil.copy(os.path.join(os.path.dirname(os.path.dirname(os.path.dirname(os.path.abspath(__file__)))), "spec", fn), wd)
    try:
        r = subprocess.run(["tlapm", "--threads", "8", "H5LockProof.tla"], cwd=wd, capture_output=True, text=True, timeout=900)
    except (subprocess.TimeoutExpired, FileNotFoundError) as e:
        raise Infra("tlapm did not run: %s" % e)
    text = (r.stdout or "") + (r.stderr or "")
    import re
    m = re.search(r"All (\d+) obligations? proved", text)
    if r.returncode != 0 or not m:
        raise Infra("TLAPS did not prove H5LockProof.tla:\n" + text[-2000:])
    ctx.notes["tlaps"] = {"module": "H5LockProof.tla", "obligations_proved": int(m.group(1)),
                          "theorem": "Spec => [](NoWriteOverlap /\\ CallsUnderLock /\\ WriterExclusive) for any Callers and MaxCalls"}


def run(ctx):
    store_half(ctx)
    lock_proof(ctx)
    lock_half(ctx)
    lock_race(ctx)
    ctx.assumptions += ["S1: the HDF5 library is harness/fakehdf5 (pure Go, documented H5S_SELECT_SET hyperslab semantics); fidelity to libhdf5 is assumed",
                        "selections may select nothing (stop = start, start = extent); stop may exceed the extent",
                        "hdf5.DisplayErrors (configuration, called once before goroutines exist) is exempt from the lock discipline"]
    return ctx.finish("model_checking")
