#!/bin/sh
# Offline setup: warm the Go build cache for the harness (rebuilt by every check anyway)
# and verify the tools the checks rely on are present.
set -e
export GOFLAGS=-mod=mod GOPROXY=off GOSUMDB=off GOTOOLCHAIN=local
cd "$(dirname "$0")/harness"
cp /repo/go.sum go.sum
go build -tags verif -o /dev/null ./cmd/vh
command -v tlc >/dev/null
command -v python3 >/dev/null
echo setup ok
