#!/usr/bin/env python3
"""Expand gen/nd_adapter.tmpl for the 8 element types of openwater-core's data package."""
import os, re
here = os.path.dirname(os.path.abspath(__file__))
tmpl = open(os.path.join(here, "nd_adapter.tmpl")).read()
h5tmpl = open(os.path.join(here, "h5_adapter.tmpl")).read()
TYPES = [  # Name, Go element type, C storage element type (as Go type), has whole-array helpers
    ("Float64", "float64", "float64", True), ("Float32", "float32", "float32", True),
    ("Int32", "int32", "int32", True), ("Uint32", "uint32", "uint32", True),
    ("Int64", "int64", "int64", True), ("Uint64", "uint64", "uint64", True),
    ("Int", "int", "int32", False), ("Uint", "uint", "uint32", False),
]
for name, elem, celem, helpers in TYPES:
    s = tmpl
    if helpers:
        s = re.sub(r"//NOHELPERS-BEGIN.*?//NOHELPERS-END\n", "", s, flags=re.S)
    else:
        s = re.sub(r"//HELPERS-BEGIN.*?//HELPERS-END\n", "", s, flags=re.S)
    s = s.replace("//HELPERS-BEGIN\n", "").replace("//HELPERS-END\n", "")
    s = s.replace("//NOHELPERS-BEGIN\n", "").replace("//NOHELPERS-END\n", "")
    s = s.replace("TYPENAME", elem).replace("CELEM", celem).replace("ELEM", elem).replace("NAME", name)
    with open(os.path.join(here, "..", "cmd", "vh", "nd_gen_%s.go" % name.lower()), "w") as f:
        f.write(s)
for name, elem, celem, helpers in TYPES:
    s = h5tmpl.replace("TYPENAME", elem).replace("ELEM", elem).replace("NAME", name)
    with open(os.path.join(here, "..", "cmd", "vh", "h5_gen_%s.go" % name.lower()), "w") as f:
        f.write(s)
print("generated", len(TYPES))
