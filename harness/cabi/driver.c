/* C driver for the C-ABI half of C03: calls libopenwater.so:RunSingleModel on the cases of a case file
 * (written by `vh cabi gen`) with caller buffers surrounded by canary zones, and dumps every buffer
 * afterwards (read by `vh cabi check`).
 *   driver <libopenwater.so> <casefile> <resultfile> <progressfile>
 */
#include <dlfcn.h>
#include <inttypes.h>
#include <stdint.h>
#include <stdio.h>
#include <stdlib.h>
#include <string.h>

typedef void (*run_fn)(char *, double *, int, int, int, double *, int, int, double *, int, int, double *, int, int, int,
                       unsigned char);

#define CANARY 64
static const uint64_t CANARY_BITS = 0x7ff8dead0000beefULL;

static double *alloc_guarded(size_t n, FILE *in, int fill) {
  uint64_t *raw = malloc((n + 2 * CANARY) * sizeof(uint64_t));
  if (!raw) { fprintf(stderr, "oom\n"); exit(3); }
  for (size_t i = 0; i < n + 2 * CANARY; i++) raw[i] = CANARY_BITS;
  if (fill) {
    for (size_t i = 0; i < n; i++) {
      uint64_t v;
      if (fscanf(in, "%" SCNx64, &v) != 1) { fprintf(stderr, "bad case file\n"); exit(3); }
      raw[CANARY + i] = v;
    }
  }
  return (double *)(raw + CANARY);
}
static int canary_ok(double *p, size_t n) {
  uint64_t *raw = ((uint64_t *)p) - CANARY;
  for (size_t i = 0; i < CANARY; i++)
    if (raw[i] != CANARY_BITS || raw[CANARY + n + i] != CANARY_BITS) return 0;
  return 1;
}
static void dump(FILE *out, double *p, size_t n) {
  uint64_t *u = (uint64_t *)p;
  for (size_t i = 0; i < n; i++) fprintf(out, "%" PRIx64 " ", u[i]);
  fprintf(out, "\n");
}
static void release(double *p) { free(((uint64_t *)p) - CANARY); }

int main(int argc, char **argv) {
  if (argc < 5) { fprintf(stderr, "usage: driver lib casefile resultfile progressfile\n"); return 2; }
  void *h = dlopen(argv[1], RTLD_NOW);
  if (!h) { fprintf(stderr, "dlopen: %s\n", dlerror()); return 3; }
  run_fn run = (run_fn)dlsym(h, "RunSingleModel");
  if (!run) { fprintf(stderr, "dlsym failed\n"); return 3; }
  FILE *in = fopen(argv[2], "r");
  FILE *out = fopen(argv[3], "w");
  if (!in || !out) { fprintf(stderr, "cannot open files\n"); return 3; }
  char tag[16], model[128];
  long id;
  int nis, ni, T, npar, nsets, nc, ns, oc, no, ot, init, snull;
  while (fscanf(in, "%15s %ld %127s %d %d %d %d %d %d %d %d %d %d %d %d", tag, &id, model, &nis, &ni, &T, &npar, &nsets, &nc,
                &ns, &oc, &no, &ot, &init, &snull) == 15) {
    FILE *pf = fopen(argv[4], "w");
    if (pf) { fprintf(pf, "%ld %s\n", id, model); fclose(pf); }
    size_t nI = (size_t)nis * ni * T, nP = (size_t)npar * nsets, nS = (size_t)nc * ns, nO = (size_t)oc * no * ot;
    double *I = alloc_guarded(nI, in, 1);
    double *P = alloc_guarded(nP, in, 1);
    double *S = snull ? NULL : alloc_guarded(nS, in, 1);
    double *O = alloc_guarded(nO, in, 1);
    run(model, I, nis, ni, T, P, npar, nsets, S, nc, ns, O, oc, no, ot, (unsigned char)init);
    int ok = canary_ok(I, nI) && canary_ok(P, nP) && canary_ok(O, nO) && (snull || canary_ok(S, nS));
    fprintf(out, "RESULT %ld %d\n", id, ok);
    dump(out, O, nO);
    if (snull) fprintf(out, "\n"); else dump(out, S, nS);
    dump(out, I, nI);
    dump(out, P, nP);
    release(I); release(P); release(O);
    if (!snull) release(S);
  }
  fclose(out);
  return 0;
}
