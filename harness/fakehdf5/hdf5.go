package hdf5

import (
	"fmt"
	"sync/atomic"
)

var displayErrors int32

// DisplayErrors enables/disables HDF5's automatic error printing.  The fake
// never prints an error stack; the setting is only recorded.
func DisplayErrors(on bool) error {
	return traced(callInfo{"DisplayErrors", classConfig, "", ""}, func() error {
		var v int32
		if on {
			v = 1
		}
		atomic.StoreInt32(&displayErrors, v)
		return nil
	})
}

// Close flushes all data to disk.  Unlike H5close it does not invalidate
// open identifiers.
func Close() error {
	return traced(callInfo{"Close", classRead, "", ""}, func() error {
		mu.Lock()
		defer mu.Unlock()
		var first error
		for _, fs := range registry {
			if fs.dirty {
				if err := fs.flush(); err != nil && first == nil {
					first = err
				}
			}
		}
		return first
	})
}

// Version represents the currently used hdf5 library version
type Version struct {
	Major   uint
	Minor   uint
	Release uint
}

func (v Version) String() string {
	return fmt.Sprintf("%d.%d.%d", v.Major, v.Minor, v.Release)
}

// LibVersion returns the version of libhdf5 the fake models (1.10.4).
func LibVersion() (Version, error) {
	return Version{Major: 1, Minor: 10, Release: 4}, nil
}

// GarbageCollect is a no-op.
func GarbageCollect() error { return nil }

// Object represents an hdf5 object.
type Object interface {
	Name() string
	Id() int
	File() *File
}
