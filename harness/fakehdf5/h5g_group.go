package hdf5

import (
	"fmt"
)

// GType describes the type of an object inside a Group or File.
type GType int

const (
	H5G_UNKNOWN GType = -1 // Unknown object type
	H5G_GROUP   GType = 0  // Object is a group
	H5G_DATASET GType = 1  // Object is a dataset
	H5G_TYPE    GType = 2  // Object is a named data type
	H5G_LINK    GType = 3  // Object is a symbolic link
	H5G_UDLINK  GType = 4  // Object is a user-defined link
)

func (typ GType) String() string {
	switch typ {
	case H5G_UNKNOWN:
		return "unknown"
	case H5G_GROUP:
		return "group"
	case H5G_DATASET:
		return "dataset"
	case H5G_TYPE:
		return "type"
	case H5G_LINK:
		return "link"
	case H5G_UDLINK:
		return "udlink"
	default:
		return fmt.Sprintf("GType(%d)", int(typ))
	}
}

// CommonFG is for methods common to both File and Group
type CommonFG struct {
	Identifier
}

// Group is an HDF5 container object. It can contain any Location.
type Group struct {
	CommonFG
}

// prefix names the receiver kind for trace events.
func (g *CommonFG) prefix() string {
	if g.obj != nil && g.obj.typ == FILE {
		return "File."
	}
	return "Group."
}

// loc returns the live file or group object behind g.  mu must be held.
func (g *CommonFG) loc() (*object, error) {
	return g.liveAs(GROUP, FILE)
}

func newGroupHandle(parent *object, n *node) *Group {
	o := newObject(GROUP)
	o.fs, o.n, o.filename, o.writable = parent.fs, n, parent.filename, parent.writable
	o.tfile, o.tpath = parent.filename, n.path()
	o.fs.open++
	return &Group{CommonFG{Identifier{o}}}
}

func newDatasetHandle(parent *object, n *node) *Dataset {
	o := newObject(DATASET)
	o.fs, o.n, o.filename, o.writable = parent.fs, n, parent.filename, parent.writable
	o.tfile, o.tpath = parent.filename, n.path()
	o.fs.open++
	return &Dataset{Identifier: Identifier{o}}
}

// CreateGroup creates and returns a new empty group and links it to a location
// in the file. The returned group must be closed by the user when it is no
// longer needed.
func (g *CommonFG) CreateGroup(name string) (*Group, error) {
	var grp *Group
	ci := callInfo{g.prefix() + "CreateGroup", classWrite, g.traceFile(), joinObjPath(g.tracePath(), name)}
	err := traced(ci, func() error {
		mu.Lock()
		defer mu.Unlock()
		o, err := g.loc()
		if err != nil {
			return err
		}
		if !o.writable {
			return fmt.Errorf("hdf5: cannot create group %q: file %s is open read-only", name, o.filename)
		}
		parent, link, err := o.fs.lookupParent(o.n, name)
		if err != nil {
			return err
		}
		if _, exists := parent.children[link]; exists {
			return fmt.Errorf("hdf5: cannot create group %q: name already exists", name)
		}
		n := newGroupNode(link, parent)
		parent.children[link] = n
		o.fs.dirty = true
		grp = newGroupHandle(o, n)
		return nil
	})
	if err != nil {
		return nil, err
	}
	return grp, nil
}

// CreateDataset creates a new Dataset. The returned dataset must be
// closed by the user when it is no longer needed.
func (g *CommonFG) CreateDataset(name string, dtype *Datatype, dspace *Dataspace) (*Dataset, error) {
	return g.createDataset("CreateDataset", name, dtype, dspace, P_DEFAULT)
}

// CreateDatasetWith creates a new Dataset with a user-defined PropList.
// The returned dataset must be closed by the user when it is no longer needed.
func (g *CommonFG) CreateDatasetWith(name string, dtype *Datatype, dspace *Dataspace, dcpl *PropList) (*Dataset, error) {
	return g.createDataset("CreateDatasetWith", name, dtype, dspace, dcpl)
}

func (g *CommonFG) createDataset(call, name string, dt *Datatype, dspace *Dataspace, dcpl *PropList) (*Dataset, error) {
	var ds *Dataset
	ci := callInfo{g.prefix() + call, classWrite, g.traceFile(), joinObjPath(g.tracePath(), name)}
	err := traced(ci, func() error {
		mu.Lock()
		defer mu.Unlock()
		o, err := g.loc()
		if err != nil {
			return err
		}
		if dt == nil || dspace == nil {
			return fmt.Errorf("hdf5: cannot create dataset %q: nil datatype or dataspace", name)
		}
		to, err := dt.liveAs(DATATYPE)
		if err != nil {
			return fmt.Errorf("hdf5: cannot create dataset %q: datatype: %v", name, err)
		}
		so, err := dspace.liveAs(DATASPACE)
		if err != nil {
			return fmt.Errorf("hdf5: cannot create dataset %q: dataspace: %v", name, err)
		}
		var pl *plistData
		if dcpl != nil {
			po, err := dcpl.liveAs(proplistType)
			if err != nil {
				return fmt.Errorf("hdf5: cannot create dataset %q: property list: %v", name, err)
			}
			if po.pl.class != P_DATASET_CREATE && po != P_DEFAULT.obj {
				return fmt.Errorf("hdf5: cannot create dataset %q: not a dataset creation property list", name)
			}
			pl = po.pl
		}
		if !o.writable {
			return fmt.Errorf("hdf5: cannot create dataset %q: file %s is open read-only", name, o.filename)
		}
		d, err := newDsData(*to.dt, so.space, pl)
		if err != nil {
			return fmt.Errorf("hdf5: cannot create dataset %q: %v", name, err)
		}
		n, err := o.fs.linkDataset(o.n, name, d)
		if err != nil {
			return err
		}
		ds = newDatasetHandle(o, n)
		return nil
	})
	if err != nil {
		return nil, err
	}
	return ds, nil
}

// linkDataset links a new dataset under name; the name must not exist.
func (fs *fileState) linkDataset(start *node, name string, d *dsData) (*node, error) {
	parent, link, err := fs.lookupParent(start, name)
	if err != nil {
		return nil, err
	}
	if _, exists := parent.children[link]; exists {
		return nil, fmt.Errorf("hdf5: cannot create dataset %q: name already exists", name)
	}
	n := &node{name: link, parent: parent, ds: d}
	parent.children[link] = n
	fs.dirty = true
	return n, nil
}

// newDsData validates the creation parameters and allocates a zero-filled
// dataset.
func newDsData(t dtype, sp *spaceData, pl *plistData) (*dsData, error) {
	if t.k == kInvalid {
		return nil, fmt.Errorf("invalid datatype")
	}
	if t.k == kString && t.size == variableSize {
		return nil, fmt.Errorf("variable-length strings are not supported by fakehdf5")
	}
	if t.size <= 0 {
		return nil, fmt.Errorf("datatype has invalid size %d", t.size)
	}
	d := &dsData{typ: t, class: sp.class, deflate: noDeflate,
		dims: append([]uint64{}, sp.dims...), maxdims: append([]uint64{}, sp.maxdims...)}
	if pl != nil {
		d.deflate = pl.deflate
		if pl.chunk != nil {
			if len(pl.chunk) != len(d.dims) {
				return nil, fmt.Errorf("chunk rank %d does not match dataspace rank %d", len(pl.chunk), len(d.dims))
			}
			for i, c := range pl.chunk {
				if c == 0 {
					return nil, fmt.Errorf("chunk dimensions must be positive")
				}
				if d.maxdims[i] != unlimitedDim && c > d.maxdims[i] {
					return nil, fmt.Errorf("chunk size must be <= maximum dimension size for fixed-sized dimensions")
				}
			}
			d.chunk = append([]uint64{}, pl.chunk...)
		}
	}
	if d.chunk == nil {
		// libhdf5: H5D__create "filters can only be used with chunked layout"
		if d.deflate != noDeflate {
			return nil, fmt.Errorf("filters can only be used with chunked layout")
		}
		// libhdf5: H5D__contig_construct "extendible contiguous non-external dataset not allowed"
		for i := range d.dims {
			if d.maxdims[i] != d.dims[i] {
				return nil, fmt.Errorf("extendible contiguous non-external dataset not allowed")
			}
		}
	}
	n, ok := extentPoints(d.class, d.dims)
	if !ok || n > maxDataBytes/uint64(t.size) {
		return nil, fmt.Errorf("dataset too large for fakehdf5")
	}
	d.data = make([]byte, n*uint64(t.size))
	return d, nil
}

// Close closes the Group.
func (g *Group) Close() error {
	return g.closeFileBound("Group.Close", GROUP)
}

// OpenGroup opens and returns an existing child group from this Group.
// The returned group must be closed by the user when it is no longer needed.
func (g *CommonFG) OpenGroup(name string) (*Group, error) {
	var grp *Group
	ci := callInfo{g.prefix() + "OpenGroup", classRead, g.traceFile(), joinObjPath(g.tracePath(), name)}
	err := traced(ci, func() error {
		mu.Lock()
		defer mu.Unlock()
		o, err := g.loc()
		if err != nil {
			return err
		}
		n, err := o.fs.lookup(o.n, name)
		if err != nil {
			return err
		}
		if !n.isGroup() {
			return fmt.Errorf("hdf5: %q is not a group", name)
		}
		grp = newGroupHandle(o, n)
		return nil
	})
	if err != nil {
		return nil, err
	}
	return grp, nil
}

// OpenDataset opens and returns a named Dataset. The returned
// dataset must be closed by the user when it is no longer needed.
func (g *CommonFG) OpenDataset(name string) (*Dataset, error) {
	return g.openDataset("OpenDataset", name)
}

// OpenDatasetWith opens and returns a named Dataset with a user-defined PropList.
// The returned dataset must be closed by the user when it is no longer needed.
func (g *CommonFG) OpenDatasetWith(name string, dapl *PropList) (*Dataset, error) {
	return g.openDataset("OpenDatasetWith", name)
}

func (g *CommonFG) openDataset(call, name string) (*Dataset, error) {
	var ds *Dataset
	ci := callInfo{g.prefix() + call, classRead, g.traceFile(), joinObjPath(g.tracePath(), name)}
	err := traced(ci, func() error {
		mu.Lock()
		defer mu.Unlock()
		o, err := g.loc()
		if err != nil {
			return err
		}
		n, err := o.fs.lookup(o.n, name)
		if err != nil {
			return err
		}
		if n.ds == nil {
			return fmt.Errorf("hdf5: %q is not a dataset", name)
		}
		ds = newDatasetHandle(o, n)
		return nil
	})
	if err != nil {
		return nil, err
	}
	return ds, nil
}

// NumObjects returns the number of objects in the Group.
func (g *CommonFG) NumObjects() (uint, error) {
	var count uint
	err := traced(callInfo{g.prefix() + "NumObjects", classRead, g.traceFile(), g.tracePath()}, func() error {
		mu.Lock()
		defer mu.Unlock()
		o, err := g.loc()
		if err != nil {
			return err
		}
		count = uint(len(o.n.children))
		return nil
	})
	return count, err
}

// child returns the idx-th child in increasing name order.  mu must be held.
func (g *CommonFG) child(idx uint) (*node, error) {
	o, err := g.loc()
	if err != nil {
		return nil, err
	}
	names := o.n.sortedNames()
	if idx >= uint(len(names)) {
		return nil, fmt.Errorf("hdf5: index %d out of range (group %q has %d objects)", idx, o.n.path(), len(names))
	}
	return o.n.children[names[idx]], nil
}

// ObjectNameByIndex returns the name of the object at idx (in increasing
// order of name).
func (g *CommonFG) ObjectNameByIndex(idx uint) (string, error) {
	var name string
	err := traced(callInfo{g.prefix() + "ObjectNameByIndex", classRead, g.traceFile(), g.tracePath()}, func() error {
		mu.Lock()
		defer mu.Unlock()
		n, err := g.child(idx)
		if err != nil {
			return fmt.Errorf("could not get name")
		}
		name = n.name
		return nil
	})
	return name, err
}

// ObjectTypeByIndex returns the type of the object at idx.
func (g *CommonFG) ObjectTypeByIndex(idx uint) (GType, error) {
	gtyp := H5G_UNKNOWN
	err := traced(callInfo{g.prefix() + "ObjectTypeByIndex", classRead, g.traceFile(), g.tracePath()}, func() error {
		mu.Lock()
		defer mu.Unlock()
		n, err := g.child(idx)
		if err != nil {
			return fmt.Errorf("could not get object type")
		}
		if n.isGroup() {
			gtyp = H5G_GROUP
		} else {
			gtyp = H5G_DATASET
		}
		return nil
	})
	return gtyp, err
}

// LinkExists returns whether a link with the specified name exists in the group.
func (g *CommonFG) LinkExists(name string) bool {
	exists := false
	ci := callInfo{g.prefix() + "LinkExists", classRead, g.traceFile(), joinObjPath(g.tracePath(), name)}
	traced(ci, func() error {
		mu.Lock()
		defer mu.Unlock()
		o, err := g.loc()
		if err != nil {
			return err
		}
		_, err = o.fs.lookup(o.n, name)
		exists = err == nil
		return nil
	})
	return exists
}
