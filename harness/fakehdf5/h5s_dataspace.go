package hdf5

import (
	"errors"
	"fmt"
)

type Dataspace struct {
	Identifier
}

type SpaceClass int

const (
	S_NO_CLASS SpaceClass = -1 // error
	S_SCALAR   SpaceClass = 0  // scalar variable
	S_SIMPLE   SpaceClass = 1  // simple data space
	S_NULL     SpaceClass = 2  // null data space
)

type selKind uint8

const (
	selAll selKind = iota
	selNone
	selHyper
)

// spaceData is an extent plus a selection.
type spaceData struct {
	class   SpaceClass
	dims    []uint64
	maxdims []uint64

	sel                       selKind
	off, stride, count, block []uint64 // valid iff sel == selHyper
}

func (s *spaceData) clone() *spaceData {
	c := *s
	c.dims = append([]uint64{}, s.dims...)
	c.maxdims = append([]uint64{}, s.maxdims...)
	c.off = append([]uint64(nil), s.off...)
	c.stride = append([]uint64(nil), s.stride...)
	c.count = append([]uint64(nil), s.count...)
	c.block = append([]uint64(nil), s.block...)
	return &c
}

func sameDims(a, b []uint64) bool {
	if len(a) != len(b) {
		return false
	}
	for i := range a {
		if a[i] != b[i] {
			return false
		}
	}
	return true
}

// validSelection reports whether the selection lies within the extent, as
// H5S_SELECT_VALID does at the start of H5Dread/H5Dwrite.
func (s *spaceData) validSelection() bool {
	if s.sel != selHyper {
		return true
	}
	for d := range s.dims {
		dim, off, stride, count, block := s.dims[d], s.off[d], s.stride[d], s.count[d], s.block[d]
		if off >= dim || block > dim-off {
			return false
		}
		room := dim - off - block // cells left after the first block
		if count > 1 && count-1 > room/stride {
			return false
		}
	}
	return true
}

// selectedPoints returns the number of selected elements.  It must only be
// called on a valid selection (so it cannot overflow).
func (s *spaceData) selectedPoints() uint64 {
	switch s.sel {
	case selNone:
		return 0
	case selAll:
		n, _ := extentPoints(s.class, s.dims)
		return n
	}
	n := uint64(1)
	for d := range s.dims {
		n *= s.count[d] * s.block[d]
	}
	return n
}

// indices returns the linear (row-major) element index of every selected
// element, in selection order, which for hyperslabs is increasing row-major
// order.  identity is true (and idx nil) if the selection is exactly
// 0..n-1.  It must only be called on a valid selection.
func (s *spaceData) indices() (idx []int, identity bool) {
	switch s.sel {
	case selNone:
		return []int{}, false
	case selAll:
		return nil, true
	}
	rank := len(s.dims)
	coords := make([][]int, rank)
	total := 1
	for d := 0; d < rank; d++ {
		list := make([]int, 0, int(s.count[d]*s.block[d]))
		for i := uint64(0); i < s.count[d]; i++ {
			for j := uint64(0); j < s.block[d]; j++ {
				list = append(list, int(s.off[d]+i*s.stride[d]+j))
			}
		}
		coords[d] = list
		total *= len(list)
	}
	// row-major strides of the extent
	strides := make([]int, rank)
	acc := 1
	for d := rank - 1; d >= 0; d-- {
		strides[d] = acc
		acc *= int(s.dims[d])
	}
	idx = make([]int, 0, total)
	if total == 0 {
		return idx, false
	}
	pos := make([]int, rank)
	for {
		lin := 0
		for d := 0; d < rank; d++ {
			lin += coords[d][pos[d]] * strides[d]
		}
		idx = append(idx, lin)
		d := rank - 1
		for ; d >= 0; d-- {
			pos[d]++
			if pos[d] < len(coords[d]) {
				break
			}
			pos[d] = 0
		}
		if d < 0 {
			break
		}
	}
	return idx, false
}

func newDataspaceHandle(sd *spaceData, tfile, tpath string) *Dataspace {
	o := newObject(DATASPACE)
	o.space = sd
	o.tfile, o.tpath = tfile, tpath
	return &Dataspace{Identifier{o}}
}

// CreateDataspace creates a new dataspace of a specified type. The returned
// dataspace must be closed by the user when it is no longer needed.
func CreateDataspace(class SpaceClass) (*Dataspace, error) {
	var ds *Dataspace
	err := traced(callInfo{"CreateDataspace", classRead, "", ""}, func() error {
		switch class {
		case S_SCALAR, S_SIMPLE, S_NULL:
		default:
			return fmt.Errorf("hdf5: invalid dataspace class %d", int(class))
		}
		ds = newDataspaceHandle(&spaceData{class: class, dims: []uint64{}, maxdims: []uint64{}}, "", "")
		return nil
	})
	if err != nil {
		return nil, err
	}
	return ds, nil
}

// Copy creates an exact copy of a dataspace. The returned dataspace must
// be closed by the user when it is no longer needed.
func (s *Dataspace) Copy() (*Dataspace, error) {
	var c *Dataspace
	err := traced(callInfo{"Dataspace.Copy", classRead, s.traceFile(), s.tracePath()}, func() error {
		mu.Lock()
		defer mu.Unlock()
		o, err := s.liveAs(DATASPACE)
		if err != nil {
			return err
		}
		c = newDataspaceHandle(o.space.clone(), o.tfile, o.tpath)
		return nil
	})
	if err != nil {
		return nil, err
	}
	return c, nil
}

// Close releases and terminates access to a dataspace.
func (s *Dataspace) Close() error {
	return s.closeSimple("Dataspace.Close", DATASPACE)
}

// CreateSimpleDataspace creates a new simple dataspace and opens it for access.
// The returned dataspace must be closed by the user when it is no longer needed.
//
// A nil maxDims means "same as dims"; a maxDims entry of ^uint(0) means
// unlimited.  Zero-sized dimensions are allowed.
func CreateSimpleDataspace(dims, maxDims []uint) (*Dataspace, error) {
	var ds *Dataspace
	err := traced(callInfo{"CreateSimpleDataspace", classRead, "", ""}, func() error {
		if len(dims) != len(maxDims) && (dims != nil && maxDims != nil) {
			return errors.New("lengths of dims and maxDims do not match")
		}
		if dims == nil && maxDims != nil && len(maxDims) > 0 {
			return fmt.Errorf("failed to create dataspace")
		}
		sd := &spaceData{class: S_SIMPLE, dims: make([]uint64, len(dims)), maxdims: make([]uint64, len(dims))}
		for i, d := range dims {
			if uint64(d) == unlimitedDim {
				return fmt.Errorf("failed to create dataspace") // current dimension must have a specific size
			}
			sd.dims[i] = uint64(d)
			sd.maxdims[i] = uint64(d)
			if maxDims != nil {
				if uint64(maxDims[i]) != unlimitedDim && maxDims[i] < d {
					return fmt.Errorf("failed to create dataspace") // maxdims is smaller than dims
				}
				sd.maxdims[i] = uint64(maxDims[i])
			}
		}
		if _, ok := extentPoints(S_SIMPLE, sd.dims); !ok {
			return fmt.Errorf("failed to create dataspace")
		}
		ds = newDataspaceHandle(sd, "", "")
		return nil
	})
	if err != nil {
		return nil, err
	}
	return ds, nil
}

// IsSimple returns whether a dataspace is a simple dataspace.
func (s *Dataspace) IsSimple() bool {
	simple := false
	traced(callInfo{"Dataspace.IsSimple", classRead, s.traceFile(), s.tracePath()}, func() error {
		mu.Lock()
		defer mu.Unlock()
		o, err := s.liveAs(DATASPACE)
		if err != nil {
			return err
		}
		simple = o.space.class == S_SIMPLE || o.space.class == S_SCALAR
		return nil
	})
	return simple
}

// SetOffset sets the offset of a simple dataspace.  The fake supports only
// the all-zero (or empty, i.e. reset) offset.
func (s *Dataspace) SetOffset(offset []uint) error {
	return traced(callInfo{"Dataspace.SetOffset", classRead, s.traceFile(), s.tracePath()}, func() error {
		mu.Lock()
		defer mu.Unlock()
		o, err := s.liveAs(DATASPACE)
		if err != nil {
			return err
		}
		if len(offset) == 0 {
			return nil
		}
		if len(offset) != len(o.space.dims) {
			return errors.New("size of offset does not match extent")
		}
		for _, v := range offset {
			if v != 0 {
				return errors.New("hdf5: non-zero selection offsets are not supported by fakehdf5")
			}
		}
		return nil
	})
}

// SelectHyperslab creates a subset of the data space (H5S_SELECT_SET).
//
// In every dimension d the selected coordinates are
// offset[d] + i*stride[d] + j for 0 <= i < count[d], 0 <= j < block[d].
// A nil stride or block means all ones.  As in libhdf5, stride == 0 is an
// error, overlapping blocks (count > 1 and stride < block) are an error, a
// zero count or block anywhere selects nothing, and a selection reaching
// outside the extent is accepted here but makes any later transfer fail.
func (s *Dataspace) SelectHyperslab(offset, stride, count, block []uint) error {
	return traced(callInfo{"Dataspace.SelectHyperslab", classRead, s.traceFile(), s.tracePath()}, func() error {
		mu.Lock()
		defer mu.Unlock()
		o, err := s.liveAs(DATASPACE)
		if err != nil {
			return err
		}
		sd := o.space
		rank := len(offset)
		if rank == 0 {
			// the real wrapper merely resets the selection offset here
			return nil
		}
		if sd.class != S_SIMPLE || rank != len(sd.dims) {
			return errors.New("size of offset does not match extent")
		}
		if len(count) != rank || (stride != nil && len(stride) != rank) || (block != nil && len(block) != rank) {
			return errors.New("hdf5: hyperslab arguments must all have the rank of the dataspace")
		}
		off, str, cnt, blk := make([]uint64, rank), make([]uint64, rank), make([]uint64, rank), make([]uint64, rank)
		none := false
		for d := 0; d < rank; d++ {
			off[d], cnt[d], str[d], blk[d] = uint64(offset[d]), uint64(count[d]), 1, 1
			if stride != nil {
				str[d] = uint64(stride[d])
			}
			if block != nil {
				blk[d] = uint64(block[d])
			}
			if str[d] == 0 {
				return errors.New("hdf5: invalid hyperslab: stride == 0")
			}
			if cnt[d] > 1 && str[d] < blk[d] {
				return errors.New("hdf5: invalid hyperslab: blocks overlap (stride < block)")
			}
			if cnt[d] == 0 || blk[d] == 0 {
				none = true
			}
		}
		if none {
			sd.sel, sd.off, sd.stride, sd.count, sd.block = selNone, nil, nil, nil, nil
			return nil
		}
		sd.sel, sd.off, sd.stride, sd.count, sd.block = selHyper, off, str, cnt, blk
		return nil
	})
}

// SelectAll selects the whole extent (H5Sselect_all).
func (s *Dataspace) SelectAll() error {
	return traced(callInfo{"Dataspace.SelectAll", classRead, s.traceFile(), s.tracePath()}, func() error {
		mu.Lock()
		defer mu.Unlock()
		o, err := s.liveAs(DATASPACE)
		if err != nil {
			return err
		}
		sd := o.space
		sd.sel, sd.off, sd.stride, sd.count, sd.block = selAll, nil, nil, nil, nil
		return nil
	})
}

// SimpleExtentDims returns dataspace dimension size and maximum size.
func (s *Dataspace) SimpleExtentDims() (dims, maxdims []uint, err error) {
	err = traced(callInfo{"Dataspace.SimpleExtentDims", classRead, s.traceFile(), s.tracePath()}, func() error {
		mu.Lock()
		defer mu.Unlock()
		o, err := s.liveAs(DATASPACE)
		if err != nil {
			return err
		}
		dims = make([]uint, len(o.space.dims))
		maxdims = make([]uint, len(o.space.dims))
		for i := range o.space.dims {
			dims[i] = uint(o.space.dims[i])
			maxdims[i] = uint(o.space.maxdims[i])
		}
		return nil
	})
	return
}

// SimpleExtentNDims returns the dimensionality of a dataspace (-1 on error).
func (s *Dataspace) SimpleExtentNDims() int {
	rank := -1
	traced(callInfo{"Dataspace.SimpleExtentNDims", classRead, s.traceFile(), s.tracePath()}, func() error {
		mu.Lock()
		defer mu.Unlock()
		o, err := s.liveAs(DATASPACE)
		if err != nil {
			return err
		}
		rank = len(o.space.dims)
		return nil
	})
	return rank
}

// SimpleExtentNPoints returns the number of elements in a dataspace.
func (s *Dataspace) SimpleExtentNPoints() int {
	np := 0
	traced(callInfo{"Dataspace.SimpleExtentNPoints", classRead, s.traceFile(), s.tracePath()}, func() error {
		mu.Lock()
		defer mu.Unlock()
		o, err := s.liveAs(DATASPACE)
		if err != nil {
			return err
		}
		n, _ := extentPoints(o.space.class, o.space.dims)
		np = int(n)
		return nil
	})
	return np
}

// SimpleExtentType returns the current class of a dataspace.
func (s *Dataspace) SimpleExtentType() SpaceClass {
	class := S_NO_CLASS
	traced(callInfo{"Dataspace.SimpleExtentType", classRead, s.traceFile(), s.tracePath()}, func() error {
		mu.Lock()
		defer mu.Unlock()
		o, err := s.liveAs(DATASPACE)
		if err != nil {
			return err
		}
		class = o.space.class
		return nil
	})
	return class
}

// SelectedPoints returns the number of elements in the current selection
// (H5Sget_select_npoints), or -1 if the selection is not within the extent or
// the handle is invalid.
//
// EXTENSION: the real gonum package does not wrap H5Sget_select_npoints.
func (s *Dataspace) SelectedPoints() int {
	np := -1
	traced(callInfo{"Dataspace.SelectedPoints", classRead, s.traceFile(), s.tracePath()}, func() error {
		mu.Lock()
		defer mu.Unlock()
		o, err := s.liveAs(DATASPACE)
		if err != nil {
			return err
		}
		if !o.space.validSelection() {
			return errors.New("hdf5: selection is not within the extent")
		}
		np = int(o.space.selectedPoints())
		return nil
	})
	return np
}
