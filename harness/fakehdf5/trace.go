package hdf5

// EXTENSION -- NOT PART OF THE REAL gonum.org/v1/hdf5 API.
//
// Call tracing and delay injection for the verification harness.

import (
	"encoding/json"
	"os"
	"runtime"
	"strconv"
	"sync"
	"sync/atomic"
	"time"
)

// Event describes the entry into, or exit from, one public library call.
//
// EXTENSION: not part of the real API.
type Event struct {
	Seq   uint64 // process-wide counter, incremented at emission
	Gid   uint64 // goroutine id, parsed from runtime.Stack
	Phase string // "enter" | "exit"
	Call  string // e.g. "OpenFile", "Dataset.WriteSubset"
	Class string // "read" | "write" | "config"
	File  string // file name as given to OpenFile/CreateFile ("" if not file-bound)
	Path  string // absolute object path inside the file ("" if not object-bound)
	Err   bool   // exit events only: the call failed
}

const (
	classRead   = "read"
	classWrite  = "write"
	classConfig = "config"
)

var (
	tracerVal atomic.Value // holds tracerBox
	seqCtr    uint64
	delayNs   int64
)

type tracerBox struct{ fn func(Event) }

// SetTracer installs fn as the receiver of all trace events; nil disables
// tracing.  fn is called synchronously on the goroutine making the library
// call, outside of the fake's internal mutex, and must be safe for concurrent
// use.
//
// EXTENSION: not part of the real API.
func SetTracer(fn func(Event)) {
	tracerVal.Store(tracerBox{fn})
}

// SetDelay makes every traced call sleep for d between its enter and exit
// events (before the operation is carried out, and without holding the
// internal mutex), widening race windows.  d <= 0 disables the delay.
//
// EXTENSION: not part of the real API.
func SetDelay(d time.Duration) {
	atomic.StoreInt64(&delayNs, int64(d))
}

func currentTracer() func(Event) {
	if b, ok := tracerVal.Load().(tracerBox); ok {
		return b.fn
	}
	return nil
}

// goid parses the current goroutine's id from the first line of its stack
// trace ("goroutine 123 [running]:").
func goid() uint64 {
	var buf [64]byte
	n := runtime.Stack(buf[:], false)
	const prefix = "goroutine "
	b := buf[:n]
	if len(b) < len(prefix) {
		return 0
	}
	b = b[len(prefix):]
	end := 0
	for end < len(b) && b[end] >= '0' && b[end] <= '9' {
		end++
	}
	id, _ := strconv.ParseUint(string(b[:end]), 10, 64)
	return id
}

// callInfo identifies a traced call.
type callInfo struct {
	call, class, file, path string
}

// traced wraps the body of every public library call: it emits the enter
// event, sleeps for the injected delay, runs fn and emits the exit event.
func traced(ci callInfo, fn func() error) error {
	tr := currentTracer()
	d := atomic.LoadInt64(&delayNs)
	if tr == nil && d <= 0 {
		return fn()
	}
	var gid uint64
	if tr != nil {
		gid = goid()
		tr(Event{Seq: atomic.AddUint64(&seqCtr, 1), Gid: gid, Phase: "enter",
			Call: ci.call, Class: ci.class, File: ci.file, Path: ci.path})
	}
	if d > 0 {
		time.Sleep(time.Duration(d))
	}
	err := fn()
	if tr != nil {
		tr(Event{Seq: atomic.AddUint64(&seqCtr, 1), Gid: gid, Phase: "exit",
			Call: ci.call, Class: ci.class, File: ci.file, Path: ci.path, Err: err != nil})
	}
	return err
}

// fileTraceRecord is what the FAKEHDF5_TRACE tracer writes: the Event fields
// plus the process id and a wall-clock timestamp, so that the traces of
// several processes appended to one file can be told apart.
type fileTraceRecord struct {
	Event
	Pid int
	T   int64 // time.Now().UnixNano() at emission
}

func installFileTracer(path string) error {
	f, err := os.OpenFile(path, os.O_APPEND|os.O_CREATE|os.O_WRONLY, 0644)
	if err != nil {
		return err
	}
	var fmu sync.Mutex
	pid := os.Getpid()
	SetTracer(func(ev Event) {
		line, err := json.Marshal(fileTraceRecord{Event: ev, Pid: pid, T: time.Now().UnixNano()})
		if err != nil {
			return
		}
		line = append(line, '\n')
		fmu.Lock()
		f.Write(line) // unbuffered: one write(2) per event
		fmu.Unlock()
	})
	return nil
}

func init() {
	// FAKEHDF5_DELAY_IF_ARG=<word>: the delay only applies to processes that were started with <word> among their
	// arguments (e.g. "-writer": slow down ow-sim's writer child process, not the simulation process)
	delayApplies := true
	if w := os.Getenv("FAKEHDF5_DELAY_IF_ARG"); w != "" {
		delayApplies = false
		for _, a := range os.Args[1:] {
			if a == w {
				delayApplies = true
			}
		}
	}
	if us := os.Getenv("FAKEHDF5_DELAY_US"); us != "" && delayApplies {
		if n, err := strconv.ParseInt(us, 10, 64); err == nil && n > 0 {
			SetDelay(time.Duration(n) * time.Microsecond)
		} else if err != nil {
			os.Stderr.WriteString("fakehdf5: ignoring invalid FAKEHDF5_DELAY_US=" + us + "\n")
		}
	}
	if path := os.Getenv("FAKEHDF5_TRACE"); path != "" {
		if err := installFileTracer(path); err != nil {
			os.Stderr.WriteString("fakehdf5: cannot open FAKEHDF5_TRACE file: " + err.Error() + "\n")
		}
	}
	if m := os.Getenv("FAKEHDF5_TRANSFER"); m != "" {
		switch m {
		case "native":
			SetTransferMode(TransferNative)
		case "convert":
			SetTransferMode(TransferConvert)
		default:
			os.Stderr.WriteString("fakehdf5: ignoring invalid FAKEHDF5_TRANSFER=" + m + " (want native|convert)\n")
		}
	}
}
