package hdf5

import (
	"bufio"
	"encoding/json"
	"fmt"
	"math"
	"os"
	"os/exec"
	"path/filepath"
	"reflect"
	"sort"
	"strings"
	"sync"
	"testing"
	"time"
)

func tmpFile(t *testing.T, name string) string {
	t.Helper()
	return filepath.Join(t.TempDir(), name)
}

func must(t *testing.T, err error) {
	t.Helper()
	if err != nil {
		t.Fatalf("unexpected error: %v", err)
	}
}

func wantErr(t *testing.T, err error, what string) {
	t.Helper()
	if err == nil {
		t.Fatalf("expected an error: %s", what)
	}
}

// forgetAll empties the process-wide cache, so the next open re-reads the
// file from disk as another process would.
func forgetAll() {
	mu.Lock()
	defer mu.Unlock()
	for k, fs := range registry {
		if fs.open == 0 {
			delete(registry, k)
		}
	}
}

func mkDataset(t *testing.T, f *File, name string, example interface{}, dims ...uint) *Dataset {
	t.Helper()
	dt, err := NewDatatypeFromValue(example)
	must(t, err)
	defer dt.Close()
	sp, err := CreateSimpleDataspace(dims, nil)
	must(t, err)
	defer sp.Close()
	ds, err := f.CreateDataset(name, dt, sp)
	must(t, err)
	return ds
}

func arange(n int) []float64 {
	r := make([]float64, n)
	for i := range r {
		r[i] = float64(i)
	}
	return r
}

// ---------------------------------------------------------------------------

func TestWholeReadWriteAllNumericTypes(t *testing.T) {
	fn := tmpFile(t, "types.h5")
	f, err := CreateFile(fn, F_ACC_TRUNC)
	must(t, err)

	type tc struct {
		name  string
		in    interface{} // pointer to slice
		out   interface{} // pointer to zeroed slice
		size  uint
		gotyp reflect.Type
	}
	cases := []tc{
		{"float64", &[]float64{1.5, -2, 3, 4, 5, math.Inf(1)}, &[]float64{0, 0, 0, 0, 0, 0}, 8, reflect.TypeOf(float64(0))},
		{"float32", &[]float32{1.5, -2, 3, 4, 5, 6}, &[]float32{0, 0, 0, 0, 0, 0}, 4, reflect.TypeOf(float32(0))},
		{"int32", &[]int32{1, -2, 3, math.MaxInt32, math.MinInt32, 6}, &[]int32{0, 0, 0, 0, 0, 0}, 4, reflect.TypeOf(int32(0))},
		{"uint32", &[]uint32{1, 2, 3, math.MaxUint32, 5, 6}, &[]uint32{0, 0, 0, 0, 0, 0}, 4, reflect.TypeOf(uint32(0))},
		{"int64", &[]int64{1, -2, 3, math.MaxInt64, math.MinInt64, 6}, &[]int64{0, 0, 0, 0, 0, 0}, 8, reflect.TypeOf(int64(0))},
		{"uint64", &[]uint64{1, 2, 3, math.MaxUint64, 5, 6}, &[]uint64{0, 0, 0, 0, 0, 0}, 8, reflect.TypeOf(uint64(0))},
		{"int", &[]int{1, -2, 3, math.MaxInt64, math.MinInt64, 6}, &[]int{0, 0, 0, 0, 0, 0}, 8, reflect.TypeOf(int(0))},
		{"uint", &[]uint{1, 2, 3, math.MaxUint64, 5, 6}, &[]uint{0, 0, 0, 0, 0, 0}, 8, reflect.TypeOf(uint(0))},
	}
	for _, c := range cases {
		example := reflect.ValueOf(c.in).Elem().Index(0).Interface()
		ds := mkDataset(t, f, c.name, example, 2, 3)
		// newly created datasets are zero filled
		zero := reflect.New(reflect.TypeOf(c.in).Elem())
		zero.Elem().Set(reflect.MakeSlice(reflect.TypeOf(c.in).Elem(), 6, 6))
		probe := reflect.New(reflect.TypeOf(c.in).Elem())
		probe.Elem().Set(reflect.MakeSlice(reflect.TypeOf(c.in).Elem(), 6, 6))
		probe.Elem().Index(3).Set(reflect.ValueOf(example))
		must(t, ds.Read(probe.Interface()))
		if !reflect.DeepEqual(probe.Elem().Interface(), zero.Elem().Interface()) {
			t.Errorf("%s: new dataset not zero filled: %v", c.name, probe.Elem().Interface())
		}
		must(t, ds.Write(c.in))
		must(t, ds.Close())
	}
	must(t, f.Close())
	forgetAll()

	f, err = OpenFile(fn, F_ACC_RDONLY)
	must(t, err)
	defer f.Close()
	for _, c := range cases {
		ds, err := f.OpenDataset("/" + c.name)
		must(t, err)
		must(t, ds.Read(c.out))
		if !reflect.DeepEqual(reflect.ValueOf(c.in).Elem().Interface(), reflect.ValueOf(c.out).Elem().Interface()) {
			t.Errorf("%s: read back %v, want %v", c.name, reflect.ValueOf(c.out).Elem().Interface(), reflect.ValueOf(c.in).Elem().Interface())
		}
		dt, err := ds.Datatype()
		must(t, err)
		if dt.GoType() != c.gotyp {
			t.Errorf("%s: GoType %v", c.name, dt.GoType())
		}
		if dt.Size() != c.size {
			t.Errorf("%s: Size %d", c.name, dt.Size())
		}
		must(t, dt.Close())
		sp := ds.Space()
		dims, maxdims, err := sp.SimpleExtentDims()
		must(t, err)
		if !reflect.DeepEqual(dims, []uint{2, 3}) || !reflect.DeepEqual(maxdims, []uint{2, 3}) {
			t.Errorf("%s: dims %v maxdims %v", c.name, dims, maxdims)
		}
		must(t, sp.Close())
		must(t, ds.Close())
	}
}

func TestBufferForms(t *testing.T) {
	fn := tmpFile(t, "forms.h5")
	f, err := CreateFile(fn, F_ACC_TRUNC)
	must(t, err)
	defer f.Close()
	ds := mkDataset(t, f, "d", float64(0), 2, 3)
	defer ds.Close()

	// slice by value
	must(t, ds.Write([]float64{1, 2, 3, 4, 5, 6}))
	got := make([]float64, 6)
	must(t, ds.Read(got)) // slice by value is writable
	if !reflect.DeepEqual(got, []float64{1, 2, 3, 4, 5, 6}) {
		t.Fatalf("got %v", got)
	}
	// pointer to (nested) array
	arr := [2][3]float64{{6, 5, 4}, {3, 2, 1}}
	must(t, ds.Write(&arr))
	var back [2][3]float64
	must(t, ds.Read(&back))
	if back != arr {
		t.Fatalf("got %v", back)
	}
	// array by value can be written from but not read into
	must(t, ds.Write(arr))
	wantErr(t, ds.Read(back), "read into non-addressable array")
	// named slice type goes through the reflect path
	type myslice []float64
	ms := make(myslice, 6)
	must(t, ds.Read(&ms))
	if ms[0] != 6 || ms[5] != 1 {
		t.Fatalf("got %v", ms)
	}
	// larger buffers are fine, shorter ones are an error and transfer nothing
	big := make([]float64, 10)
	must(t, ds.Read(&big))
	if big[5] != 1 || big[6] != 0 {
		t.Fatalf("got %v", big)
	}
	short := []float64{9, 9, 9, 9, 9}
	wantErr(t, ds.Read(&short), "short read buffer")
	if !reflect.DeepEqual(short, []float64{9, 9, 9, 9, 9}) {
		t.Fatalf("short buffer modified: %v", short)
	}
	wantErr(t, ds.Write(&short), "short write buffer")
	must(t, ds.Read(&got))
	if !reflect.DeepEqual(got, []float64{6, 5, 4, 3, 2, 1}) {
		t.Fatalf("dataset modified by failed write: %v", got)
	}
	// scalar dataset through pointer to scalar
	dt, _ := NewDatatypeFromValue(int32(0))
	ssp, err := CreateDataspace(S_SCALAR)
	must(t, err)
	sds, err := f.CreateDataset("scalar", dt, ssp)
	must(t, err)
	x := int32(42)
	must(t, sds.Write(&x))
	var y int32
	must(t, sds.Read(&y))
	if y != 42 {
		t.Fatalf("scalar got %d", y)
	}
	sds.Close()
	// unsupported buffers
	wantErr(t, ds.Read(nil), "nil buffer")
	wantErr(t, ds.Read(&[]string{"a"}), "string slice buffer")
	wantErr(t, ds.Read(&[][]float64{{1}}), "slice of slices buffer")
}

// ---------------------------------------------------------------------------

func TestHyperslab1D(t *testing.T) {
	fn := tmpFile(t, "hs1.h5")
	f, err := CreateFile(fn, F_ACC_TRUNC)
	must(t, err)
	defer f.Close()
	ds := mkDataset(t, f, "d", float64(0), 20)
	defer ds.Close()
	all := arange(20)
	must(t, ds.Write(&all))

	fsp := ds.Space()
	defer fsp.Close()
	// offset 2, stride 3, count 4, block 2 -> 2,3, 5,6, 8,9, 11,12
	must(t, fsp.SelectHyperslab([]uint{2}, []uint{3}, []uint{4}, []uint{2}))
	if n := fsp.SelectedPoints(); n != 8 {
		t.Fatalf("selected %d", n)
	}
	msp, err := CreateSimpleDataspace([]uint{8}, []uint{8})
	must(t, err)
	defer msp.Close()
	got := make([]float64, 8)
	must(t, ds.ReadSubset(&got, msp, fsp))
	if !reflect.DeepEqual(got, []float64{2, 3, 5, 6, 8, 9, 11, 12}) {
		t.Fatalf("got %v", got)
	}

	// nil stride and block mean 1
	must(t, fsp.SelectHyperslab([]uint{17}, nil, []uint{3}, nil))
	msp3, _ := CreateSimpleDataspace([]uint{3}, nil)
	got = make([]float64, 3)
	must(t, ds.ReadSubset(&got, msp3, fsp))
	if !reflect.DeepEqual(got, []float64{17, 18, 19}) {
		t.Fatalf("got %v", got)
	}

	// selecting past the extent succeeds, transferring through it fails and
	// transfers nothing
	must(t, fsp.SelectHyperslab([]uint{18}, nil, []uint{3}, nil))
	got = []float64{-1, -1, -1}
	wantErr(t, ds.ReadSubset(&got, msp3, fsp), "read outside the extent")
	if !reflect.DeepEqual(got, []float64{-1, -1, -1}) {
		t.Fatalf("buffer modified by failed read: %v", got)
	}
	wantErr(t, ds.WriteSubset(&got, msp3, fsp), "write outside the extent")
	must(t, fsp.SelectHyperslab([]uint{2}, []uint{9}, []uint{3}, []uint{1})) // 2, 11, 20
	wantErr(t, ds.ReadSubset(&got, msp3, fsp), "strided read outside the extent")
	must(t, fsp.SelectHyperslab([]uint{2}, []uint{9}, []uint{3}, []uint{0})) // block 0 => nothing
	if n := fsp.SelectedPoints(); n != 0 {
		t.Fatalf("selected %d", n)
	}
	check := make([]float64, 20)
	must(t, ds.Read(&check))
	if !reflect.DeepEqual(check, all) {
		t.Fatalf("dataset modified by failed writes: %v", check)
	}

	// element count mismatch between memory and file selections
	must(t, fsp.SelectHyperslab([]uint{0}, nil, []uint{4}, nil))
	got4 := make([]float64, 4)
	wantErr(t, ds.ReadSubset(&got4, msp3, fsp), "count mismatch")
	wantErr(t, ds.WriteSubset(&got4, msp3, fsp), "count mismatch")

	// overlapping blocks: stride < block is an error only if count > 1
	wantErr(t, fsp.SelectHyperslab([]uint{0}, []uint{1}, []uint{2}, []uint{2}), "overlapping blocks")
	must(t, fsp.SelectHyperslab([]uint{3}, []uint{1}, []uint{1}, []uint{4})) // one block 3..6
	msp4, _ := CreateSimpleDataspace([]uint{4}, nil)
	must(t, ds.ReadSubset(&got4, msp4, fsp))
	if !reflect.DeepEqual(got4, []float64{3, 4, 5, 6}) {
		t.Fatalf("got %v", got4)
	}
	// a failed SelectHyperslab leaves the previous selection in place
	wantErr(t, fsp.SelectHyperslab([]uint{0}, []uint{0}, []uint{2}, nil), "zero stride")
	must(t, ds.ReadSubset(&got4, msp4, fsp))
	if !reflect.DeepEqual(got4, []float64{3, 4, 5, 6}) {
		t.Fatalf("got %v", got4)
	}
	// rank mismatch
	wantErr(t, fsp.SelectHyperslab([]uint{0, 0}, nil, []uint{1, 1}, nil), "rank mismatch")

	// zero count selects nothing; matches an empty memory space
	must(t, fsp.SelectHyperslab([]uint{0}, []uint{2}, []uint{0}, []uint{1}))
	msp0, err := CreateSimpleDataspace([]uint{0}, []uint{0})
	must(t, err)
	empty := []float64{}
	must(t, ds.ReadSubset(&empty, msp0, fsp))
	wantErr(t, ds.ReadSubset(&got4, msp4, fsp), "4 memory elements vs none in file")

	// memory buffer smaller than the memory dataspace's extent
	must(t, fsp.SelectHyperslab([]uint{0}, nil, []uint{4}, nil))
	short := make([]float64, 3)
	wantErr(t, ds.ReadSubset(&short, msp4, fsp), "buffer smaller than memspace")
	wantErr(t, ds.WriteSubset(&short, msp4, fsp), "buffer smaller than memspace")

	// memory side hyperslab: scatter 3 file elements into every other slot
	must(t, fsp.SelectHyperslab([]uint{10}, nil, []uint{3}, nil))
	msp8, _ := CreateSimpleDataspace([]uint{8}, nil)
	must(t, msp8.SelectHyperslab([]uint{1}, []uint{2}, []uint{3}, nil))
	buf := []float64{-1, -1, -1, -1, -1, -1, -1, -1}
	must(t, ds.ReadSubset(&buf, msp8, fsp))
	if !reflect.DeepEqual(buf, []float64{-1, 10, -1, 11, -1, 12, -1, -1}) {
		t.Fatalf("got %v", buf)
	}
	// and gather on write
	src := []float64{100, 101, 102, 103, 104, 105, 106, 107}
	must(t, ds.WriteSubset(&src, msp8, fsp)) // mem 1,3,5 -> file 10,11,12
	must(t, ds.Read(&check))
	if check[9] != 9 || check[10] != 101 || check[11] != 103 || check[12] != 105 || check[13] != 13 {
		t.Fatalf("got %v", check)
	}

	// nil memspace with a file selection is H5S_ALL: the file dataspace AND
	// its selection describe the memory buffer too
	full := make([]float64, 20)
	for i := range full {
		full[i] = -1
	}
	must(t, fsp.SelectHyperslab([]uint{4}, []uint{5}, []uint{3}, nil)) // 4, 9, 14
	must(t, ds.ReadSubset(&full, nil, fsp))
	for i, v := range full {
		want := -1.0
		if i == 4 || i == 9 || i == 14 {
			want = check[i]
		}
		if v != want {
			t.Fatalf("H5S_ALL memspace: full[%d] = %v, want %v", i, v, want)
		}
	}
	wantErr(t, ds.ReadSubset(&got4, nil, fsp), "H5S_ALL memspace needs a dataset sized buffer")

	// nil filespace with a memspace: whole dataset
	msp20, _ := CreateSimpleDataspace([]uint{20}, nil)
	must(t, ds.ReadSubset(&full, msp20, nil))
	if !reflect.DeepEqual(full, check) {
		t.Fatalf("got %v", full)
	}
	wantErr(t, ds.ReadSubset(&full, msp4, nil), "4 memory elements vs whole dataset")

	// a filespace that is not of the dataset's extent is refused
	wantErr(t, ds.ReadSubset(&got4, msp4, msp4), "foreign file dataspace")

	// Space() hands out independent copies with everything selected
	other := ds.Space()
	if n := other.SelectedPoints(); n != 20 {
		t.Fatalf("fresh Space() selects %d", n)
	}
	other.Close()
}

func TestHyperslabND(t *testing.T) {
	fn := tmpFile(t, "hs3.h5")
	f, err := CreateFile(fn, F_ACC_TRUNC)
	must(t, err)
	defer f.Close()
	ds := mkDataset(t, f, "d", int32(0), 5, 10, 4)
	defer ds.Close()
	all := make([]int32, 200)
	for i := range all {
		all[i] = int32(i)
	}
	must(t, ds.Write(&all))

	fsp := ds.Space()
	// [:, 2:6, 1:3]
	must(t, fsp.SelectHyperslab([]uint{0, 2, 1}, []uint{1, 1, 1}, []uint{5, 4, 2}, []uint{1, 1, 1}))
	msp, _ := CreateSimpleDataspace([]uint{5, 4, 2}, []uint{5, 4, 2})
	got := make([]int32, 40)
	must(t, ds.ReadSubset(&got, msp, fsp))
	at := func(i, j, k int) int32 { return got[(i*4+j)*2+k] }
	if at(1, 3, 0) != 61 || at(3, 1, 1) != 134 || at(0, 0, 0) != 9 {
		t.Fatalf("got %v", got)
	}
	// strided with blocks in two dimensions: rows {0,1,3,4} x cols {1,5,9} x k {3}
	must(t, fsp.SelectHyperslab([]uint{0, 1, 3}, []uint{3, 4, 1}, []uint{2, 3, 1}, []uint{2, 1, 1}))
	if n := fsp.SelectedPoints(); n != 12 {
		t.Fatalf("selected %d", n)
	}
	msp12, _ := CreateSimpleDataspace([]uint{12}, nil)
	got = make([]int32, 12)
	must(t, ds.ReadSubset(&got, msp12, fsp))
	var want []int32
	for _, i := range []int{0, 1, 3, 4} {
		for _, j := range []int{1, 5, 9} {
			want = append(want, int32((i*10+j)*4+3))
		}
	}
	if !reflect.DeepEqual(got, want) {
		t.Fatalf("got %v want %v", got, want)
	}
	// partial write of a column, as openwater-core's WriteSlice does:
	// stride 1, count 1, block = shape
	must(t, fsp.SelectHyperslab([]uint{0, 7, 2}, []uint{1, 1, 1}, []uint{1, 1, 1}, []uint{5, 1, 1}))
	mcol, _ := CreateSimpleDataspace([]uint{5, 1, 1}, []uint{5, 1, 1})
	col := []int32{-1, -2, -3, -4, -5}
	must(t, ds.WriteSubset(&col, mcol, fsp))
	must(t, ds.Read(&all))
	for i := 0; i < 5; i++ {
		if all[(i*10+7)*4+2] != int32(-1-i) {
			t.Fatalf("column element %d = %d", i, all[(i*10+7)*4+2])
		}
	}
	if all[(0*10+7)*4+1] != int32((0*10+7)*4+1) {
		t.Fatalf("neighbour clobbered")
	}
	// zero-extent datasets
	z := mkDataset(t, f, "zero", float64(0), 0, 3)
	zsp := z.Space()
	dims, _, _ := zsp.SimpleExtentDims()
	if !reflect.DeepEqual(dims, []uint{0, 3}) {
		t.Fatalf("dims %v", dims)
	}
	e := []float64{}
	must(t, z.Read(&e))
	must(t, z.Write(&e))
	must(t, zsp.SelectHyperslab([]uint{0, 0}, nil, []uint{1, 1}, nil))
	one := []float64{1}
	m1, _ := CreateSimpleDataspace([]uint{1, 1}, nil)
	wantErr(t, z.ReadSubset(&one, m1, zsp), "selection in an empty extent")
}

// ---------------------------------------------------------------------------

func TestStrings(t *testing.T) {
	fn := tmpFile(t, "str.h5")
	f, err := CreateFile(fn, F_ACC_TRUNC)
	must(t, err)
	g, err := f.CreateGroup("META")
	must(t, err)
	vals := []string{"one string", "two strings", "three strings", "four"}
	must(t, CreateFixedStringDataset(g, "models", vals, 0))
	wantErr(t, CreateFixedStringDataset(g, "models", vals, 0), "existing name")
	wantErr(t, CreateFixedStringDataset(g, "narrow", vals, 4), "value wider than width")
	must(t, CreateFixedStringDatasetInFile(f, "top", []string{"a", "bc"}, 5))
	must(t, g.Close())
	must(t, f.Close())
	forgetAll()

	f, err = OpenFile(fn, F_ACC_RDONLY)
	must(t, err)
	defer f.Close()
	ds, err := f.OpenDataset("/META/models")
	must(t, err)
	defer ds.Close()
	dt, err := ds.Datatype()
	must(t, err)
	if dt.GoType() != reflect.TypeOf("a string") {
		t.Fatalf("GoType %v", dt.GoType())
	}
	if dt.Size() != 13 || dt.Class() != T_STRING {
		t.Fatalf("Size %d Class %v", dt.Size(), dt.Class())
	}
	sp := ds.Space()
	dims, _, err := sp.SimpleExtentDims()
	must(t, err)
	if !reflect.DeepEqual(dims, []uint{4}) {
		t.Fatalf("dims %v", dims)
	}
	chars := make([]byte, 4*13)
	must(t, ds.Read(&chars))
	want := "one string\x00\x00\x00" + "two strings\x00\x00" + "three strings" + "four" + strings.Repeat("\x00", 9)
	if string(chars) != want {
		t.Fatalf("got %q", chars)
	}
	wantErr(t, ds.Read(&[]byte{0, 0, 0}), "byte buffer too short")
	for _, mode := range []TransferMode{TransferConvert, TransferNative} {
		SetTransferMode(mode)
		chars = make([]byte, 4*13)
		must(t, ds.Read(&chars))
		if string(chars) != want {
			t.Fatalf("mode %d: got %q", mode, chars)
		}
	}
	SetTransferMode(TransferConvert)
	wantErr(t, ds.Read(&[]float64{0, 0, 0, 0, 0, 0, 0, 0, 0, 0, 0, 0, 0}), "string into float64 in convert mode")
	SetTransferMode(TransferNative)

	top, err := f.OpenDataset("top")
	must(t, err)
	b := make([]byte, 10)
	must(t, top.Read(&b))
	if string(b) != "a\x00\x00\x00\x00bc\x00\x00\x00" {
		t.Fatalf("got %q", b)
	}
	top.Close()

	// the real API's way: CreateDatatype(T_STRING, n) + raw bytes
	f2, err := CreateFile(tmpFile(t, "str2.h5"), F_ACC_TRUNC)
	must(t, err)
	defer f2.Close()
	sdt, err := CreateDatatype(T_STRING, 3)
	must(t, err)
	ssp, _ := CreateSimpleDataspace([]uint{2}, nil)
	sds, err := f2.CreateDataset("s", sdt, ssp)
	must(t, err)
	must(t, sds.Write(&[]byte{'a', 'b', 0, 'x', 'y', 'z'}))
	must(t, sds.Write("ab\x00xyz")) // a Go string is a valid source buffer
	info, err := Dump(f2.FileName())
	must(t, err)
	if !reflect.DeepEqual(info["/s"].Strings, []string{"ab", "xyz"}) || info["/s"].Width != 3 || info["/s"].Kind != "string" {
		t.Fatalf("dump %+v", info["/s"])
	}
	// variable-length strings cannot be stored
	vdt, err := NewDatatypeFromValue("")
	must(t, err)
	_, err = f2.CreateDataset("v", vdt, ssp)
	wantErr(t, err, "variable-length string dataset")
}

// ---------------------------------------------------------------------------

func TestTreeAndErrors(t *testing.T) {
	dir := t.TempDir()
	fn := filepath.Join(dir, "tree.h5")

	_, err := OpenFile(fn, F_ACC_RDONLY)
	wantErr(t, err, "open missing file")
	_, err = OpenFile(fn, F_ACC_RDWR)
	wantErr(t, err, "open missing file rdwr")
	junk := filepath.Join(dir, "junk.h5")
	must(t, os.WriteFile(junk, []byte("\x89HDF\r\n\x1a\n this is not a fake file"), 0644))
	_, err = OpenFile(junk, F_ACC_RDONLY)
	wantErr(t, err, "open non-fake file")
	if IsHDF5(junk) {
		t.Fatalf("IsHDF5(junk)")
	}
	_, err = OpenFile(dir, F_ACC_RDONLY)
	wantErr(t, err, "open directory")

	f, err := CreateFile(fn, F_ACC_TRUNC)
	must(t, err)
	if !IsHDF5(fn) {
		t.Fatalf("file not on disk right after CreateFile")
	}
	if f.FileName() != fn {
		t.Fatalf("FileName %q", f.FileName())
	}
	a, err := f.CreateGroup("a")
	must(t, err)
	b, err := a.CreateGroup("b")
	must(t, err)
	_, err = f.CreateGroup("a")
	wantErr(t, err, "CreateGroup existing")
	_, err = f.CreateGroup("/a/b")
	wantErr(t, err, "CreateGroup existing (path)")
	_, err = f.CreateGroup("x/y")
	wantErr(t, err, "CreateGroup with missing intermediate group")
	c, err := f.CreateGroup("a/b/c") // existing intermediates are fine
	must(t, err)
	if c.Name() != "/a/b/c" {
		t.Fatalf("Name %q", c.Name())
	}

	dt, _ := NewDataTypeFromType(reflect.TypeOf(float64(0)))
	sp, _ := CreateSimpleDataspace([]uint{3}, nil)
	d1, err := b.CreateDataset("data", dt, sp)
	must(t, err)
	_, err = b.CreateDataset("data", dt, sp)
	wantErr(t, err, "CreateDataset existing")
	_, err = a.CreateDataset("b", dt, sp)
	wantErr(t, err, "CreateDataset over a group")
	_, err = b.CreateGroup("data")
	wantErr(t, err, "CreateGroup over a dataset")
	d2, err := a.CreateDataset("zz", dt, sp)
	must(t, err)
	d3, err := a.CreateDataset("/top", dt, sp) // absolute: relative to the file root
	must(t, err)

	// path forms
	for _, p := range []string{"/a/b/data", "a/b/data", "a//b/data/", "./a/b/data"} {
		ds, err := f.OpenDataset(p)
		if err != nil {
			t.Fatalf("OpenDataset(%q): %v", p, err)
		}
		ds.Close()
	}
	ds, err := a.OpenDataset("b/data")
	must(t, err)
	ds.Close()
	ds, err = b.OpenDataset("/a/zz")
	must(t, err)
	ds.Close()
	root, err := f.OpenGroup("/")
	must(t, err)
	g2, err := root.OpenGroup("a/b")
	must(t, err)
	g2.Close()
	_, err = f.OpenDataset("a/b")
	wantErr(t, err, "OpenDataset on a group")
	_, err = f.OpenGroup("a/b/data")
	wantErr(t, err, "OpenGroup on a dataset")
	_, err = f.OpenDataset("a/b/nope")
	wantErr(t, err, "OpenDataset missing")
	_, err = f.OpenGroup("nope")
	wantErr(t, err, "OpenGroup missing")
	_, err = f.OpenDataset("a/b/data/x")
	wantErr(t, err, "path through a dataset")
	_, err = f.OpenDataset("")
	wantErr(t, err, "empty name")
	if !f.LinkExists("a/b/data") || f.LinkExists("a/q") {
		t.Fatalf("LinkExists")
	}

	// iteration: name order, types
	n, err := a.NumObjects()
	must(t, err)
	if n != 2 {
		t.Fatalf("NumObjects %d", n)
	}
	n0, _ := a.ObjectNameByIndex(0)
	n1, _ := a.ObjectNameByIndex(1)
	t0, _ := a.ObjectTypeByIndex(0)
	t1, _ := a.ObjectTypeByIndex(1)
	if n0 != "b" || n1 != "zz" || t0 != H5G_GROUP || t1 != H5G_DATASET {
		t.Fatalf("iteration: %s %v, %s %v", n0, t0, n1, t1)
	}
	_, err = a.ObjectNameByIndex(2)
	wantErr(t, err, "index out of range")
	_, err = a.ObjectTypeByIndex(2)
	wantErr(t, err, "index out of range")
	rn, _ := f.NumObjects()
	if rn != 2 { // "a" and "top"
		t.Fatalf("root NumObjects %d", rn)
	}

	// filters need chunking, as in libhdf5
	dcpl, err := NewPropList(P_DATASET_CREATE)
	must(t, err)
	must(t, dcpl.SetDeflate(DefaultCompression))
	_, err = a.CreateDatasetWith("packed", dt, sp, dcpl)
	wantErr(t, err, "deflate without chunked layout")
	must(t, dcpl.SetChunk([]uint{2}))
	pk, err := a.CreateDatasetWith("packed", dt, sp, dcpl)
	must(t, err)
	pk.Close()
	must(t, dcpl.Close())
	// extendible needs chunking
	esp, _ := CreateSimpleDataspace([]uint{3}, []uint{10})
	_, err = a.CreateDataset("ext", dt, esp)
	wantErr(t, err, "maxdims > dims without chunked layout")

	for _, h := range []interface{ Close() error }{d1, d2, d3, root, a, b, c, dt, sp, esp} {
		must(t, h.Close())
	}
	must(t, f.Close())

	// read-only handles refuse mutation
	ro, err := OpenFile(fn, F_ACC_RDONLY)
	must(t, err)
	_, err = ro.CreateGroup("newgroup")
	wantErr(t, err, "CreateGroup through read-only handle")
	rds, err := ro.OpenDataset("a/b/data")
	must(t, err)
	wantErr(t, rds.Write(&[]float64{1, 2, 3}), "Write through read-only handle")
	v := make([]float64, 3)
	must(t, rds.Read(&v))
	// truncating an open file fails, like libhdf5
	_, err = CreateFile(fn, F_ACC_TRUNC)
	wantErr(t, err, "truncate an open file")
	must(t, rds.Close())
	must(t, ro.Close())

	_, err = CreateFile(fn, F_ACC_EXCL)
	wantErr(t, err, "EXCL on existing file")
	f, err = CreateFile(fn, F_ACC_TRUNC)
	must(t, err)
	if n, _ := f.NumObjects(); n != 0 {
		t.Fatalf("TRUNC left %d objects", n)
	}
	must(t, f.Close())
	forgetAll()
	groups, err := Groups(fn)
	must(t, err)
	if !reflect.DeepEqual(groups, []string{"/"}) {
		t.Fatalf("groups after TRUNC: %v", groups)
	}
}

func TestHandleHygiene(t *testing.T) {
	fn := tmpFile(t, "hyg.h5")
	f, err := CreateFile(fn, F_ACC_TRUNC)
	must(t, err)
	g, err := f.CreateGroup("g")
	must(t, err)
	ds := mkDataset(t, f, "d", float64(0), 3)
	sp := ds.Space()
	dt, err := ds.Datatype()
	must(t, err)
	pl, err := NewPropList(P_DATASET_CREATE)
	must(t, err)

	must(t, sp.Close())
	wantErr(t, sp.Close(), "dataspace closed twice")
	_, _, err = sp.SimpleExtentDims()
	wantErr(t, err, "closed dataspace")
	wantErr(t, sp.SelectHyperslab([]uint{0}, nil, []uint{1}, nil), "closed dataspace")
	buf := make([]float64, 3)
	wantErr(t, ds.ReadSubset(&buf, nil, sp), "closed filespace")
	wantErr(t, ds.ReadSubset(&buf, sp, nil), "closed memspace")

	must(t, dt.Close())
	wantErr(t, dt.Close(), "datatype closed twice")
	if dt.GoType() != nil || dt.Size() != 0 {
		t.Fatalf("closed datatype still answers")
	}
	_, err = f.CreateDataset("e", dt, ds.Space())
	wantErr(t, err, "closed datatype")

	must(t, pl.Close())
	wantErr(t, pl.Close(), "proplist closed twice")
	wantErr(t, pl.SetDeflate(3), "closed proplist")
	wantErr(t, P_DEFAULT.Close(), "closing P_DEFAULT")
	wantErr(t, T_NATIVE_DOUBLE.Close(), "closing a predefined type")

	must(t, ds.Close())
	wantErr(t, ds.Close(), "dataset closed twice")
	wantErr(t, ds.Read(&buf), "closed dataset")
	wantErr(t, ds.Write(&buf), "closed dataset")
	if ds.Space() != nil {
		t.Fatalf("Space() of a closed dataset")
	}
	_, err = ds.Datatype()
	wantErr(t, err, "closed dataset")

	must(t, g.Close())
	wantErr(t, g.Close(), "group closed twice")
	_, err = g.NumObjects()
	wantErr(t, err, "closed group")
	_, err = g.CreateGroup("x")
	wantErr(t, err, "closed group")
	_, err = g.OpenDataset("x")
	wantErr(t, err, "closed group")

	// objects opened from a file stay usable after the file handle is closed
	g2, err := f.OpenGroup("g")
	must(t, err)
	must(t, f.Close())
	wantErr(t, f.Close(), "file closed twice")
	_, err = f.OpenGroup("g")
	wantErr(t, err, "closed file")
	_, err = f.OpenDataset("d")
	wantErr(t, err, "closed file")
	if f.FileName() != "" {
		t.Fatalf("FileName of closed file")
	}
	sub, err := g2.CreateGroup("late")
	must(t, err)
	must(t, sub.Close())
	must(t, g2.Close()) // last handle: flushes
	forgetAll()
	groups, err := Groups(fn)
	must(t, err)
	if !reflect.DeepEqual(groups, []string{"/", "/g", "/g/late"}) {
		t.Fatalf("groups %v", groups)
	}

	// zero-value handles yield errors, not panics
	var zs Dataspace
	wantErr(t, zs.Close(), "zero dataspace")
	var zd Dataset
	wantErr(t, zd.Read(&buf), "zero dataset")
	var zf File
	_, err = zf.OpenGroup("/")
	wantErr(t, err, "zero file")
}

// ---------------------------------------------------------------------------

func TestSharedStateBetweenHandles(t *testing.T) {
	fn := tmpFile(t, "shared.h5")
	w, err := CreateFile(fn, F_ACC_TRUNC)
	must(t, err)
	ds := mkDataset(t, w, "d", float64(0), 4)
	must(t, ds.Write(&[]float64{1, 2, 3, 4}))

	// a second handle in the same process sees the not-yet-flushed write
	r, err := OpenFile(fn, F_ACC_RDONLY)
	must(t, err)
	rds, err := r.OpenDataset("d")
	must(t, err)
	got := make([]float64, 4)
	must(t, rds.Read(&got))
	if !reflect.DeepEqual(got, []float64{1, 2, 3, 4}) {
		t.Fatalf("got %v", got)
	}
	must(t, ds.Write(&[]float64{5, 6, 7, 8}))
	must(t, rds.Read(&got))
	if !reflect.DeepEqual(got, []float64{5, 6, 7, 8}) {
		t.Fatalf("got %v", got)
	}
	// Flush makes it visible on disk without closing
	must(t, w.Flush(F_SCOPE_GLOBAL))
	raw, err := os.ReadFile(fn)
	must(t, err)
	other, err := decodeFile(fn, raw)
	must(t, err)
	if other.root.children["d"] == nil {
		t.Fatalf("flush did not persist the dataset")
	}
	for _, h := range []interface{ Close() error }{rds, r, ds, w} {
		must(t, h.Close())
	}
}

// TestHelperProcess is not a test: it is the body of the child processes
// spawned by the multi-process tests.
func TestHelperProcess(t *testing.T) {
	fn := os.Getenv("FAKEHDF5_HELPER_FILE")
	if fn == "" {
		t.Skip("helper process only")
	}
	switch os.Getenv("FAKEHDF5_HELPER_MODE") {
	case "create":
		f, err := CreateFile(fn, F_ACC_TRUNC)
		must(t, err)
		g, err := f.CreateGroup("child")
		must(t, err)
		dt, _ := NewDatatypeFromValue(int32(0))
		sp, _ := CreateSimpleDataspace([]uint{2, 2}, nil)
		ds, err := g.CreateDataset("data", dt, sp)
		must(t, err)
		must(t, ds.Write(&[]int32{1, 2, 3, 4}))
		must(t, ds.Close())
		must(t, g.Close())
		must(t, f.Close())
	case "modify":
		f, err := OpenFile(fn, F_ACC_RDWR)
		must(t, err)
		ds, err := f.OpenDataset("/child/data")
		must(t, err)
		v := make([]int32, 4)
		must(t, ds.Read(&v))
		for i := range v {
			v[i] *= 10
		}
		must(t, ds.Write(&v))
		must(t, ds.Close())
		must(t, f.Close())
	default:
		t.Fatalf("unknown helper mode")
	}
}

func runHelper(t *testing.T, fn, mode string, extraEnv ...string) {
	t.Helper()
	cmd := exec.Command(os.Args[0], "-test.run=^TestHelperProcess$")
	cmd.Env = append(os.Environ(), "FAKEHDF5_HELPER_FILE="+fn, "FAKEHDF5_HELPER_MODE="+mode)
	cmd.Env = append(cmd.Env, extraEnv...)
	out, err := cmd.CombinedOutput()
	if err != nil {
		t.Fatalf("helper %s failed: %v\n%s", mode, err, out)
	}
}

func TestMultiProcessPersistence(t *testing.T) {
	fn := tmpFile(t, "mp.h5")
	runHelper(t, fn, "create")

	f, err := OpenFile(fn, F_ACC_RDONLY)
	must(t, err)
	ds, err := f.OpenDataset("child/data")
	must(t, err)
	v := make([]int32, 4)
	must(t, ds.Read(&v))
	if !reflect.DeepEqual(v, []int32{1, 2, 3, 4}) {
		t.Fatalf("got %v", v)
	}
	must(t, ds.Close())
	must(t, f.Close())

	// Another process modifies the file while this process has it cached
	// (but not open): the next open must notice.
	runHelper(t, fn, "modify")
	f, err = OpenFile(fn, F_ACC_RDWR)
	must(t, err)
	ds, err = f.OpenDataset("child/data")
	must(t, err)
	must(t, ds.Read(&v))
	if !reflect.DeepEqual(v, []int32{10, 20, 30, 40}) {
		t.Fatalf("stale cache: got %v", v)
	}
	// and our own writes reach the other process
	must(t, ds.Write(&[]int32{5, 6, 7, 8}))
	must(t, ds.Close())
	must(t, f.Close())
	runHelper(t, fn, "modify")
	info, err := Dump(fn)
	must(t, err)
	if !reflect.DeepEqual(info["/child/data"].Float, []float64{50, 60, 70, 80}) {
		t.Fatalf("got %v", info["/child/data"].Float)
	}

	// a deleted file cannot be opened from the cache
	must(t, os.Remove(fn))
	_, err = OpenFile(fn, F_ACC_RDONLY)
	wantErr(t, err, "open deleted file")
	// no temporary files are left behind
	left, _ := filepath.Glob(filepath.Join(filepath.Dir(fn), "*"))
	if len(left) != 0 {
		t.Fatalf("left behind: %v", left)
	}
}

// ---------------------------------------------------------------------------

type collector struct {
	mu  sync.Mutex
	evs []Event
}

func (c *collector) add(e Event) {
	c.mu.Lock()
	c.evs = append(c.evs, e)
	c.mu.Unlock()
}

func (c *collector) events() []Event {
	c.mu.Lock()
	defer c.mu.Unlock()
	evs := append([]Event(nil), c.evs...)
	sort.Slice(evs, func(i, j int) bool { return evs[i].Seq < evs[j].Seq })
	return evs
}

func TestTracing(t *testing.T) {
	fn := tmpFile(t, "trace.h5")
	var c collector
	SetTracer(c.add)
	defer SetTracer(nil)

	DisplayErrors(false)
	f, err := CreateFile(fn, F_ACC_TRUNC)
	must(t, err)
	g, err := f.CreateGroup("G")
	must(t, err)
	dt, _ := NewDataTypeFromType(reflect.TypeOf(float64(0)))
	sp, _ := CreateSimpleDataspace([]uint{4}, nil)
	ds, err := g.CreateDataset("d", dt, sp)
	must(t, err)
	must(t, ds.Write(&[]float64{1, 2, 3, 4}))
	fsp := ds.Space()
	must(t, fsp.SelectHyperslab([]uint{1}, nil, []uint{2}, nil))
	msp, _ := CreateSimpleDataspace([]uint{2}, nil)
	must(t, ds.WriteSubset(&[]float64{8, 9}, msp, fsp))
	buf := make([]float64, 2)
	must(t, ds.ReadSubset(&buf, msp, fsp))
	must(t, CreateFixedStringDataset(g, "s", []string{"x"}, 2))
	_, err = g.OpenDataset("missing")
	wantErr(t, err, "missing dataset")
	for _, h := range []interface{ Close() error }{msp, fsp, ds, sp, dt, g, f} {
		must(t, h.Close())
	}
	r, err := OpenFile(fn, F_ACC_RDONLY)
	must(t, err)
	full := make([]float64, 4)
	rd, err := r.OpenDataset("/G/d")
	must(t, err)
	must(t, rd.Read(&full))
	rd.Close()
	r.Close()
	w, err := OpenFile(fn, F_ACC_RDWR)
	must(t, err)
	w.Close()
	SetTracer(nil)
	pl, _ := NewPropList(P_DATASET_CREATE) // not traced any more
	pl.Close()

	evs := c.events()
	if len(evs) == 0 || len(evs)%2 != 0 {
		t.Fatalf("%d events", len(evs))
	}
	me := goid()
	if me == 0 {
		t.Fatalf("goid() == 0")
	}
	type key struct{ call, class, file, path string }
	seen := map[key]int{}
	for i := 0; i < len(evs); i += 2 {
		en, ex := evs[i], evs[i+1]
		if en.Phase != "enter" || ex.Phase != "exit" || en.Call != ex.Call || en.Class != ex.Class ||
			en.File != ex.File || en.Path != ex.Path || ex.Seq != en.Seq+1 || en.Gid != me || ex.Gid != me || en.Err {
			t.Fatalf("bad pair %+v / %+v", en, ex)
		}
		if ex.Err != (en.Call == "Group.OpenDataset" && en.Path == "/G/missing") {
			t.Fatalf("unexpected Err in %+v", ex)
		}
		seen[key{en.Call, en.Class, en.File, en.Path}]++
	}
	for _, k := range []key{
		{"DisplayErrors", "config", "", ""},
		{"CreateFile", "write", fn, "/"},
		{"File.CreateGroup", "write", fn, "/G"},
		{"NewDataTypeFromType", "read", "", ""},
		{"CreateSimpleDataspace", "read", "", ""},
		{"Group.CreateDataset", "write", fn, "/G/d"},
		{"Dataset.Write", "write", fn, "/G/d"},
		{"Dataset.Space", "read", fn, "/G/d"},
		{"Dataspace.SelectHyperslab", "read", fn, "/G/d"},
		{"Dataset.WriteSubset", "write", fn, "/G/d"},
		{"Dataset.ReadSubset", "read", fn, "/G/d"},
		{"CreateFixedStringDataset", "write", fn, "/G/s"},
		{"Group.OpenDataset", "read", fn, "/G/missing"},
		{"Dataspace.Close", "read", "", ""},
		{"Dataspace.Close", "read", fn, "/G/d"},
		{"Datatype.Close", "read", "", ""},
		{"Dataset.Close", "read", fn, "/G/d"},
		{"Group.Close", "read", fn, "/G"},
		{"File.Close", "read", fn, "/"},
		{"OpenFile", "read", fn, "/"},
		{"File.OpenDataset", "read", fn, "/G/d"},
		{"Dataset.Read", "read", fn, "/G/d"},
		{"OpenFile", "write", fn, "/"},
	} {
		if seen[k] == 0 {
			t.Errorf("no event for %+v", k)
		}
	}
	for k := range seen {
		if k.call == "NewPropList" {
			t.Errorf("event after SetTracer(nil): %+v", k)
		}
	}
}

func TestDelayAndOverlapVisibleInTrace(t *testing.T) {
	fn := tmpFile(t, "delay.h5")
	must(t, WriteDataset(fn, "/d", "float64", []int{4}, []float64{1, 2, 3, 4}))
	var c collector
	SetTracer(c.add)
	SetDelay(100 * time.Millisecond)
	defer SetTracer(nil)
	defer SetDelay(0)

	start := time.Now()
	f, err := OpenFile(fn, F_ACC_RDONLY)
	must(t, err)
	if el := time.Since(start); el < 100*time.Millisecond {
		t.Fatalf("OpenFile took only %v", el)
	}
	ds, err := f.OpenDataset("d")
	must(t, err)

	// Two unsynchronised goroutines: the fake stays consistent and the
	// overlap shows up in the trace.  The internal mutex is not held across
	// the delay, so both calls take about one delay, not two.
	var wg sync.WaitGroup
	start = time.Now()
	for i := 0; i < 2; i++ {
		wg.Add(1)
		go func() {
			defer wg.Done()
			buf := make([]float64, 4)
			if err := ds.Read(&buf); err != nil || buf[3] != 4 {
				t.Errorf("concurrent read: %v %v", err, buf)
			}
		}()
	}
	wg.Wait()
	if el := time.Since(start); el > 190*time.Millisecond {
		t.Errorf("two concurrent delayed reads took %v: delays were serialised", el)
	}
	SetDelay(0)
	ds.Close()
	f.Close()

	var reads []Event
	for _, e := range c.events() {
		if e.Call == "Dataset.Read" {
			reads = append(reads, e)
		}
	}
	if len(reads) != 4 {
		t.Fatalf("%d Dataset.Read events", len(reads))
	}
	if !(reads[0].Phase == "enter" && reads[1].Phase == "enter" && reads[0].Gid != reads[1].Gid &&
		reads[2].Phase == "exit" && reads[3].Phase == "exit") {
		t.Fatalf("overlap not visible: %+v", reads)
	}
}

func TestEnvTraceFileInChildProcess(t *testing.T) {
	dir := t.TempDir()
	fn := filepath.Join(dir, "env.h5")
	trace := filepath.Join(dir, "trace.ndjson")
	runHelper(t, fn, "create", "FAKEHDF5_TRACE="+trace, "FAKEHDF5_DELAY_US=1000")
	runHelper(t, fn, "modify", "FAKEHDF5_TRACE="+trace) // appends

	fh, err := os.Open(trace)
	must(t, err)
	defer fh.Close()
	type rec struct {
		Event
		Pid int
		T   int64
	}
	var recs []rec
	sc := bufio.NewScanner(fh)
	for sc.Scan() {
		var r rec
		if err := json.Unmarshal(sc.Bytes(), &r); err != nil {
			t.Fatalf("bad ndjson line %q: %v", sc.Text(), err)
		}
		var plain Event // decoding into the bare Event works too
		must(t, json.Unmarshal(sc.Bytes(), &plain))
		if plain != r.Event {
			t.Fatalf("Event mismatch")
		}
		recs = append(recs, r)
	}
	pids := map[int]bool{}
	calls := map[string]bool{}
	for _, r := range recs {
		pids[r.Pid] = true
		calls[r.Call+"/"+r.Class+"/"+r.Phase] = true
		if r.Gid == 0 || r.Seq == 0 || r.T == 0 {
			t.Fatalf("incomplete record %+v", r)
		}
	}
	if len(pids) != 2 {
		t.Fatalf("expected records of 2 processes, got %v", pids)
	}
	for _, want := range []string{"CreateFile/write/enter", "CreateFile/write/exit", "Group.CreateDataset/write/exit",
		"Dataset.Write/write/enter", "OpenFile/write/enter", "Dataset.Read/read/exit", "File.Close/read/exit"} {
		if !calls[want] {
			t.Errorf("missing %s in trace file", want)
		}
	}
}

// ---------------------------------------------------------------------------

func TestDumpGroupsWriteDataset(t *testing.T) {
	fn := tmpFile(t, "author.h5")
	must(t, WriteDataset(fn, "/MODELS/Foo/inputs", "float64", []int{2, 3}, []float64{1, 2, 3, 4, 5, 6.5}))
	must(t, WriteDataset(fn, "/MODELS/Foo/batches", "int32", []int{3}, []float64{0, 2, 5}))
	must(t, WriteDataset(fn, "LINKS", "uint32", []int{0, 10}, nil))
	must(t, WriteDataset(fn, "/zeros", "float32", []int{2}, nil))
	must(t, WriteStringDataset(fn, "/META/models", []string{"Foo", "Barbaz"}, 0))
	must(t, MakeGroup(fn, "/DIMENSIONS/empty"))
	wantErr(t, WriteDataset(fn, "/bad", "float64", []int{2}, []float64{1}), "value count mismatch")
	wantErr(t, WriteDataset(fn, "/bad", "complex", []int{1}, nil), "unknown kind")
	wantErr(t, WriteDataset(fn, "/MODELS", "float64", []int{1}, nil), "dataset over group")
	wantErr(t, WriteDataset(fn, "/zeros/x", "float64", []int{1}, nil), "group under dataset")
	must(t, WriteDataset(fn, "/zeros", "float32", []int{3}, []float64{7, 8, 9})) // replace
	forgetAll()

	info, err := Dump(fn)
	must(t, err)
	want := map[string]DatasetInfo{
		"/MODELS/Foo/inputs":  {Kind: "float64", Shape: []int{2, 3}, Float: []float64{1, 2, 3, 4, 5, 6.5}},
		"/MODELS/Foo/batches": {Kind: "int32", Shape: []int{3}, Float: []float64{0, 2, 5}},
		"/LINKS":              {Kind: "uint32", Shape: []int{0, 10}, Float: []float64{}},
		"/zeros":              {Kind: "float32", Shape: []int{3}, Float: []float64{7, 8, 9}},
		"/META/models":        {Kind: "string", Shape: []int{2}, Strings: []string{"Foo", "Barbaz"}, Width: 6},
	}
	if !reflect.DeepEqual(info, want) {
		t.Fatalf("dump:\n got %+v\nwant %+v", info, want)
	}
	groups, err := Groups(fn)
	must(t, err)
	if !reflect.DeepEqual(groups, []string{"/", "/DIMENSIONS", "/DIMENSIONS/empty", "/META", "/MODELS", "/MODELS/Foo"}) {
		t.Fatalf("groups %v", groups)
	}
	_, err = Dump(filepath.Join(filepath.Dir(fn), "nope.h5"))
	wantErr(t, err, "dump of a missing file")

	// files authored this way are ordinary files for the API
	f, err := OpenFile(fn, F_ACC_RDONLY)
	must(t, err)
	ds, err := f.OpenDataset("/MODELS/Foo/batches")
	must(t, err)
	b := make([]int32, 3)
	must(t, ds.Read(&b))
	if !reflect.DeepEqual(b, []int32{0, 2, 5}) {
		t.Fatalf("got %v", b)
	}
	// Dump sees the live, unflushed state of a file open in this process
	ds.Close()
	f.Close()
	w, err := OpenFile(fn, F_ACC_RDWR)
	must(t, err)
	wds, err := w.OpenDataset("/MODELS/Foo/batches")
	must(t, err)
	must(t, wds.Write(&[]int32{9, 9, 9}))
	info, err = Dump(fn)
	must(t, err)
	if !reflect.DeepEqual(info["/MODELS/Foo/batches"].Float, []float64{9, 9, 9}) {
		t.Fatalf("got %v", info["/MODELS/Foo/batches"].Float)
	}
	wds.Close()
	w.Close()
}

// ---------------------------------------------------------------------------

func TestTransferModes(t *testing.T) {
	fn := tmpFile(t, "modes.h5")
	must(t, WriteDataset(fn, "/f32", "float32", []int{4}, []float64{1, 2, 3, 4}))
	must(t, WriteDataset(fn, "/i64", "int64", []int{2}, []float64{-1, 5}))
	must(t, WriteDataset(fn, "/f64", "float64", []int{2}, []float64{1.75, -3.99}))
	f, err := OpenFile(fn, F_ACC_RDWR)
	must(t, err)
	defer f.Close()
	f32, _ := f.OpenDataset("f32")
	i64, _ := f.OpenDataset("i64")
	f64, _ := f.OpenDataset("f64")
	defer SetTransferMode(TransferNative)

	// native (default, what the real binding does): no conversion, the
	// buffer is raw memory holding elements of the STORED type
	SetTransferMode(TransferNative)
	d := []float64{-1, -1, -1, -1}
	must(t, f32.Read(&d)) // 16 bytes land in the first two float64
	var raw [16]byte
	for i, v := range []float32{1, 2, 3, 4} {
		putUintN(raw[4*i:], 4, uint64(math.Float32bits(v)))
	}
	if d[0] != math.Float64frombits(getUintN(raw[0:], 8)) || d[1] != math.Float64frombits(getUintN(raw[8:], 8)) || d[2] != -1 {
		t.Fatalf("native reinterpretation: %v", d)
	}
	u := make([]uint64, 2)
	must(t, i64.Read(&u))
	if u[0] != math.MaxUint64 || u[1] != 5 {
		t.Fatalf("native int64->uint64: %v", u)
	}
	wantErr(t, f64.Read(&[]float32{0, 0}), "native: 16 bytes into an 8 byte buffer (libhdf5 would overrun)")
	ints := []int{0, 0} // Go int and int64 have the same representation
	must(t, i64.Read(&ints))
	if ints[0] != -1 || ints[1] != 5 {
		t.Fatalf("native int64->int: %v", ints)
	}

	// convert: ordinary Go numeric conversion
	SetTransferMode(TransferConvert)
	must(t, f32.Read(&d))
	if !reflect.DeepEqual(d, []float64{1, 2, 3, 4}) {
		t.Fatalf("convert f32->f64: %v", d)
	}
	i32 := make([]int32, 2)
	must(t, f64.Read(&i32))
	if i32[0] != 1 || i32[1] != -3 {
		t.Fatalf("convert f64->i32 truncates toward zero: %v", i32)
	}
	must(t, i64.Write(&[]float32{7.9, -2.5}))
	must(t, i64.Read(&ints))
	if ints[0] != 7 || ints[1] != -2 {
		t.Fatalf("convert f32->i64 on write: %v", ints)
	}
	wantErr(t, f32.Read(&[]float64{0, 0, 0}), "convert: short buffer")
	// conversion also applies to subsets
	fsp := f32.Space()
	must(t, fsp.SelectHyperslab([]uint{1}, []uint{2}, []uint{2}, nil))
	msp, _ := CreateSimpleDataspace([]uint{2}, nil)
	two := make([]int, 2)
	must(t, f32.ReadSubset(&two, msp, fsp))
	if two[0] != 2 || two[1] != 4 {
		t.Fatalf("convert subset: %v", two)
	}
}

func TestDatatypes(t *testing.T) {
	for _, v := range []interface{}{int8(0), int16(0), int32(0), int64(0), int(0), uint8(0), uint16(0), uint32(0), uint64(0), uint(0), float32(0), float64(0)} {
		dt, err := NewDatatypeFromValue(v)
		must(t, err)
		if dt.GoType() != reflect.TypeOf(v) || dt.Size() != uint(reflect.TypeOf(v).Size()) {
			t.Errorf("%T: GoType %v Size %d", v, dt.GoType(), dt.Size())
		}
		c, err := dt.Copy()
		must(t, err)
		if !c.Equal(dt) {
			t.Errorf("%T: copy not equal", v)
		}
		must(t, c.Close())
		must(t, dt.Close())
	}
	p := new(float64)
	dt, err := NewDatatypeFromValue(p)
	must(t, err)
	if dt.GoType() != reflect.TypeOf(float64(0)) || dt.Class() != T_FLOAT {
		t.Fatalf("pointer: %v", dt.GoType())
	}
	_, err = NewDatatypeFromValue(struct{ A int }{})
	wantErr(t, err, "struct type")
	_, err = NewDatatypeFromValue([]int{})
	wantErr(t, err, "slice type")
	_, err = NewDatatypeFromValue(nil)
	wantErr(t, err, "nil value")
	s, err := T_C_S1.Copy()
	must(t, err)
	must(t, s.SetSize(7))
	if s.Size() != 7 || s.GoType() != reflect.TypeOf("") {
		t.Fatalf("string type %d", s.Size())
	}
	wantErr(t, T_C_S1.SetSize(3), "modifying a predefined type")
	if T_NATIVE_INT.Equal(T_NATIVE_INT32) || !T_NATIVE_INT.Equal(T_NATIVE_INT64) {
		t.Fatalf("Equal")
	}
	if fmt.Sprint(H5G_GROUP, H5G_DATASET, FILE, DATASET) != "group dataset file dataset" {
		t.Fatalf("Stringers: %s", fmt.Sprint(H5G_GROUP, H5G_DATASET, FILE, DATASET))
	}
}

func TestDataspaceCreation(t *testing.T) {
	_, err := CreateSimpleDataspace([]uint{2, 3}, []uint{2})
	wantErr(t, err, "rank mismatch")
	_, err = CreateSimpleDataspace([]uint{2, 3}, []uint{2, 2})
	wantErr(t, err, "maxdims < dims")
	sp, err := CreateSimpleDataspace([]uint{2, 3}, []uint{2, ^uint(0)})
	must(t, err)
	dims, maxdims, _ := sp.SimpleExtentDims()
	if !reflect.DeepEqual(dims, []uint{2, 3}) || !reflect.DeepEqual(maxdims, []uint{2, ^uint(0)}) {
		t.Fatalf("%v %v", dims, maxdims)
	}
	if sp.SimpleExtentNDims() != 2 || sp.SimpleExtentNPoints() != 6 || sp.SimpleExtentType() != S_SIMPLE || !sp.IsSimple() {
		t.Fatalf("extent queries")
	}
	must(t, sp.SelectHyperslab([]uint{0, 1}, nil, []uint{2, 2}, nil))
	c, err := sp.Copy()
	must(t, err)
	must(t, sp.SelectAll())
	if c.SelectedPoints() != 4 || sp.SelectedPoints() != 6 {
		t.Fatalf("copy shares selection")
	}
	sc, err := CreateDataspace(S_SCALAR)
	must(t, err)
	if sc.SimpleExtentNDims() != 0 || sc.SimpleExtentNPoints() != 1 {
		t.Fatalf("scalar space")
	}
}

// TestConcurrentHammer runs under -race: unsynchronised callers must not be
// able to corrupt or crash the fake.
func TestConcurrentHammer(t *testing.T) {
	fn := tmpFile(t, "hammer.h5")
	must(t, WriteDataset(fn, "/d", "float64", []int{8, 8}, nil))
	var c collector
	SetTracer(c.add)
	defer SetTracer(nil)
	var wg sync.WaitGroup
	for w := 0; w < 8; w++ {
		wg.Add(1)
		go func(w int) {
			defer wg.Done()
			for it := 0; it < 25; it++ {
				f, err := OpenFile(fn, F_ACC_RDWR)
				if err != nil {
					t.Errorf("open: %v", err)
					return
				}
				ds, err := f.OpenDataset("/d")
				if err != nil {
					t.Errorf("open dataset: %v", err)
					return
				}
				fsp := ds.Space()
				fsp.SelectHyperslab([]uint{uint(w), 0}, nil, []uint{1, 8}, nil)
				msp, _ := CreateSimpleDataspace([]uint{1, 8}, nil)
				row := make([]float64, 8)
				for i := range row {
					row[i] = float64(w*100 + it)
				}
				if err := ds.WriteSubset(&row, msp, fsp); err != nil {
					t.Errorf("write: %v", err)
				}
				back := make([]float64, 8)
				if err := ds.ReadSubset(&back, msp, fsp); err != nil || back[7] != row[7] {
					t.Errorf("read back: %v %v", err, back)
				}
				f.CreateGroup(fmt.Sprintf("g%d_%d", w, it))
				msp.Close()
				fsp.Close()
				ds.Close()
				f.Close()
			}
		}(w)
	}
	wg.Wait()
	SetTracer(nil)
	forgetAll()
	info, err := Dump(fn)
	must(t, err)
	for w := 0; w < 8; w++ {
		if info["/d"].Float[w*8] != float64(w*100+24) {
			t.Fatalf("row %d = %v", w, info["/d"].Float[w*8])
		}
	}
	groups, _ := Groups(fn)
	if len(groups) != 1+8*25 {
		t.Fatalf("%d groups", len(groups))
	}
	evs := c.events()
	for i, e := range evs {
		if e.Seq != evs[0].Seq+uint64(i) {
			t.Fatalf("Seq not dense/unique at %d", i)
		}
	}
}
