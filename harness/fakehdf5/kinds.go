package hdf5

import (
	"encoding/binary"
	"fmt"
	"math"
	"reflect"
)

// kind enumerates the element types the fake can store.
type kind uint8

const (
	kInvalid kind = iota
	kInt8
	kInt16
	kInt32
	kInt64
	kInt // Go int, stored as 64 bit (see README: deviation from libhdf5's C int)
	kUint8
	kUint16
	kUint32
	kUint64
	kUint // Go uint, stored as 64 bit
	kFloat32
	kFloat64
	kString // fixed-length, NUL padded; width kept in dtype.size
)

const (
	clsSigned = iota
	clsUnsigned
	clsFloat
	clsString
)

type kindInfo struct {
	name   string
	size   int
	class  int
	goType reflect.Type
}

var kindTable = [...]kindInfo{
	kInvalid: {"invalid", 0, clsSigned, nil},
	kInt8:    {"int8", 1, clsSigned, reflect.TypeOf(int8(0))},
	kInt16:   {"int16", 2, clsSigned, reflect.TypeOf(int16(0))},
	kInt32:   {"int32", 4, clsSigned, reflect.TypeOf(int32(0))},
	kInt64:   {"int64", 8, clsSigned, reflect.TypeOf(int64(0))},
	kInt:     {"int", 8, clsSigned, reflect.TypeOf(int(0))},
	kUint8:   {"uint8", 1, clsUnsigned, reflect.TypeOf(uint8(0))},
	kUint16:  {"uint16", 2, clsUnsigned, reflect.TypeOf(uint16(0))},
	kUint32:  {"uint32", 4, clsUnsigned, reflect.TypeOf(uint32(0))},
	kUint64:  {"uint64", 8, clsUnsigned, reflect.TypeOf(uint64(0))},
	kUint:    {"uint", 8, clsUnsigned, reflect.TypeOf(uint(0))},
	kFloat32: {"float32", 4, clsFloat, reflect.TypeOf(float32(0))},
	kFloat64: {"float64", 8, clsFloat, reflect.TypeOf(float64(0))},
	kString:  {"string", 0, clsString, reflect.TypeOf("")},
}

func (k kind) info() *kindInfo { return &kindTable[k] }
func (k kind) String() string  { return kindTable[k].name }

func kindByName(name string) kind {
	for k := range kindTable {
		if k != int(kInvalid) && kindTable[k].name == name {
			return kind(k)
		}
	}
	return kInvalid
}

func kindFromReflect(rk reflect.Kind) kind {
	switch rk {
	case reflect.Int8:
		return kInt8
	case reflect.Int16:
		return kInt16
	case reflect.Int32:
		return kInt32
	case reflect.Int64:
		return kInt64
	case reflect.Int:
		return kInt
	case reflect.Uint8:
		return kUint8
	case reflect.Uint16:
		return kUint16
	case reflect.Uint32:
		return kUint32
	case reflect.Uint64:
		return kUint64
	case reflect.Uint:
		return kUint
	case reflect.Float32:
		return kFloat32
	case reflect.Float64:
		return kFloat64
	}
	return kInvalid
}

// dtype is the value behind a Datatype handle and the element type of a
// dataset.  size is the element size in bytes; for strings it is the fixed
// width, or variableSize for Go (variable-length) strings.
type dtype struct {
	k    kind
	size int
}

const variableSize = -1

func numericType(k kind) dtype { return dtype{k: k, size: k.info().size} }

func (t dtype) String() string {
	if t.k == kString {
		if t.size == variableSize {
			return "string(variable)"
		}
		return fmt.Sprintf("string(%d)", t.size)
	}
	return t.k.String()
}

// num is a decoded numeric element.
type num struct {
	class int
	i     int64
	u     uint64
	f     float64
}

func getUintN(b []byte, size int) uint64 {
	switch size {
	case 1:
		return uint64(b[0])
	case 2:
		return uint64(binary.LittleEndian.Uint16(b))
	case 4:
		return uint64(binary.LittleEndian.Uint32(b))
	default:
		return binary.LittleEndian.Uint64(b)
	}
}

func putUintN(b []byte, size int, v uint64) {
	switch size {
	case 1:
		b[0] = byte(v)
	case 2:
		binary.LittleEndian.PutUint16(b, uint16(v))
	case 4:
		binary.LittleEndian.PutUint32(b, uint32(v))
	default:
		binary.LittleEndian.PutUint64(b, v)
	}
}

// decodeNum reads one little-endian element of numeric kind k from b.
func decodeNum(k kind, b []byte) num {
	ki := k.info()
	raw := getUintN(b, ki.size)
	switch ki.class {
	case clsSigned:
		shift := uint(64 - 8*ki.size)
		return num{class: clsSigned, i: int64(raw<<shift) >> shift}
	case clsUnsigned:
		return num{class: clsUnsigned, u: raw}
	default:
		if ki.size == 4 {
			return num{class: clsFloat, f: float64(math.Float32frombits(uint32(raw)))}
		}
		return num{class: clsFloat, f: math.Float64frombits(raw)}
	}
}

// encodeNum stores v into b as numeric kind k, following ordinary Go
// conversion rules between numeric types.
func encodeNum(k kind, b []byte, v num) {
	ki := k.info()
	switch ki.class {
	case clsSigned:
		var x int64
		switch v.class {
		case clsSigned:
			x = v.i
		case clsUnsigned:
			x = int64(v.u)
		default:
			x = int64(v.f)
		}
		putUintN(b, ki.size, uint64(x))
	case clsUnsigned:
		var x uint64
		switch v.class {
		case clsSigned:
			x = uint64(v.i)
		case clsUnsigned:
			x = v.u
		default:
			x = uint64(v.f)
		}
		putUintN(b, ki.size, x)
	default:
		var x float64
		switch v.class {
		case clsSigned:
			x = float64(v.i)
		case clsUnsigned:
			x = float64(v.u)
		default:
			x = v.f
		}
		if ki.size == 4 {
			binary.LittleEndian.PutUint32(b, math.Float32bits(float32(x)))
		} else {
			binary.LittleEndian.PutUint64(b, math.Float64bits(x))
		}
	}
}

func (v num) asFloat64() float64 {
	switch v.class {
	case clsSigned:
		return float64(v.i)
	case clsUnsigned:
		return float64(v.u)
	default:
		return v.f
	}
}
