// Package hdf5 is a pure-Go stand-in ("fakehdf5") for gonum.org/v1/hdf5.
//
// It mirrors the exported names, signatures and documented semantics of the
// subset of the real cgo package that github.com/flowmatters/openwater-core
// uses, without needing libhdf5.  Files are persisted in a private format
// (see README.md), NOT in the genuine HDF5 format.
//
// Everything in ext.go and trace.go is an EXTENSION for the verification
// harness and is not part of the real gonum API.
package hdf5 // import "gonum.org/v1/hdf5"
