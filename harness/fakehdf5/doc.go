package hdf5
