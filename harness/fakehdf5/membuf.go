package hdf5

import (
	"encoding/binary"
	"fmt"
	"math"
	"reflect"
)

// membuf is a snapshot of a caller supplied Go buffer as the little-endian
// bytes a C library would see at its address, plus a way to copy modified
// bytes back.  No unsafe: the fake never touches memory beyond the Go value.
type membuf struct {
	k     kind   // element kind of the Go buffer
	n     int    // number of elements
	bytes []byte // n * k.size bytes
	store func(b []byte) error
}

func (m *membuf) writeBack() error {
	if m.store == nil {
		return fmt.Errorf("hdf5: destination buffer is not addressable (pass a slice or a pointer)")
	}
	return m.store(m.bytes)
}

// newMembuf interprets data the way the real package does
// (reflect.Indirect, then array / slice / string / pointer / scalar):
//
//	*[]T, []T      the slice elements
//	*[N]T, [N]T    the array elements (nested arrays are flattened)
//	*T, T          one element
//	string, *string  the bytes of the string (source only)
//	**T            one more indirection
//
// where T is a fixed-size integer or floating-point type.
func newMembuf(data interface{}) (*membuf, error) {
	if data == nil {
		return nil, fmt.Errorf("hdf5: nil data buffer")
	}
	v := reflect.ValueOf(data)
	if v.Kind() == reflect.Ptr {
		if v.IsNil() {
			return nil, fmt.Errorf("hdf5: nil data buffer pointer")
		}
		v = v.Elem()
	}
	if v.Kind() == reflect.Ptr { // pointer to pointer
		if v.IsNil() {
			return nil, fmt.Errorf("hdf5: nil data buffer pointer")
		}
		v = v.Elem()
	}
	if m := fastMembuf(v); m != nil {
		return m, nil
	}
	if v.Kind() == reflect.String {
		s := v.String()
		return &membuf{k: kUint8, n: len(s), bytes: []byte(s)}, nil
	}
	var leaves []reflect.Value
	var k kind
	settable := true
	var collect func(v reflect.Value) error
	collect = func(v reflect.Value) error {
		switch v.Kind() {
		case reflect.Array:
			for i := 0; i < v.Len(); i++ {
				if err := collect(v.Index(i)); err != nil {
					return err
				}
			}
			return nil
		case reflect.Slice, reflect.Ptr, reflect.Map, reflect.Chan, reflect.Func, reflect.Interface,
			reflect.Struct, reflect.String, reflect.Bool, reflect.Complex64, reflect.Complex128,
			reflect.Uintptr, reflect.UnsafePointer, reflect.Invalid:
			return fmt.Errorf("hdf5: unsupported data buffer element type %v", v.Type())
		}
		ek := kindFromReflect(v.Kind())
		if ek == kInvalid {
			return fmt.Errorf("hdf5: unsupported data buffer element type %v", v.Type())
		}
		if k != kInvalid && k != ek {
			return fmt.Errorf("hdf5: mixed element types in data buffer")
		}
		k = ek
		if !v.CanSet() {
			settable = false
		}
		leaves = append(leaves, v)
		return nil
	}
	switch v.Kind() {
	case reflect.Slice:
		et := v.Type().Elem()
		for et.Kind() == reflect.Array {
			et = et.Elem()
		}
		k = kindFromReflect(et.Kind())
		if k == kInvalid {
			return nil, fmt.Errorf("hdf5: unsupported data buffer element type %v", et)
		}
		for i := 0; i < v.Len(); i++ {
			if err := collect(v.Index(i)); err != nil {
				return nil, err
			}
		}
	default:
		if err := collect(v); err != nil {
			return nil, err
		}
		if k == kInvalid { // zero-length array
			et := v.Type()
			for et.Kind() == reflect.Array {
				et = et.Elem()
			}
			if k = kindFromReflect(et.Kind()); k == kInvalid {
				return nil, fmt.Errorf("hdf5: unsupported data buffer element type %v", et)
			}
		}
	}
	ki := k.info()
	m := &membuf{k: k, n: len(leaves), bytes: make([]byte, len(leaves)*ki.size)}
	for i, lv := range leaves {
		b := m.bytes[i*ki.size:]
		switch ki.class {
		case clsSigned:
			putUintN(b, ki.size, uint64(lv.Int()))
		case clsUnsigned:
			putUintN(b, ki.size, lv.Uint())
		default:
			if ki.size == 4 {
				binary.LittleEndian.PutUint32(b, math.Float32bits(float32(lv.Float())))
			} else {
				binary.LittleEndian.PutUint64(b, math.Float64bits(lv.Float()))
			}
		}
	}
	if settable {
		m.store = func(bytes []byte) error {
			for i, lv := range leaves {
				x := decodeNum(k, bytes[i*ki.size:])
				switch ki.class {
				case clsSigned:
					lv.SetInt(x.i)
				case clsUnsigned:
					lv.SetUint(x.u)
				default:
					lv.SetFloat(x.f)
				}
			}
			return nil
		}
	}
	return m, nil
}

// fastMembuf handles the common flat slices without per-element reflection.
func fastMembuf(v reflect.Value) *membuf {
	if v.Kind() != reflect.Slice || !v.CanInterface() {
		return nil
	}
	le := binary.LittleEndian
	switch s := v.Interface().(type) {
	case []float64:
		m := &membuf{k: kFloat64, n: len(s), bytes: make([]byte, 8*len(s))}
		for i, x := range s {
			le.PutUint64(m.bytes[8*i:], math.Float64bits(x))
		}
		m.store = func(b []byte) error {
			for i := range s {
				s[i] = math.Float64frombits(le.Uint64(b[8*i:]))
			}
			return nil
		}
		return m
	case []float32:
		m := &membuf{k: kFloat32, n: len(s), bytes: make([]byte, 4*len(s))}
		for i, x := range s {
			le.PutUint32(m.bytes[4*i:], math.Float32bits(x))
		}
		m.store = func(b []byte) error {
			for i := range s {
				s[i] = math.Float32frombits(le.Uint32(b[4*i:]))
			}
			return nil
		}
		return m
	case []int32:
		m := &membuf{k: kInt32, n: len(s), bytes: make([]byte, 4*len(s))}
		for i, x := range s {
			le.PutUint32(m.bytes[4*i:], uint32(x))
		}
		m.store = func(b []byte) error {
			for i := range s {
				s[i] = int32(le.Uint32(b[4*i:]))
			}
			return nil
		}
		return m
	case []uint32:
		m := &membuf{k: kUint32, n: len(s), bytes: make([]byte, 4*len(s))}
		for i, x := range s {
			le.PutUint32(m.bytes[4*i:], x)
		}
		m.store = func(b []byte) error {
			for i := range s {
				s[i] = le.Uint32(b[4*i:])
			}
			return nil
		}
		return m
	case []int64:
		m := &membuf{k: kInt64, n: len(s), bytes: make([]byte, 8*len(s))}
		for i, x := range s {
			le.PutUint64(m.bytes[8*i:], uint64(x))
		}
		m.store = func(b []byte) error {
			for i := range s {
				s[i] = int64(le.Uint64(b[8*i:]))
			}
			return nil
		}
		return m
	case []uint64:
		m := &membuf{k: kUint64, n: len(s), bytes: make([]byte, 8*len(s))}
		for i, x := range s {
			le.PutUint64(m.bytes[8*i:], x)
		}
		m.store = func(b []byte) error {
			for i := range s {
				s[i] = le.Uint64(b[8*i:])
			}
			return nil
		}
		return m
	case []int:
		m := &membuf{k: kInt, n: len(s), bytes: make([]byte, 8*len(s))}
		for i, x := range s {
			le.PutUint64(m.bytes[8*i:], uint64(x))
		}
		m.store = func(b []byte) error {
			for i := range s {
				s[i] = int(le.Uint64(b[8*i:]))
			}
			return nil
		}
		return m
	case []uint:
		m := &membuf{k: kUint, n: len(s), bytes: make([]byte, 8*len(s))}
		for i, x := range s {
			le.PutUint64(m.bytes[8*i:], uint64(x))
		}
		m.store = func(b []byte) error {
			for i := range s {
				s[i] = uint(le.Uint64(b[8*i:]))
			}
			return nil
		}
		return m
	case []byte:
		m := &membuf{k: kUint8, n: len(s), bytes: append([]byte{}, s...)}
		m.store = func(b []byte) error {
			copy(s, b)
			return nil
		}
		return m
	}
	return nil
}
