package hdf5

import (
	"fmt"
	"os"
)

// File constants
const (
	F_ACC_RDONLY  int = 0x0000 // absence of rdwr => rd-only
	F_ACC_RDWR    int = 0x0001 // open for read and write
	F_ACC_TRUNC   int = 0x0002 // Truncate file, if it already exists, erasing all data previously stored in the file.
	F_ACC_EXCL    int = 0x0004 // Fail if file already exists.
	F_ACC_DEBUG   int = 0x0008 // print debug info
	F_ACC_CREAT   int = 0x0010 // create non-existing files
	F_ACC_DEFAULT int = 0xffff // value passed to set_elink_acc_flags to cause flags to be taken from the parent file
)

// The difference between a single file and a set of mounted files.
type Scope int

const (
	F_SCOPE_LOCAL  Scope = 0 // specified file handle only.
	F_SCOPE_GLOBAL Scope = 1 // entire virtual file.
)

// a HDF5 file
type File struct {
	CommonFG
}

// newFileHandle creates a new handle on fs and counts it.  mu must be held.
func newFileHandle(fs *fileState, filename string, writable bool) *File {
	o := newObject(FILE)
	o.fs, o.n, o.filename, o.writable = fs, fs.root, filename, writable
	o.tfile, o.tpath = filename, "/"
	fs.open++
	return &File{CommonFG{Identifier{o}}}
}

// Creates an HDF5 file.
//
// flags must contain exactly one of F_ACC_TRUNC and F_ACC_EXCL.  As with
// libhdf5, truncating a file that is currently open in this process fails.
func CreateFile(name string, flags int) (*File, error) {
	var f *File
	err := traced(callInfo{"CreateFile", classWrite, name, "/"}, func() error {
		mu.Lock()
		defer mu.Unlock()
		trunc, excl := flags&F_ACC_TRUNC != 0, flags&F_ACC_EXCL != 0
		if trunc == excl {
			return fmt.Errorf("error creating hdf5 file: invalid flags %#x (need exactly one of F_ACC_TRUNC, F_ACC_EXCL)", flags)
		}
		abs, err := absPath(name)
		if err != nil {
			return fmt.Errorf("error creating hdf5 file: %s", err)
		}
		if st, err := os.Stat(abs); err == nil {
			if excl {
				return fmt.Errorf("error creating hdf5 file: %s already exists", name)
			}
			if st.IsDir() {
				return fmt.Errorf("error creating hdf5 file: %s is a directory", name)
			}
		}
		if old, ok := registry[abs]; ok && old.open > 0 {
			return fmt.Errorf("error creating hdf5 file: unable to truncate %s: it is already open", name)
		}
		fs := &fileState{abs: abs, root: newGroupNode("", nil)}
		if err := fs.flush(); err != nil {
			return fmt.Errorf("error creating hdf5 file: %s", err)
		}
		registry[abs] = fs
		f = newFileHandle(fs, name, true)
		return nil
	})
	if err != nil {
		return nil, err
	}
	return f, nil
}

// Open opens and returns an an existing HDF5 file. The returned
// file must be closed by the user when it is no longer needed.
func OpenFile(name string, flags int) (*File, error) {
	class := classRead
	if flags&F_ACC_RDWR != 0 {
		class = classWrite
	}
	var f *File
	err := traced(callInfo{"OpenFile", class, name, "/"}, func() error {
		mu.Lock()
		defer mu.Unlock()
		if flags&^F_ACC_RDWR != 0 {
			return fmt.Errorf("error opening hdf5 file: invalid flags %#x", flags)
		}
		abs, err := absPath(name)
		if err != nil {
			return fmt.Errorf("error opening hdf5 file: %s", err)
		}
		fs, err := acquire(abs)
		if err != nil {
			return fmt.Errorf("error opening hdf5 file: %s", err)
		}
		f = newFileHandle(fs, name, flags&F_ACC_RDWR != 0)
		return nil
	})
	if err != nil {
		return nil, err
	}
	return f, nil
}

// ReOpen returns a new identifier for a previously-opened HDF5 file.
// The returned file must be closed by the user when it is no longer needed.
func (f *File) ReOpen() (*File, error) {
	var nf *File
	err := traced(callInfo{"File.ReOpen", classRead, f.traceFile(), "/"}, func() error {
		mu.Lock()
		defer mu.Unlock()
		o, err := f.liveAs(FILE)
		if err != nil {
			return fmt.Errorf("error reopening hdf5 file: %s", err)
		}
		nf = newFileHandle(o.fs, o.filename, o.writable)
		return nil
	})
	if err != nil {
		return nil, err
	}
	return nf, nil
}

// IsHDF5 Determines whether a file is in the (fake) HDF5 format.
func IsHDF5(name string) bool {
	ok := false
	traced(callInfo{"IsHDF5", classRead, name, ""}, func() error {
		abs, err := absPath(name)
		if err != nil {
			return err
		}
		_, err = readHeaderGen(abs)
		ok = err == nil
		return err
	})
	return ok
}

// Close closes the file.  If the handle is writable, pending modifications
// are written to disk.
func (f *File) Close() error {
	return f.closeFileBound("File.Close", FILE)
}

// Flushes all buffers associated with a file to disk.
func (f *File) Flush(scope Scope) error {
	return traced(callInfo{"File.Flush", classRead, f.traceFile(), "/"}, func() error {
		mu.Lock()
		defer mu.Unlock()
		o, err := f.liveAs(FILE)
		if err != nil {
			return err
		}
		if o.fs.dirty {
			return o.fs.flush()
		}
		return nil
	})
}

// Retrieves name of file to which object belongs.
func (f *File) FileName() string {
	var name string
	traced(callInfo{"File.FileName", classRead, f.traceFile(), "/"}, func() error {
		mu.Lock()
		defer mu.Unlock()
		o, err := f.liveAs(FILE)
		if err != nil {
			return err
		}
		name = o.filename
		return nil
	})
	return name
}
