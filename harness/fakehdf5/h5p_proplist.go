package hdf5

import (
	"compress/zlib"
	"fmt"
)

const (
	NoCompression      = zlib.NoCompression
	BestSpeed          = zlib.BestSpeed
	BestCompression    = zlib.BestCompression
	DefaultCompression = zlib.DefaultCompression
)

// Used to unset chunk cache configuration parameter.
const (
	D_CHUNK_CACHE_NSLOTS_DEFAULT int     = -1 // The number of chunk slots in the raw data chunk cache for this dataset
	D_CHUNK_CACHE_NBYTES_DEFAULT int     = -1 // The total size of the raw data chunk cache for this dataset
	D_CHUNK_CACHE_W0_DEFAULT     float64 = -1 // The chunk preemption policy for this dataset
)

type PropType int64

type PropList struct {
	Identifier
}

type plistData struct {
	class   PropType
	chunk   []uint64
	deflate int
	// chunk cache (dataset access)
	nslots, nbytes int
	w0             float64
}

var (
	P_DEFAULT        *PropList = newPropList(0, true)
	P_DATASET_CREATE PropType  = 1 // Properties for dataset creation
	P_DATASET_ACCESS PropType  = 2 // Properties for dataset access
)

func newPropList(class PropType, permanent bool) *PropList {
	o := newObject(proplistType)
	o.pl = &plistData{class: class, deflate: noDeflate,
		nslots: D_CHUNK_CACHE_NSLOTS_DEFAULT, nbytes: D_CHUNK_CACHE_NBYTES_DEFAULT, w0: D_CHUNK_CACHE_W0_DEFAULT}
	o.permanent = permanent
	return &PropList{Identifier{o}}
}

// NewPropList creates a new PropList as an instance of a property list class.
// The returned proplist must be closed by the user when it is no longer needed.
func NewPropList(cls_id PropType) (*PropList, error) {
	var p *PropList
	err := traced(callInfo{"NewPropList", classRead, "", ""}, func() error {
		if cls_id != P_DATASET_CREATE && cls_id != P_DATASET_ACCESS {
			return fmt.Errorf("hdf5: unknown property list class %d", int64(cls_id))
		}
		p = newPropList(cls_id, false)
		return nil
	})
	if err != nil {
		return nil, err
	}
	return p, nil
}

// Close terminates access to a PropList.
func (p *PropList) Close() error {
	return p.closeSimple("PropList.Close", proplistType)
}

// modify runs fn on the property list data if p is a live, non-default list
// of class cls.
func (p *PropList) with(call string, cls PropType, fn func(pl *plistData) error) error {
	return traced(callInfo{call, classRead, "", ""}, func() error {
		mu.Lock()
		defer mu.Unlock()
		o, err := p.liveAs(proplistType)
		if err != nil {
			return err
		}
		if o.permanent {
			return fmt.Errorf("hdf5: can't modify or query the default property list this way")
		}
		if o.pl.class != cls {
			return fmt.Errorf("hdf5: property not found in this property list class")
		}
		return fn(o.pl)
	})
}

// SetChunk sets the size of the chunks used to store a chunked layout dataset.
func (p *PropList) SetChunk(dims []uint) error {
	if len(dims) <= 0 {
		return fmt.Errorf("number of dimensions must be same size as the rank of the dataset, but zero received")
	}
	return p.with("PropList.SetChunk", P_DATASET_CREATE, func(pl *plistData) error {
		chunk := make([]uint64, len(dims))
		for i, d := range dims {
			if d == 0 {
				return fmt.Errorf("hdf5: all chunk dimensions must be positive")
			}
			chunk[i] = uint64(d)
		}
		pl.chunk = chunk
		return nil
	})
}

// GetChunk retrieves the size of chunks for the raw data of a chunked layout dataset.
func (p *PropList) GetChunk(ndims int) (dims []uint, err error) {
	if ndims <= 0 {
		err = fmt.Errorf("number of dimensions must be same size as the rank of the dataset, but nonpositive value received")
		return
	}
	err = p.with("PropList.GetChunk", P_DATASET_CREATE, func(pl *plistData) error {
		if pl.chunk == nil {
			return fmt.Errorf("hdf5: not a chunked storage layout")
		}
		dims = make([]uint, ndims)
		for i := 0; i < ndims && i < len(pl.chunk); i++ {
			dims[i] = uint(pl.chunk[i])
		}
		return nil
	})
	return
}

// SetDeflate sets deflate (GNU gzip) compression method and compression level.
// If level is set as DefaultCompression, 6 will be used.
//
// The fake records the level but never compresses.  As with libhdf5, creating
// a dataset with a filter but without a chunked layout (SetChunk) fails.
func (p *PropList) SetDeflate(level int) error {
	if level == DefaultCompression {
		level = 6
	}
	return p.with("PropList.SetDeflate", P_DATASET_CREATE, func(pl *plistData) error {
		if level < 0 || level > 9 {
			return fmt.Errorf("hdf5: invalid deflate level %d", level)
		}
		pl.deflate = level
		return nil
	})
}

// SetChunkCache sets the raw data chunk cache parameters.
func (p *PropList) SetChunkCache(nslots, nbytes int, w0 float64) error {
	return p.with("PropList.SetChunkCache", P_DATASET_ACCESS, func(pl *plistData) error {
		pl.nslots, pl.nbytes, pl.w0 = nslots, nbytes, w0
		return nil
	})
}

// GetChunkCache retrieves the number of chunk slots in the raw data chunk cache hash table.
func (p *PropList) GetChunkCache() (nslots, nbytes int, w0 float64, err error) {
	err = p.with("PropList.GetChunkCache", P_DATASET_ACCESS, func(pl *plistData) error {
		nslots, nbytes, w0 = pl.nslots, pl.nbytes, pl.w0
		return nil
	})
	return
}

// Copy copies an existing PropList to create a new PropList.
func (p *PropList) Copy() (*PropList, error) {
	var c *PropList
	err := traced(callInfo{"PropList.Copy", classRead, "", ""}, func() error {
		mu.Lock()
		defer mu.Unlock()
		o, err := p.liveAs(proplistType)
		if err != nil {
			return err
		}
		c = newPropList(o.pl.class, false)
		*c.obj.pl = *o.pl
		c.obj.pl.chunk = append([]uint64(nil), o.pl.chunk...)
		return nil
	})
	if err != nil {
		return nil, err
	}
	return c, nil
}
