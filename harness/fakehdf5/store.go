package hdf5

import (
	"bytes"
	"crypto/rand"
	"encoding/binary"
	"encoding/gob"
	"errors"
	"fmt"
	"io"
	"os"
	"path/filepath"
	"sort"
	"strings"
	"sync"
	"sync/atomic"
	"time"
)

// mu is the single internal mutex guarding ALL shared state of the fake: the
// file registry, every file tree, and every handle.  It is never held across
// an injected delay or a tracer callback.
var mu sync.Mutex

// registry caches the state of every file touched by this process, keyed by
// absolute path.
var registry = map[string]*fileState{}

const (
	fileMagic     = "FAKEHDF5 v1\n"
	genLen        = 16
	headerLen     = len(fileMagic) + genLen
	maxDataBytes  = uint64(1) << 34 // refuse to allocate datasets above 16 GiB
	unlimitedDim  = ^uint64(0)
	noDeflate     = -1
	tmpFileSuffix = ".fakehdf5-tmp"
)

// node is a group (children != nil) or a dataset (ds != nil).
type node struct {
	name     string
	parent   *node
	children map[string]*node
	ds       *dsData
}

func (n *node) isGroup() bool { return n.children != nil }

func (n *node) path() string {
	if n.parent == nil {
		return "/"
	}
	var parts []string
	for c := n; c.parent != nil; c = c.parent {
		parts = append(parts, c.name)
	}
	var sb strings.Builder
	for i := len(parts) - 1; i >= 0; i-- {
		sb.WriteByte('/')
		sb.WriteString(parts[i])
	}
	return sb.String()
}

// sortedNames returns the child names in increasing name order, which is the
// order of H5_INDEX_NAME / H5_ITER_INC used by the real package.
func (n *node) sortedNames() []string {
	names := make([]string, 0, len(n.children))
	for name := range n.children {
		names = append(names, name)
	}
	sort.Strings(names)
	return names
}

// dsData is the stored state of a dataset.
type dsData struct {
	typ     dtype
	class   SpaceClass // S_SIMPLE or S_SCALAR (or S_NULL)
	dims    []uint64
	maxdims []uint64
	chunk   []uint64
	deflate int
	data    []byte // row-major, little-endian, len == npoints*typ.size
}

func newGroupNode(name string, parent *node) *node {
	return &node{name: name, parent: parent, children: map[string]*node{}}
}

// fileState is the in-memory image of one file.  All handles of this process
// that refer to the same absolute path share one fileState, so they see each
// other's writes immediately (as handles of one libhdf5 instance do).
type fileState struct {
	abs   string
	root  *node
	gen   [genLen]byte
	mtime time.Time
	size  int64
	open  int // number of open file/group/dataset handles
	dirty bool
}

func absPath(name string) (string, error) {
	if name == "" {
		return "", errors.New("hdf5: empty file name")
	}
	abs, err := filepath.Abs(name)
	if err != nil {
		return "", err
	}
	dir, base := filepath.Split(abs)
	if real, err := filepath.EvalSymlinks(dir); err == nil {
		abs = filepath.Join(real, base)
	}
	return filepath.Clean(abs), nil
}

// splitPath splits an HDF5 object path into components.  "." components and
// empty components (repeated or trailing slashes) are dropped.
func splitPath(p string) (absolute bool, parts []string) {
	absolute = strings.HasPrefix(p, "/")
	for _, c := range strings.Split(p, "/") {
		if c == "" || c == "." {
			continue
		}
		parts = append(parts, c)
	}
	return absolute, parts
}

// joinObjPath lexically resolves name against the object path base, for use
// in trace events.
func joinObjPath(base, name string) string {
	absolute, parts := splitPath(name)
	if absolute || base == "" {
		base = "/"
	}
	res := strings.TrimSuffix(base, "/")
	for _, p := range parts {
		res += "/" + p
	}
	if res == "" {
		return "/"
	}
	return res
}

// lookup resolves name relative to start (or the root for absolute names).
func (fs *fileState) lookup(start *node, name string) (*node, error) {
	if name == "" {
		return nil, errors.New("hdf5: empty object name")
	}
	absolute, parts := splitPath(name)
	cur := start
	if absolute {
		cur = fs.root
	}
	for _, p := range parts {
		if !cur.isGroup() {
			return nil, fmt.Errorf("hdf5: %q: component %q of a path is not a group", name, cur.name)
		}
		next, ok := cur.children[p]
		if !ok {
			return nil, fmt.Errorf("hdf5: object %q not found (no %q in %q)", name, p, cur.path())
		}
		cur = next
	}
	return cur, nil
}

// lookupParent resolves everything but the last component of name and
// returns the parent group and the final link name.  Like H5Gcreate2 and
// H5Dcreate2 with a default link-creation property list, intermediate groups
// are NOT created.
func (fs *fileState) lookupParent(start *node, name string) (*node, string, error) {
	absolute, parts := splitPath(name)
	if len(parts) == 0 {
		return nil, "", fmt.Errorf("hdf5: invalid object name %q", name)
	}
	cur := start
	if absolute {
		cur = fs.root
	}
	for _, p := range parts[:len(parts)-1] {
		if !cur.isGroup() {
			return nil, "", fmt.Errorf("hdf5: %q: component %q is not a group", name, cur.name)
		}
		next, ok := cur.children[p]
		if !ok {
			return nil, "", fmt.Errorf("hdf5: %q: intermediate group %q does not exist", name, p)
		}
		cur = next
	}
	if !cur.isGroup() {
		return nil, "", fmt.Errorf("hdf5: %q: %q is not a group", name, cur.path())
	}
	return cur, parts[len(parts)-1], nil
}

// ---------------------------------------------------------------------------
// On-disk format

type diskEntry struct {
	Path    string
	Group   bool
	Kind    string
	Size    int
	Class   int
	Dims    []uint64
	MaxDims []uint64
	Chunk   []uint64
	Deflate int
	Data    []byte
}

type diskFile struct {
	Entries []diskEntry
}

func newGen() (g [genLen]byte) {
	if _, err := rand.Read(g[:]); err != nil {
		binary.LittleEndian.PutUint64(g[:8], uint64(time.Now().UnixNano()))
		binary.LittleEndian.PutUint64(g[8:], uint64(os.Getpid())<<32|atomic.AddUint64(&genCounter, 1))
	}
	return g
}

var genCounter uint64

func (fs *fileState) encode() []byte {
	var df diskFile
	var walk func(n *node)
	walk = func(n *node) {
		if n.parent != nil {
			e := diskEntry{Path: n.path(), Group: n.isGroup()}
			if d := n.ds; d != nil {
				e.Kind = d.typ.k.String()
				e.Size = d.typ.size
				e.Class = int(d.class)
				e.Dims = d.dims
				e.MaxDims = d.maxdims
				e.Chunk = d.chunk
				e.Deflate = d.deflate
				e.Data = d.data
			}
			df.Entries = append(df.Entries, e)
		}
		if n.isGroup() {
			for _, name := range n.sortedNames() {
				walk(n.children[name])
			}
		}
	}
	walk(fs.root)
	var buf bytes.Buffer
	buf.WriteString(fileMagic)
	buf.Write(fs.gen[:])
	if err := gob.NewEncoder(&buf).Encode(&df); err != nil {
		panic(fmt.Sprintf("fakehdf5: internal gob encoding error: %v", err))
	}
	return buf.Bytes()
}

func decodeFile(abs string, raw []byte) (*fileState, error) {
	if len(raw) < headerLen || string(raw[:len(fileMagic)]) != fileMagic {
		return nil, fmt.Errorf("hdf5: %s is not a fakehdf5 file (bad signature)", abs)
	}
	fs := &fileState{abs: abs, root: newGroupNode("", nil)}
	copy(fs.gen[:], raw[len(fileMagic):headerLen])
	var df diskFile
	if err := gob.NewDecoder(bytes.NewReader(raw[headerLen:])).Decode(&df); err != nil {
		return nil, fmt.Errorf("hdf5: %s is corrupt: %v", abs, err)
	}
	for _, e := range df.Entries {
		parent, name, err := fs.lookupParent(fs.root, e.Path)
		if err != nil {
			return nil, fmt.Errorf("hdf5: %s is corrupt: %v", abs, err)
		}
		if _, dup := parent.children[name]; dup {
			return nil, fmt.Errorf("hdf5: %s is corrupt: duplicate object %s", abs, e.Path)
		}
		if e.Group {
			parent.children[name] = newGroupNode(name, parent)
			continue
		}
		k := kindByName(e.Kind)
		if k == kInvalid {
			return nil, fmt.Errorf("hdf5: %s is corrupt: unknown element kind %q", abs, e.Kind)
		}
		d := &dsData{
			typ:     dtype{k: k, size: e.Size},
			class:   SpaceClass(e.Class),
			dims:    nonNil(e.Dims),
			maxdims: nonNil(e.MaxDims),
			chunk:   e.Chunk,
			deflate: e.Deflate,
			data:    e.Data,
		}
		n, ok := extentPoints(d.class, d.dims)
		if !ok || d.typ.size <= 0 || uint64(len(d.data)) != n*uint64(d.typ.size) || len(d.maxdims) != len(d.dims) {
			return nil, fmt.Errorf("hdf5: %s is corrupt: inconsistent dataset %s", abs, e.Path)
		}
		if d.data == nil {
			d.data = []byte{}
		}
		parent.children[name] = &node{name: name, parent: parent, ds: d}
	}
	return fs, nil
}

func nonNil(s []uint64) []uint64 {
	if s == nil {
		return []uint64{}
	}
	return s
}

// readHeaderGen reads only the signature and generation id of a file.
func readHeaderGen(abs string) (gen [genLen]byte, err error) {
	f, err := os.Open(abs)
	if err != nil {
		return gen, err
	}
	defer f.Close()
	var hdr [headerLen]byte
	if _, err := io.ReadFull(f, hdr[:]); err != nil || string(hdr[:len(fileMagic)]) != fileMagic {
		return gen, fmt.Errorf("hdf5: %s is not a fakehdf5 file (bad signature)", abs)
	}
	copy(gen[:], hdr[len(fileMagic):])
	return gen, nil
}

func loadFromDisk(abs string) (*fileState, error) {
	st, err := os.Stat(abs)
	if err != nil {
		return nil, err
	}
	if st.IsDir() {
		return nil, fmt.Errorf("hdf5: %s is a directory", abs)
	}
	raw, err := os.ReadFile(abs)
	if err != nil {
		return nil, err
	}
	fs, err := decodeFile(abs, raw)
	if err != nil {
		return nil, err
	}
	// Stat again: if the file was replaced while we were reading it the
	// recorded identity is simply stale, which forces a reload next time.
	fs.mtime, fs.size = st.ModTime(), st.Size()
	return fs, nil
}

// flush writes the whole image to disk atomically (temp file + rename) under
// a fresh generation id.  mu must be held.
func (fs *fileState) flush() error {
	fs.gen = newGen()
	raw := fs.encode()
	tmp := fmt.Sprintf("%s%s.%d.%d", fs.abs, tmpFileSuffix, os.Getpid(), atomic.AddUint64(&genCounter, 1))
	if err := os.WriteFile(tmp, raw, 0644); err != nil {
		return fmt.Errorf("hdf5: cannot write %s: %v", fs.abs, err)
	}
	if err := os.Rename(tmp, fs.abs); err != nil {
		os.Remove(tmp)
		return fmt.Errorf("hdf5: cannot write %s: %v", fs.abs, err)
	}
	if st, err := os.Stat(fs.abs); err == nil {
		fs.mtime, fs.size = st.ModTime(), st.Size()
	}
	fs.dirty = false
	return nil
}

// acquire returns the (possibly cached) state of an existing file.  The
// cached image is reused when other handles are still open on it (they share
// it, as within one libhdf5 instance) or when the file on disk is unchanged
// since it was cached (same mtime, size and generation id); otherwise the
// file is re-read.  mu must be held.
func acquire(abs string) (*fileState, error) {
	if fs, ok := registry[abs]; ok {
		if fs.open > 0 {
			return fs, nil
		}
		st, err := os.Stat(abs)
		if err == nil && !st.IsDir() && st.ModTime().Equal(fs.mtime) && st.Size() == fs.size {
			if gen, err := readHeaderGen(abs); err == nil && gen == fs.gen {
				return fs, nil
			}
		}
		delete(registry, abs)
	}
	fs, err := loadFromDisk(abs)
	if err != nil {
		return nil, err
	}
	registry[abs] = fs
	return fs, nil
}

// release drops one handle reference.  If flushNow is set, or this was the
// last handle, pending modifications are written to disk.
func (fs *fileState) release(flushNow bool) error {
	if fs.open > 0 {
		fs.open--
	}
	if fs.dirty && (flushNow || fs.open == 0) {
		return fs.flush()
	}
	return nil
}

// extentPoints returns the number of elements of an extent; ok is false on
// overflow.
func extentPoints(class SpaceClass, dims []uint64) (n uint64, ok bool) {
	switch class {
	case S_NULL:
		return 0, true
	case S_SCALAR:
		return 1, true
	}
	n = 1
	for _, d := range dims {
		if d == 0 {
			return 0, true
		}
	}
	for _, d := range dims {
		if n > (1<<62)/d {
			return 0, false
		}
		n *= d
	}
	return n, true
}
