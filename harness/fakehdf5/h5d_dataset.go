package hdf5

import (
	"fmt"
	"sync/atomic"
)

type Dataset struct {
	Identifier
}

// Close releases and terminates access to a dataset.
func (s *Dataset) Close() error {
	return s.closeFileBound("Dataset.Close", DATASET)
}

// Space returns an identifier for a copy of the dataspace for a dataset,
// with everything selected, or nil if the dataset handle is invalid.
func (s *Dataset) Space() *Dataspace {
	var sp *Dataspace
	traced(callInfo{"Dataset.Space", classRead, s.traceFile(), s.tracePath()}, func() error {
		mu.Lock()
		defer mu.Unlock()
		o, err := s.liveAs(DATASET)
		if err != nil {
			return err
		}
		d := o.n.ds
		sd := &spaceData{class: d.class, dims: append([]uint64{}, d.dims...), maxdims: append([]uint64{}, d.maxdims...)}
		sp = newDataspaceHandle(sd, o.tfile, o.tpath)
		return nil
	})
	return sp
}

// Datatype returns the HDF5 Datatype of the Dataset. The returned
// datatype must be closed by the user when it is no longer needed.
func (s *Dataset) Datatype() (*Datatype, error) {
	var dt *Datatype
	err := traced(callInfo{"Dataset.Datatype", classRead, s.traceFile(), s.tracePath()}, func() error {
		mu.Lock()
		defer mu.Unlock()
		o, err := s.liveAs(DATASET)
		if err != nil {
			return fmt.Errorf("couldn't open Datatype from Dataset: %v", err)
		}
		dt = newDatatypeHandle(o.n.ds.typ, false, o.tfile, o.tpath)
		return nil
	})
	if err != nil {
		return nil, err
	}
	return dt, nil
}

// ReadSubset reads a subset of raw data from a dataset into a buffer.
//
// The elements selected in filespace are transferred, in selection
// (row-major) order, to the elements selected in memspace; the buffer is laid
// out according to memspace's extent.  As with H5Dread: a nil filespace means
// the whole dataset; a nil memspace means "same dataspace and selection as
// the file side" (H5S_ALL); both selections must lie within their extents and
// select the same number of elements, otherwise the call fails without
// transferring anything.  Unlike libhdf5 the fake also fails (instead of
// overrunning memory) when the Go buffer is too small for memspace's extent.
func (s *Dataset) ReadSubset(data interface{}, memspace, filespace *Dataspace) error {
	return s.transfer("Dataset.ReadSubset", classRead, false, data, memspace, filespace)
}

// Read reads raw data from a dataset into a buffer.
func (s *Dataset) Read(data interface{}) error {
	return s.transfer("Dataset.Read", classRead, false, data, nil, nil)
}

// WriteSubset writes a subset of raw data from a buffer to a dataset.  See
// ReadSubset for the rules.
func (s *Dataset) WriteSubset(data interface{}, memspace, filespace *Dataspace) error {
	return s.transfer("Dataset.WriteSubset", classWrite, true, data, memspace, filespace)
}

// Write writes raw data from a buffer to a dataset.
func (s *Dataset) Write(data interface{}) error {
	return s.transfer("Dataset.Write", classWrite, true, data, nil, nil)
}

// TransferMode selects how element types are treated by Read/Write.
//
// EXTENSION: not part of the real API.
type TransferMode int32

const (
	// TransferNative mirrors the real gonum package, which always passes
	// the dataset's OWN stored type as the memory type to H5Dread/H5Dwrite:
	// the Go buffer is treated as raw memory holding elements of the stored
	// type, and no conversion takes place.  If the buffer's Go element type
	// differs from the stored type the bytes are reinterpreted (for instance
	// float32 data read into a []float64 fills half of the buffer with
	// garbage), and where libhdf5 would run past the end of the Go buffer
	// the fake returns an error instead.  This is the default.
	TransferNative TransferMode = iota
	// TransferConvert converts between the stored numeric type and the Go
	// buffer's element type with ordinary Go conversion rules, as libhdf5
	// would if the binding passed a memory type matching the buffer.
	TransferConvert
)

var transferMode int32

// SetTransferMode selects the element type handling of all subsequent
// transfers (also settable with the environment variable
// FAKEHDF5_TRANSFER=native|convert).
//
// EXTENSION: not part of the real API.
func SetTransferMode(m TransferMode) { atomic.StoreInt32(&transferMode, int32(m)) }

func (s *Dataset) transfer(call, class string, write bool, data interface{}, memspace, filespace *Dataspace) error {
	return traced(callInfo{call, class, s.traceFile(), s.tracePath()}, func() error {
		// Snapshot the Go buffer before taking the lock; it is the caller's
		// private memory.
		mb, mbErr := newMembuf(data)

		mu.Lock()
		defer mu.Unlock()
		o, err := s.liveAs(DATASET)
		if err != nil {
			return err
		}
		if mbErr != nil {
			return mbErr
		}
		d := o.n.ds
		if !write && mb.store == nil {
			return fmt.Errorf("hdf5: destination buffer is not addressable (pass a slice or a pointer)")
		}
		if write && !o.writable {
			return fmt.Errorf("hdf5: cannot write dataset %s: file %s is open read-only", o.n.path(), o.filename)
		}

		// file side
		var fsp *spaceData
		if filespace != nil {
			fo, err := filespace.liveAs(DATASPACE)
			if err != nil {
				return fmt.Errorf("hdf5: file dataspace: %v", err)
			}
			fsp = fo.space
			if fsp.class != d.class || !sameDims(fsp.dims, d.dims) {
				return fmt.Errorf("hdf5: file dataspace extent %v does not match the extent %v of dataset %s", fsp.dims, d.dims, o.n.path())
			}
		} else {
			fsp = &spaceData{class: d.class, dims: d.dims, maxdims: d.maxdims}
		}
		// memory side
		var msp *spaceData
		if memspace != nil {
			mo, err := memspace.liveAs(DATASPACE)
			if err != nil {
				return fmt.Errorf("hdf5: memory dataspace: %v", err)
			}
			msp = mo.space
		} else {
			msp = fsp // H5S_ALL: the file dataspace and its selection are used for memory too
		}
		if !fsp.validSelection() {
			return fmt.Errorf("hdf5: file selection is not within the extent %v of dataset %s", d.dims, o.n.path())
		}
		if !msp.validSelection() {
			return fmt.Errorf("hdf5: memory selection is not within the extent %v of the memory dataspace", msp.dims)
		}
		nf, nm := fsp.selectedPoints(), msp.selectedPoints()
		if nf != nm {
			return fmt.Errorf("hdf5: src and dest dataspaces have different number of elements selected (file %d, memory %d)", nf, nm)
		}
		memExtent, _ := extentPoints(msp.class, msp.dims)

		mode := TransferMode(atomic.LoadInt32(&transferMode))
		fsize := d.typ.size
		// memElem: size in bytes of one element as laid out in the Go buffer
		memElem := fsize
		raw := true // plain byte copy
		if mode == TransferConvert && mb.k != d.typ.k {
			switch {
			case d.typ.k == kString:
				// fixed-length strings can only be moved as raw bytes
				if mb.k != kUint8 && mb.k != kInt8 {
					return fmt.Errorf("hdf5: cannot convert between string(%d) and %v", d.typ.size, mb.k)
				}
			case d.typ.k.info().size == mb.k.info().size && d.typ.k.info().class == mb.k.info().class:
				// int vs int64, uint vs uint64: identical representation
			default:
				raw = false
				memElem = mb.k.info().size
			}
		}
		if memExtent > uint64(len(mb.bytes))/uint64(memElem) {
			return fmt.Errorf("hdf5: data buffer too small: it holds %d bytes (%d x %v) but the memory dataspace needs %d elements of %d bytes",
				len(mb.bytes), mb.n, mb.k, memExtent, memElem)
		}
		if nf == 0 {
			return nil
		}

		fidx, fIdent := fsp.indices()
		midx, mIdent := msp.indices()
		n := int(nf)
		switch {
		case raw && fIdent && mIdent:
			if write {
				copy(d.data, mb.bytes[:n*fsize])
			} else {
				copy(mb.bytes, d.data[:n*fsize])
			}
		default:
			for i := 0; i < n; i++ {
				fi, mi := i, i
				if !fIdent {
					fi = fidx[i]
				}
				if !mIdent {
					mi = midx[i]
				}
				fb := d.data[fi*fsize : (fi+1)*fsize]
				mbb := mb.bytes[mi*memElem : (mi+1)*memElem]
				switch {
				case raw && write:
					copy(fb, mbb)
				case raw:
					copy(mbb, fb)
				case write:
					encodeNum(d.typ.k, fb, decodeNum(mb.k, mbb))
				default:
					encodeNum(mb.k, mbb, decodeNum(d.typ.k, fb))
				}
			}
		}
		if write {
			o.fs.dirty = true
			return nil
		}
		return mb.writeBack()
	})
}
