package hdf5

import (
	"fmt"
	"reflect"
)

type Datatype struct {
	Identifier
}

type TypeClass int

const (
	T_NO_CLASS  TypeClass = -1 // Error
	T_INTEGER   TypeClass = 0  // integer types
	T_FLOAT     TypeClass = 1  // floating-point types
	T_TIME      TypeClass = 2  // date and time types
	T_STRING    TypeClass = 3  // character string types
	T_BITFIELD  TypeClass = 4  // bit field types
	T_OPAQUE    TypeClass = 5  // opaque types
	T_COMPOUND  TypeClass = 6  // compound types
	T_REFERENCE TypeClass = 7  // reference types
	T_ENUM      TypeClass = 8  // enumeration types
	T_VLEN      TypeClass = 9  // variable-length types
	T_ARRAY     TypeClass = 10 // array types
	T_NCLASSES  TypeClass = 11 // nbr of classes -- MUST BE LAST
)

func newDatatypeHandle(t dtype, permanent bool, tfile, tpath string) *Datatype {
	o := newObject(DATATYPE)
	tc := t
	o.dt = &tc
	o.permanent = permanent
	o.tfile, o.tpath = tfile, tpath
	return &Datatype{Identifier{o}}
}

// list of predefined hdf5 data types (the subset the fake supports)
var (
	T_NATIVE_INT8   *Datatype = newDatatypeHandle(numericType(kInt8), true, "", "")
	T_NATIVE_UINT8  *Datatype = newDatatypeHandle(numericType(kUint8), true, "", "")
	T_NATIVE_INT16  *Datatype = newDatatypeHandle(numericType(kInt16), true, "", "")
	T_NATIVE_UINT16 *Datatype = newDatatypeHandle(numericType(kUint16), true, "", "")
	T_NATIVE_INT32  *Datatype = newDatatypeHandle(numericType(kInt32), true, "", "")
	T_NATIVE_UINT32 *Datatype = newDatatypeHandle(numericType(kUint32), true, "", "")
	T_NATIVE_INT64  *Datatype = newDatatypeHandle(numericType(kInt64), true, "", "")
	T_NATIVE_UINT64 *Datatype = newDatatypeHandle(numericType(kUint64), true, "", "")
	T_NATIVE_FLOAT  *Datatype = newDatatypeHandle(numericType(kFloat32), true, "", "")
	T_NATIVE_DOUBLE *Datatype = newDatatypeHandle(numericType(kFloat64), true, "", "")

	// T_NATIVE_INT and T_NATIVE_UINT stand for Go's int and uint and are 64
	// bit wide in the fake (DEVIATION: libhdf5's are C int, i.e. 32 bit).
	T_NATIVE_INT  *Datatype = newDatatypeHandle(numericType(kInt), true, "", "")
	T_NATIVE_UINT *Datatype = newDatatypeHandle(numericType(kUint), true, "", "")

	// T_C_S1 is a one-byte fixed-length string; Copy it and SetSize the copy
	// to obtain a fixed-length string type of another width.
	T_C_S1 *Datatype = newDatatypeHandle(dtype{k: kString, size: 1}, true, "", "")

	// T_GO_STRING is the variable-length string type.  The fake can describe
	// it but cannot create datasets of it.
	T_GO_STRING *Datatype = newDatatypeHandle(dtype{k: kString, size: variableSize}, true, "", "")
)

// CreateDatatype creates a new datatype. Of the classes the real package
// accepts (T_COMPOUND, T_OPAQUE, T_ENUM, T_STRING) the fake supports only
// T_STRING, which yields a fixed-length string type of size bytes.
// The returned datatype must be closed by the user when it is no longer needed.
func CreateDatatype(class TypeClass, size int) (*Datatype, error) {
	var dt *Datatype
	err := traced(callInfo{"CreateDatatype", classRead, "", ""}, func() error {
		switch class {
		case T_STRING:
			if size <= 0 {
				return fmt.Errorf("hdf5: invalid string size %d", size)
			}
			dt = newDatatypeHandle(dtype{k: kString, size: size}, false, "", "")
			return nil
		case T_COMPOUND, T_OPAQUE, T_ENUM:
			return fmt.Errorf("hdf5: type class %v is not supported by fakehdf5", class)
		}
		return fmt.Errorf(
			"invalid TypeClass, want %v, %v, %v or %v, got %v",
			T_COMPOUND, T_OPAQUE, T_STRING, T_ENUM,
			class,
		)
	})
	if err != nil {
		return nil, err
	}
	return dt, nil
}

// typeOf returns the dtype behind t, or the invalid dtype.
func (t *Datatype) get(call string, fn func(dt *dtype) error) error {
	return traced(callInfo{call, classRead, t.traceFile(), t.tracePath()}, func() error {
		mu.Lock()
		defer mu.Unlock()
		o, err := t.liveAs(DATATYPE)
		if err != nil {
			return err
		}
		return fn(o.dt)
	})
}

// GoType returns the reflect.Type associated with the Datatype:
// reflect.TypeOf("") for strings and the exact Go numeric type otherwise
// (DEVIATION: the real package maps every integer type to int and every
// floating-point type to float32).  It returns nil for an invalid handle.
func (t *Datatype) GoType() reflect.Type {
	var rt reflect.Type
	t.get("Datatype.GoType", func(dt *dtype) error {
		rt = dt.k.info().goType
		return nil
	})
	return rt
}

// Close releases a datatype.
func (t *Datatype) Close() error {
	return t.closeSimple("Datatype.Close", DATATYPE)
}

// Committed determines whether a datatype is a named type or a transient type.
// The fake has no named types.
func (t *Datatype) Committed() bool { return false }

// Copy copies an existing datatype.
func (t *Datatype) Copy() (*Datatype, error) {
	var c *Datatype
	err := t.get("Datatype.Copy", func(dt *dtype) error {
		c = newDatatypeHandle(*dt, false, t.traceFile(), t.tracePath())
		return nil
	})
	if err != nil {
		return nil, err
	}
	return c, nil
}

// Equal determines whether two datatype identifiers refer to the same datatype.
func (t *Datatype) Equal(o *Datatype) bool {
	equal := false
	t.get("Datatype.Equal", func(dt *dtype) error {
		if o == nil {
			return errInvalidHandle
		}
		oo, err := o.liveAs(DATATYPE)
		if err != nil {
			return err
		}
		a, b := *dt, *oo.dt
		// int/int64 and uint/uint64 are the same HDF5 type
		norm := func(k kind) kind {
			switch k {
			case kInt:
				return kInt64
			case kUint:
				return kUint64
			}
			return k
		}
		equal = norm(a.k) == norm(b.k) && a.size == b.size
		return nil
	})
	return equal
}

// Lock locks a datatype (no-op).
func (t *Datatype) Lock() error {
	return t.get("Datatype.Lock", func(dt *dtype) error { return nil })
}

// Size returns the size of the Datatype in bytes: the fixed width of a
// string type, or the size of the numeric type.
func (t *Datatype) Size() uint {
	var size uint
	t.get("Datatype.Size", func(dt *dtype) error {
		if dt.size == variableSize {
			size = 16 // sizeof(Go string header); what libhdf5 reports is sizeof(char*)
			return nil
		}
		size = uint(dt.size)
		return nil
	})
	return size
}

// SetSize sets the total size of a Datatype.  Only string types can be
// resized in the fake.
func (t *Datatype) SetSize(sz int) error {
	return traced(callInfo{"Datatype.SetSize", classRead, t.traceFile(), t.tracePath()}, func() error {
		mu.Lock()
		defer mu.Unlock()
		o, err := t.liveAs(DATATYPE)
		if err != nil {
			return err
		}
		if o.permanent {
			return fmt.Errorf("hdf5: cannot modify a predefined datatype")
		}
		if o.dt.k != kString {
			return fmt.Errorf("hdf5: SetSize is only supported for string types in fakehdf5")
		}
		if sz <= 0 {
			return fmt.Errorf("hdf5: invalid size %d", sz)
		}
		o.dt.size = sz
		return nil
	})
}

// Class returns the TypeClass of the DataType
func (t *Datatype) Class() TypeClass {
	class := T_NO_CLASS
	t.get("Datatype.Class", func(dt *dtype) error {
		switch dt.k.info().class {
		case clsFloat:
			class = T_FLOAT
		case clsString:
			class = T_STRING
		default:
			class = T_INTEGER
		}
		return nil
	})
	return class
}

// NewDatatypeFromValue creates a datatype from a value in an interface. The returned
// datatype must be closed by the user when it is no longer needed.
func NewDatatypeFromValue(v interface{}) (*Datatype, error) {
	return newDataTypeFromType("NewDatatypeFromValue", reflect.TypeOf(v))
}

// NewDatatypeFromType creates a new Datatype from a reflect.Type. The returned
// datatype must be closed by the user when it is no longer needed.
//
// The fake supports the fixed-size integer and floating-point kinds and
// string (variable length, T_GO_STRING); pointers are dereferenced.  Bool,
// array, slice and struct types yield an error.
func NewDataTypeFromType(t reflect.Type) (*Datatype, error) {
	return newDataTypeFromType("NewDataTypeFromType", t)
}

func newDataTypeFromType(call string, t reflect.Type) (*Datatype, error) {
	var dt *Datatype
	err := traced(callInfo{call, classRead, "", ""}, func() error {
		if t == nil {
			return fmt.Errorf("hdf5: cannot create a datatype from a nil type")
		}
		for t.Kind() == reflect.Ptr {
			t = t.Elem()
		}
		if t.Kind() == reflect.String {
			dt = newDatatypeHandle(dtype{k: kString, size: variableSize}, false, "", "")
			return nil
		}
		k := kindFromReflect(t.Kind())
		if k == kInvalid {
			return fmt.Errorf("hdf5: Go type %v is not supported by fakehdf5", t)
		}
		dt = newDatatypeHandle(numericType(k), false, "", "")
		return nil
	})
	if err != nil {
		return nil, err
	}
	return dt, nil
}
