package hdf5

import (
	"errors"
	"fmt"
	"sync/atomic"
)

type IType int

const (
	FILE      IType = 1
	GROUP     IType = 2
	DATATYPE  IType = 3
	DATASPACE IType = 4
	DATASET   IType = 5
	ATTRIBUTE IType = 6
	BAD_ID    IType = -1

	// proplistType is internal: the real package has no IType constant for
	// property lists.
	proplistType IType = 9
)

func (typ IType) String() string {
	switch typ {
	case FILE:
		return "file"
	case GROUP:
		return "group"
	case DATATYPE:
		return "datatype"
	case DATASPACE:
		return "dataspace"
	case DATASET:
		return "dataset"
	case ATTRIBUTE:
		return "attribute"
	case BAD_ID:
		return "bad_id"
	default:
		return fmt.Sprintf("IType=%d", int(typ))
	}
}

// object is the state behind a handle.  All fields except the immutable
// id/typ/filename/writable/tfile/tpath are guarded by mu.
type object struct {
	id     int64
	typ    IType
	closed bool

	// file-bound objects (file, group, dataset)
	fs       *fileState
	n        *node
	filename string // name as given to OpenFile/CreateFile
	writable bool

	space *spaceData // dataspace
	dt    *dtype     // datatype
	pl    *plistData // property list

	permanent bool // predefined library object: Close is refused

	// trace attribution (file name and object path this handle refers to or
	// was derived from)
	tfile, tpath string
}

var idCtr int64 = 0x0100000000000000

func newObject(typ IType) *object {
	return &object{id: atomic.AddInt64(&idCtr, 1), typ: typ}
}

// Identifier is the common part of every handle.  It mirrors the real
// package's wrapper around a C hid_t.
type Identifier struct {
	obj *object
}

var errInvalidHandle = errors.New("hdf5: invalid (zero or nil) identifier")

// live returns the object behind the identifier if it is still open.
// mu must be held.
func (i Identifier) live() (*object, error) {
	if i.obj == nil {
		return nil, errInvalidHandle
	}
	if i.obj.closed {
		return nil, fmt.Errorf("hdf5: %s identifier %d is closed", i.obj.typ, i.obj.id)
	}
	return i.obj, nil
}

// liveAs is live plus a type check.
func (i Identifier) liveAs(types ...IType) (*object, error) {
	o, err := i.live()
	if err != nil {
		return nil, err
	}
	for _, t := range types {
		if o.typ == t {
			return o, nil
		}
	}
	return nil, fmt.Errorf("hdf5: identifier %d is a %s, not a %s", o.id, o.typ, types[0])
}

func (i Identifier) traceFile() string {
	if i.obj == nil {
		return ""
	}
	return i.obj.tfile
}

func (i Identifier) tracePath() string {
	if i.obj == nil {
		return ""
	}
	return i.obj.tpath
}

// ID returns the integer value of an identifier (0 for a zero handle).
func (i Identifier) ID() int64 {
	if i.obj == nil {
		return 0
	}
	return i.obj.id
}

// Name returns the full name (absolute path inside the file) of the object
// the Identifier refers to, or "" if it has none.
func (i Identifier) Name() string {
	var name string
	traced(callInfo{"Identifier.Name", classRead, i.traceFile(), i.tracePath()}, func() error {
		mu.Lock()
		defer mu.Unlock()
		o, err := i.liveAs(FILE, GROUP, DATASET)
		if err != nil {
			return err
		}
		name = o.n.path()
		return nil
	})
	return name
}

// File returns a new handle on the file associated with this Identifier, or
// nil.  The returned file must be closed by the user.
func (i Identifier) File() *File {
	var f *File
	traced(callInfo{"Identifier.File", classRead, i.traceFile(), "/"}, func() error {
		mu.Lock()
		defer mu.Unlock()
		o, err := i.liveAs(FILE, GROUP, DATASET)
		if err != nil {
			return err
		}
		f = newFileHandle(o.fs, o.filename, o.writable)
		return nil
	})
	return f
}

// Type returns the type of the identifier.
func (i Identifier) Type() IType {
	typ := BAD_ID
	traced(callInfo{"Identifier.Type", classRead, i.traceFile(), i.tracePath()}, func() error {
		mu.Lock()
		defer mu.Unlock()
		o, err := i.live()
		if err != nil {
			return err
		}
		if o.typ != proplistType {
			typ = o.typ
		}
		return nil
	})
	return typ
}

// closeFileBound closes a file, group or dataset handle.
func (i *Identifier) closeFileBound(call string, typ IType) error {
	return traced(callInfo{call, classRead, i.traceFile(), i.tracePath()}, func() error {
		mu.Lock()
		defer mu.Unlock()
		o, err := i.liveAs(typ)
		if err != nil {
			return err
		}
		o.closed = true
		// A writable *file* handle flushes at Close, like H5Fclose; other
		// handles flush only when they are the last handle on the file.
		return o.fs.release(typ == FILE && o.writable)
	})
}

// closeSimple closes a dataspace, datatype or property list handle.
func (i *Identifier) closeSimple(call string, typ IType) error {
	return traced(callInfo{call, classRead, i.traceFile(), i.tracePath()}, func() error {
		mu.Lock()
		defer mu.Unlock()
		o, err := i.liveAs(typ)
		if err != nil {
			return err
		}
		if o.permanent {
			return fmt.Errorf("hdf5: cannot close a predefined %s", typ)
		}
		o.closed = true
		return nil
	})
}
