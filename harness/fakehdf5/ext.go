package hdf5

// EXTENSIONS -- NOT PART OF THE REAL gonum.org/v1/hdf5 API.
//
// Helpers for the verification harness: creating fixed-length string
// datasets, authoring whole files, and inspecting files.  Only
// CreateFixedStringDataset(InFile) is traced (as a "write"); the
// filename-based helpers (Dump, Groups, WriteDataset, WriteStringDataset)
// work directly on the file image and emit no trace events and are not
// subject to the injected delay.

import (
	"fmt"
	"os"
	"sort"
)

// CreateFixedStringDataset creates, under group g, a 1-D dataset called
// name of len(values) fixed-length strings of width bytes, NUL padded (the
// layout h5py produces for numpy "S<width>" arrays).  width <= 0 selects the
// length of the longest value (at least 1).  A value longer than width is an
// error.  The name must not exist yet.
//
// EXTENSION: not part of the real API.
func CreateFixedStringDataset(g *Group, name string, values []string, width int) error {
	if g == nil {
		return errInvalidHandle
	}
	return createFixedStringDataset(&g.CommonFG, name, values, width)
}

// CreateFixedStringDatasetInFile is CreateFixedStringDataset relative to the
// root group of f.
//
// EXTENSION: not part of the real API.
func CreateFixedStringDatasetInFile(f *File, name string, values []string, width int) error {
	if f == nil {
		return errInvalidHandle
	}
	return createFixedStringDataset(&f.CommonFG, name, values, width)
}

func createFixedStringDataset(g *CommonFG, name string, values []string, width int) error {
	ci := callInfo{"CreateFixedStringDataset", classWrite, g.traceFile(), joinObjPath(g.tracePath(), name)}
	return traced(ci, func() error {
		mu.Lock()
		defer mu.Unlock()
		o, err := g.loc()
		if err != nil {
			return err
		}
		if !o.writable {
			return fmt.Errorf("hdf5: cannot create dataset %q: file %s is open read-only", name, o.filename)
		}
		d, err := newStringDsData(values, width)
		if err != nil {
			return fmt.Errorf("hdf5: cannot create dataset %q: %v", name, err)
		}
		_, err = o.fs.linkDataset(o.n, name, d)
		return err
	})
}

func newStringDsData(values []string, width int) (*dsData, error) {
	if width <= 0 {
		width = 1
		for _, v := range values {
			if len(v) > width {
				width = len(v)
			}
		}
	}
	n := uint64(len(values))
	d := &dsData{typ: dtype{k: kString, size: width}, class: S_SIMPLE, deflate: noDeflate,
		dims: []uint64{n}, maxdims: []uint64{n}, data: make([]byte, len(values)*width)}
	for i, v := range values {
		if len(v) > width {
			return nil, fmt.Errorf("string %q is longer than the fixed width %d", v, width)
		}
		copy(d.data[i*width:], v)
	}
	return d, nil
}

// DatasetInfo describes one dataset of a file, see Dump.
//
// EXTENSION: not part of the real API.
type DatasetInfo struct {
	Kind    string    // "float64", "float32", "int32", "uint32", "int64", "uint64", "int", "uint", "int8", ..., "string"
	Shape   []int     // extent; empty for a scalar dataset
	Float   []float64 // all values converted to float64, row-major; nil for strings
	Strings []string  // string datasets only: values with the NUL padding removed
	Width   int       // string datasets only: fixed width in bytes
}

// withImage runs fn on the current image of the named file: the shared
// in-memory image if the file is open (or cached and unchanged on disk) in
// this process, otherwise freshly loaded from disk.
func withImage(filename string, fn func(fs *fileState) error) error {
	mu.Lock()
	defer mu.Unlock()
	abs, err := absPath(filename)
	if err != nil {
		return err
	}
	fs, err := acquire(abs)
	if err != nil {
		return err
	}
	return fn(fs)
}

func walkTree(n *node, fn func(n *node)) {
	fn(n)
	if n.isGroup() {
		for _, name := range n.sortedNames() {
			walkTree(n.children[name], fn)
		}
	}
}

// Dump returns every dataset of the file keyed by absolute path, e.g.
// "/MODELS/Foo/outputs".
//
// EXTENSION: not part of the real API.
func Dump(filename string) (map[string]DatasetInfo, error) {
	res := map[string]DatasetInfo{}
	err := withImage(filename, func(fs *fileState) error {
		walkTree(fs.root, func(n *node) {
			d := n.ds
			if d == nil {
				return
			}
			info := DatasetInfo{Kind: d.typ.k.String(), Shape: make([]int, len(d.dims))}
			for i, x := range d.dims {
				info.Shape[i] = int(x)
			}
			np := len(d.data) / d.typ.size
			if d.typ.k == kString {
				info.Width = d.typ.size
				info.Strings = make([]string, np)
				for i := range info.Strings {
					b := d.data[i*info.Width : (i+1)*info.Width]
					end := 0
					for end < len(b) && b[end] != 0 {
						end++
					}
					info.Strings[i] = string(b[:end])
				}
			} else {
				info.Float = make([]float64, np)
				for i := range info.Float {
					info.Float[i] = decodeNum(d.typ.k, d.data[i*d.typ.size:]).asFloat64()
				}
			}
			res[n.path()] = info
		})
		return nil
	})
	if err != nil {
		return nil, err
	}
	return res, nil
}

// Groups lists the absolute paths of all groups of the file, sorted,
// starting with the root group "/".
//
// EXTENSION: not part of the real API.
func Groups(filename string) ([]string, error) {
	var res []string
	err := withImage(filename, func(fs *fileState) error {
		walkTree(fs.root, func(n *node) {
			if n.isGroup() {
				res = append(res, n.path())
			}
		})
		return nil
	})
	if err != nil {
		return nil, err
	}
	sort.Strings(res)
	return res, nil
}

// imageForAuthoring returns the image of an existing file, or a new empty
// image if the file does not exist.  mu must be held.
func imageForAuthoring(abs string) (*fileState, error) {
	if _, statErr := os.Stat(abs); os.IsNotExist(statErr) {
		if old, ok := registry[abs]; ok && old.open > 0 {
			return old, nil
		}
		fs := &fileState{abs: abs, root: newGroupNode("", nil)}
		registry[abs] = fs
		return fs, nil
	}
	return acquire(abs)
}

// authorImage opens (creating the file if it does not exist) the image of
// filename, resolves the parent of path creating intermediate groups, lets
// mk build the dataset, links it (REPLACING an existing dataset of that
// name) and writes the file to disk.
func authorImage(filename, path string, mk func() (*dsData, error)) error {
	mu.Lock()
	defer mu.Unlock()
	abs, err := absPath(filename)
	if err != nil {
		return err
	}
	fs, err := imageForAuthoring(abs)
	if err != nil {
		return err
	}
	_, parts := splitPath(path)
	if len(parts) == 0 {
		return fmt.Errorf("hdf5: invalid dataset path %q", path)
	}
	d, err := mk()
	if err != nil {
		return fmt.Errorf("hdf5: cannot create dataset %q: %v", path, err)
	}
	cur := fs.root
	for _, p := range parts[:len(parts)-1] {
		next, ok := cur.children[p]
		if !ok {
			next = newGroupNode(p, cur)
			cur.children[p] = next
		} else if !next.isGroup() {
			return fmt.Errorf("hdf5: cannot create dataset %q: %s is a dataset", path, next.path())
		}
		cur = next
	}
	link := parts[len(parts)-1]
	if old, ok := cur.children[link]; ok {
		if old.isGroup() {
			return fmt.Errorf("hdf5: cannot create dataset %q: a group of that name exists", path)
		}
		// Replace in place so that handles already open on the dataset
		// observe the new contents.
		old.ds = d
	} else {
		cur.children[link] = &node{name: link, parent: cur, ds: d}
	}
	return fs.flush()
}

// WriteDataset creates the numeric dataset path (absolute, e.g. "/A/B/data")
// in the named file with the given element kind ("float64", "float32",
// "int32", "uint32", "int64", "uint64", "int", "uint", "int8", "int16",
// "uint8", "uint16"), shape and row-major values (converted from float64
// with ordinary Go conversion; nil means all zero).  The file and any
// intermediate groups are created as needed; an existing dataset of that
// name is replaced.  The file is written to disk before returning.
//
// EXTENSION: not part of the real API.
func WriteDataset(filename, path string, kind string, shape []int, values []float64) error {
	return authorImage(filename, path, func() (*dsData, error) {
		k := kindByName(kind)
		if k == kInvalid || k == kString {
			return nil, fmt.Errorf("unsupported element kind %q", kind)
		}
		sd := &spaceData{class: S_SIMPLE, dims: make([]uint64, len(shape)), maxdims: make([]uint64, len(shape))}
		for i, x := range shape {
			if x < 0 {
				return nil, fmt.Errorf("negative extent in shape %v", shape)
			}
			sd.dims[i], sd.maxdims[i] = uint64(x), uint64(x)
		}
		d, err := newDsData(numericType(k), sd, nil)
		if err != nil {
			return nil, err
		}
		size := d.typ.size
		np := len(d.data) / size
		if values != nil {
			if len(values) != np {
				return nil, fmt.Errorf("%d values given for shape %v (%d elements)", len(values), shape, np)
			}
			for i, v := range values {
				encodeNum(k, d.data[i*size:], num{class: clsFloat, f: v})
			}
		}
		return d, nil
	})
}

// WriteStringDataset is the filename-based counterpart of
// CreateFixedStringDataset: it creates (or replaces) the 1-D fixed-length
// string dataset path in the named file, creating the file and intermediate
// groups as needed, and writes the file to disk.
//
// EXTENSION: not part of the real API.
func WriteStringDataset(filename, path string, values []string, width int) error {
	return authorImage(filename, path, func() (*dsData, error) {
		return newStringDsData(values, width)
	})
}

// MakeGroup creates the group path (and its ancestors) in the named file if
// it does not exist yet, creating the file if needed, and writes the file to
// disk.  It is a convenience for authoring input files that need empty
// groups.
//
// EXTENSION: not part of the real API.
func MakeGroup(filename, path string) error {
	mu.Lock()
	defer mu.Unlock()
	abs, err := absPath(filename)
	if err != nil {
		return err
	}
	fs, err := imageForAuthoring(abs)
	if err != nil {
		return err
	}
	_, parts := splitPath(path)
	cur := fs.root
	for _, p := range parts {
		next, ok := cur.children[p]
		if !ok {
			next = newGroupNode(p, cur)
			cur.children[p] = next
		} else if !next.isGroup() {
			return fmt.Errorf("hdf5: cannot create group %q: %s is a dataset", path, next.path())
		}
		cur = next
	}
	return fs.flush()
}
