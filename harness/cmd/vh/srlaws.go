package main

import (
	"bufio"
	"encoding/json"
	"fmt"
	"math"
	"math/rand"
	"os"
	"sort"

	"github.com/flowmatters/openwater-core/data"
	"github.com/flowmatters/openwater-core/sim"
)

// srlaws engine (C11, StorageRouting clauses; B2 with rank encoding): seeded parameter sets in the stable region
// and non-negative series with zero-flow spells are run through the catalogue; per timestep the residual of the
// water balance, the outflow, the storage and the residual of S = k Q^m + dead storage are computed in float64
// and rank-encoded together with 0 and the tolerances, for validation by spec/TraceStorageRouting.tla.
//   vh srlaws <out.ndjson> <ncases> <T>
func init() { register("srlaws", srlawsEngine) }

func srlawsEngine(args []string) error {
	if len(args) < 3 {
		return fmt.Errorf("usage: srlaws <out> <ncases> <T>")
	}
	var n, T int
	fmt.Sscan(args[1], &n)
	fmt.Sscan(args[2], &T)
	r := rand.New(rand.NewSource(seed()))
	fh, err := os.Create(args[0])
	if err != nil {
		return err
	}
	w := bufio.NewWriter(fh)
	enc := json.NewEncoder(w)
	s := &summary{Engine: "srlaws"}
	worst := map[string]float64{}
	for c := 0; c < n; c++ {
		dt := 86400.0
		k := uni(r, 1e4, 2e5)
		m := []float64{1, 1, 0.6, 0.8, 0.5 + 0.5*r.Float64()}[r.Intn(5)]
		bias := 0.0
		if r.Intn(3) == 0 {
			bias = uni(r, 0, math.Min(0.45, dt/(2*k))) // within 2*k*bias <= dt
		}
		area := 0.0
		if r.Intn(2) == 0 {
			area = uni(r, 100, 5000)
		}
		dead := 0.0
		variant := "nodead"
		if r.Intn(5) == 0 {
			dead = uni(r, 100, 5000)
			variant = "deadstorage"
		}
		in := make([][]float64, 4) // inflow, lateral, rainfall, evap
		for j := range in {
			in[j] = make([]float64, T)
		}
		dry := false
		for t := 0; t < T; t++ {
			if r.Intn(6) == 0 {
				dry = !dry
			}
			if !dry {
				in[0][t] = uni(r, 0, 60)
				in[1][t] = uni(r, 0, 5)
			}
			in[2][t] = uni(r, 0, 0.02) * float64(r.Intn(2))
			in[3][t] = uni(r, 0, 0.008)
		}
		model := sim.Catalog["StorageRouting"]()
		p := data.NewArray2DFloat64(6, 1)
		for i, v := range []float64{bias, k, m, area, dead, dt} {
			p.Set2(i, 0, v)
		}
		iArr := data.NewArray3DFloat64(1, 4, T)
		for j := range in {
			for t := 0; t < T; t++ {
				iArr.Set3(0, j, t, in[j][t])
			}
		}
		oArr := data.NewArray3DFloat64(1, 2, T)
		var st data.ND2Float64
		if pm := protect(func() {
			model.ApplyParameters(p)
			st = model.InitialiseStates(1)
			model.Run(iArr, st, oArr)
		}); pm != "" {
			s.mismatch(map[string]interface{}{"kind": "panic", "detail": pm, "params": []float64{bias, k, m, area, dead, dt}})
			continue
		}
		// per-step observations
		type obs struct {
			resid, tolB, out, sto, rel, tolR float64
			relChecked                       bool
			zeroflow                         bool   // no inflow, no lateral inflow, no outflow in this step
			residClass                       string // "tiny" (< 1 m^3) or "large"
			atDead                           bool   // the reported storage (now or before) sits at or below the dead storage
			qconv                            bool   // the residual is within what an index-flow error of 2e-8 m^3/s (twice the solver's convergence limit on q) explains through S(q) at the reported storage
		}
		var os_ []obs
		prevS := 0.0
		for t := 0; t < T; t++ {
			O, S := oArr.Get3(0, 0, t), oArr.Get3(0, 1, t)
			evapRate := (in[3][t] - in[2][t]) / dt
			fluxMax := math.Max(0, prevS)/dt + in[0][t]
			netEvap := math.Min(fluxMax, area*evapRate)
			resid := math.Abs((S - prevS) - (in[0][t]+in[1][t]-O-netEvap)*dt)
			scale := math.Max(math.Abs(S), math.Max(math.Abs(prevS), (in[0][t]+in[1][t]+O)*dt))
			tolB := 2e-3 + 1e-9*scale
			o := obs{resid: resid, tolB: tolB, out: O, sto: S, zeroflow: in[0][t] == 0 && in[1][t] == 0 && O == 0, residClass: "tiny"}
			if resid >= 1 {
				o.residClass = "large"
			}
			o.atDead = dead > 0 && (S <= dead || prevS <= dead)
			if S >= dead && k > 0 {
				qs := math.Pow((S-dead)/k, 1/m)
				o.qconv = resid <= k*(math.Pow(qs+2e-8, m)-math.Pow(math.Max(qs-2e-8, 0), m))+tolB
			}
			// the relation is singular at Q -> 0 (dS/dQ unbounded for m < 1): judged for outflows above 1 l/s
			if bias == 0 && O > 1e-3 {
				o.relChecked = true
				o.rel = math.Abs(S - (k*math.Pow(O, m) + dead))
				// the solver closes the mass balance to 1e-3 m^3, i.e. the index flow to e = 1e-3/dt; propagated through S(Q)
				e := 2e-3 / dt
				up := k * (math.Pow(O+e, m) - math.Pow(O, m))
				down := k * (math.Pow(O, m) - math.Pow(math.Max(O-e, 0), m))
				o.tolR = 2e-3 + 1e-9*math.Abs(S) + math.Max(up, down)
			}
			if o.relChecked && o.rel > o.tolR && os.Getenv("SRDEBUG") != "" && dead == 0 {
				fmt.Fprintf(os.Stderr, "REL t=%d S=%g O=%g kOm=%g rel=%g tolR=%g prevS=%g I=%g L=%g rain=%g evap=%g netEvap=%g resid=%g params=%v\n", t, S, O, k*math.Pow(O, m), o.rel, o.tolR, prevS, in[0][t], in[1][t], in[2][t], in[3][t], netEvap, resid, []float64{bias, k, m, area, dead})
			}
			os_ = append(os_, o)
			if resid > worst[variant] {
				worst[variant] = resid
			}
			if resid > tolB && variant == "nodead" && os.Getenv("SRDEBUG") != "" {
				fmt.Fprintf(os.Stderr, "t=%d resid=%g tol=%g S=%g prevS=%g I=%g L=%g O=%g netEvap=%g potEvapVol=%g params=%v\n", t, resid, tolB, S, prevS, in[0][t], in[1][t], O, netEvap, area*evapRate*dt, []float64{bias, k, m, area, dead})
			}
			prevS = S
			if o.relChecked && o.rel > worst["rel-"+variant] {
				worst["rel-"+variant] = o.rel
			}
		}
		// rank-encode all floats of this case
		var all []float64
		all = append(all, 0)
		for _, o := range os_ {
			all = append(all, o.resid, o.tolB, o.out, o.sto)
			if o.relChecked {
				all = append(all, o.rel, o.tolR)
			}
		}
		nan := false
		for _, v := range all {
			if math.IsNaN(v) || math.IsInf(v, 0) {
				nan = true
			}
		}
		if nan {
			s.mismatch(map[string]interface{}{"kind": "non-finite", "detail": "outputs are not finite", "params": []float64{bias, k, m, area, dead, dt}})
			continue
		}
		sorted := append([]float64{}, all...)
		sort.Float64s(sorted)
		sorted = uniqSorted(sorted)
		rk := func(v float64) int { return rankOf(sorted, v) }
		enc.Encode(map[string]interface{}{"ev": "case", "variant": variant, "zero": rk(0), "bias0": bias == 0,
			"raw": []float64{bias, k, m, area, dead, dt}})
		for t, o := range os_ {
			e := map[string]interface{}{"ev": "step", "t": t, "resid": rk(o.resid), "tolb": rk(o.tolB), "out": rk(o.out), "sto": rk(o.sto), "relchecked": o.relChecked,
				"rel": 0, "tolr": 0, "zeroflow": o.zeroflow, "residclass": o.residClass, "atdead": o.atDead, "qconv": o.qconv}
			if o.relChecked {
				e["rel"], e["tolr"] = rk(o.rel), rk(o.tolR)
			}
			enc.Encode(e)
			s.Evaluations++
		}
		s.Distinct++
	}
	w.Flush()
	fh.Close()
	s.Extra = map[string]interface{}{"worst": worst}
	s.emit()
	return nil
}
