package main

import (
	"bufio"
	"encoding/json"
	"fmt"
	"math"
	"os"
	"strings"

	"github.com/flowmatters/openwater-core/data"
	"github.com/flowmatters/openwater-core/sim"
)

// exact engine (C11 Lag/Muskingum, C16): cases with expected outputs in exact rational arithmetic, computed
// by TLC from spec/ExactModels.tla, are run through the catalogue; float64(num)/float64(den) is compared with
// the real output.
//   vh exact <cases>
func init() { register("exact", exactEngine) }

// linear in inputs and states for fixed parameters (homogeneous of degree one): Lag's delay line, Muskingum's weights,
// sums, fixed-fraction partitions, constant factors
var linearModels = map[string]bool{"Lag": true, "Muskingum": true, "Sum": true, "Input": true, "FixedPartition": true,
	"ApplyScalingFactor": true, "DeliveryRatio": true}

// linear in the MASS quantities (the listed inputs, every state, every output) for fixed parameters and fixed water
// series: constituent models whose thresholds are all on water volumes.  LumpedConstituentRouting only when its point
// source (a mass rate given as a parameter) is zero.
var massLinearInputs = map[string]map[string]bool{
	"ConstituentDecay":           {"inflowLoad": true, "lateralLoad": true},
	"LumpedConstituentRouting":   {"inflowLoad": true, "lateralLoad": true},
	"StorageTrapAll":             {"inflowMass": true},
	"StorageDissolvedDecay":      {"inflowMass": true},
	"StorageParticulateTrapping": {"inflowLoad": true},
}

type rat [2]float64

func (r rat) f() float64 { return r[0] / r[1] }

type exCase struct {
	Exact struct {
		Model  string  `json:"model"`
		Params []rat   `json:"params"`
		Inputs [][]rat `json:"inputs"`
		States []rat   `json:"states"`
	} `json:"exact"`
	Out [][]rat `json:"out"`
	St  []rat   `json:"st"`
}

// nearly: within 1e-14 relative -- relative to the larger of the two values and of `scale`, the largest magnitude
// among the case's inputs, initial states and exact results (a float64 difference of two such quantities carries
// a rounding residual proportional to THEM, not to the exact difference, which may be 0)
func nearly(got, want, scale float64) bool {
	if got == want {
		return true
	}
	if math.IsNaN(got) || math.IsNaN(want) {
		return false
	}
	return math.Abs(got-want) <= 1e-14*math.Max(scale, math.Max(math.Abs(got), math.Abs(want)))+1e-300
}

func (c *exCase) scale() float64 {
	m := 0.0
	up := func(r rat) {
		if v := math.Abs(r.f()); v > m && !math.IsInf(v, 0) {
			m = v
		}
	}
	for _, s := range c.Exact.Inputs {
		for _, r := range s {
			up(r)
		}
	}
	for _, r := range c.Exact.States {
		up(r)
	}
	for _, s := range c.Out {
		for _, r := range s {
			up(r)
		}
	}
	for _, r := range c.St {
		up(r)
	}
	return m
}

func exactEngine(args []string) error {
	if len(args) < 1 {
		return fmt.Errorf("usage: exact <cases>")
	}
	fh, err := os.Open(args[0])
	if err != nil {
		return err
	}
	defer fh.Close()
	s := &summary{Engine: "exact"}
	perKey := map[string]int{}
	kinds := map[string]int{}
	perModel := map[string]int{}
	sc := bufio.NewScanner(fh)
	sc.Buffer(make([]byte, 1<<20), 1<<24)
	for sc.Scan() {
		line := mustCaseJSON(sc.Text())
		if !strings.HasPrefix(line, "{\"exact\"") {
			continue
		}
		var c exCase
		if err := json.Unmarshal([]byte(line), &c); err != nil {
			return err
		}
		e := &c.Exact
		s.Evaluations++
		perModel[e.Model]++
		fail := func(kind, detail string) {
			key := kind + "/" + e.Model
			kinds[key]++
			perKey[key]++
			s.NMismatch++
			if perKey[key] <= 3 && len(s.Mismatches) < 60 {
				var cj interface{}
				json.Unmarshal([]byte(line), &cj)
				s.Mismatches = append(s.Mismatches, map[string]interface{}{"kind": kind, "model": e.Model, "detail": detail, "case": cj})
			}
		}
		factory, ok := sim.Catalog[e.Model]
		if !ok {
			fail("not-in-catalogue", "model missing from the catalogue")
			continue
		}
		m := factory()
		desc := m.Description()
		T := len(e.Inputs[0])
		scale := c.scale()
		pArr := data.NewArray2DFloat64(len(e.Params), 1)
		for i, p := range e.Params {
			pArr.Set2(i, 0, p.f())
		}
		ns := len(e.States)
		sArr := data.NewArray2DFloat64(1, ns)
		for k, v := range e.States {
			sArr.Set2(0, k, v.f())
		}
		iArr := data.NewArray3DFloat64(1, len(e.Inputs), T)
		for j := range e.Inputs {
			for t := 0; t < T; t++ {
				iArr.Set3(0, j, t, e.Inputs[j][t].f())
			}
		}
		oArr := data.NewArray3DFloat64(1, len(desc.Outputs), T)
		if len(e.Inputs) != len(desc.Inputs) || len(c.Out) != len(desc.Outputs) {
			fail("arity", fmt.Sprintf("specification has %d inputs / %d outputs, the catalogue %d / %d", len(e.Inputs), len(c.Out), len(desc.Inputs), len(desc.Outputs)))
			continue
		}
		// the case is run TWICE on the same model object, parameter array and input array (fresh copy of the initial
		// states, cleared outputs): a model may not use its arguments as scratch space, so the second run must give the
		// exact values again
		applied := false
		// models that are linear in (inputs, states) for fixed parameters get two more passes with everything scaled
		// by 2^-40 and 2^40 (exact in binary floating point): the results must scale with it -- thresholds such as
		// "flows below 1e-9 are nothing" break that
		npass := 2
		if linearModels[e.Model] {
			npass = 4
		}
		massIn, massLinear := massLinearInputs[e.Model]
		if massLinear && e.Model == "LumpedConstituentRouting" {
			for pi, pd := range desc.Parameters {
				if pd.Name == "pointInput" && pi < len(e.Params) && e.Params[pi].f() != 0 {
					massLinear = false
				}
			}
		}
		if massLinear {
			npass = 4
		}
		for pass := 1; pass <= npass; pass++ {
			if pass >= 3 {
				sc := math.Ldexp(1, -40)
				if pass == 4 {
					sc = math.Ldexp(1, 40)
				}
				m2 := factory()
				sArr2 := data.NewArray2DFloat64(1, ns)
				for k, v := range e.States {
					sArr2.Set2(0, k, v.f()*sc)
				}
				iArr2 := data.NewArray3DFloat64(1, len(e.Inputs), T)
				for j := range e.Inputs {
					for t := 0; t < T; t++ {
						if massLinear && !massIn[desc.Inputs[j]] {
							iArr2.Set3(0, j, t, e.Inputs[j][t].f()) // a water series: not scaled
						} else {
							iArr2.Set3(0, j, t, e.Inputs[j][t].f()*sc)
						}
					}
				}
				oArr2 := data.NewArray3DFloat64(1, len(desc.Outputs), T)
				if pm := protect(func() {
					m2.ApplyParameters(pArr)
					m2.Run(iArr2, sArr2, oArr2)
				}); pm != "" {
					fail("panic", fmt.Sprintf("%s (inputs and states scaled by 2^%d)", pm, map[int]int{3: -40, 4: 40}[pass]))
					break
				}
				bad := false
				for k := range c.Out {
					for t := 0; t < T && !bad; t++ {
						got, want := oArr2.Get3(0, k, t), c.Out[k][t].f()*sc
						if !nearly(got/sc, want/sc, scale) {
							fail("output", fmt.Sprintf("with inputs and states scaled by 2^%d: output %s[%d] = %v, the scaled exact value is %v (linear / mass-linear model)", map[int]int{3: -40, 4: 40}[pass], desc.Outputs[k], t, got, want))
							bad = true
						}
					}
				}
				for k := range c.St {
					if bad {
						break
					}
					got, want := sArr2.Get2(0, k), c.St[k].f()*sc
					if !nearly(got/sc, want/sc, scale) {
						fail("state", fmt.Sprintf("with inputs and states scaled by 2^%d: final state %d = %v, the scaled exact value is %v (linear / mass-linear model)", map[int]int{3: -40, 4: 40}[pass], k, got, want))
						bad = true
					}
				}
				if bad {
					break
				}
				continue
			}
			note := ""
			if pass == 2 {
				note = " (second run on the same parameter and input arrays)"
				sArr = data.NewArray2DFloat64(1, ns)
				for k, v := range e.States {
					sArr.Set2(0, k, v.f())
				}
				oArr = data.NewArray3DFloat64(1, len(desc.Outputs), T)
			}
			if pm := protect(func() {
				if !applied {
					dims := m.FindDimensions(pArr)
					if len(dims) > 0 {
						m.InitialiseDimensions(dims)
					}
					m.ApplyParameters(pArr)
					applied = true
				}
				if ns == 0 {
					if st := m.InitialiseStates(1); st.Len(1) != 0 {
						sArr = st // stateless in the specification but the model keeps (unused) states
					}
				}
				m.Run(iArr, sArr, oArr)
			}); pm != "" {
				fail("panic", pm+note)
				break
			}
			bad := false
			for k := range c.Out {
				for t := 0; t < T; t++ {
					got, want := oArr.Get3(0, k, t), c.Out[k][t].f()
					if !nearly(got, want, scale) {
						fail("output", fmt.Sprintf("output %s[%d] = %v, exact value %v/%v = %v%s", desc.Outputs[k], t, got, c.Out[k][t][0], c.Out[k][t][1], want, note))
						k = len(c.Out) - 1
						bad = true
						break
					}
				}
			}
			for k := range c.St {
				got, want := sArr.Get2(0, k), c.St[k].f()
				if !nearly(got, want, scale) {
					fail("state", fmt.Sprintf("final state %d = %v, exact value %v%s", k, got, want, note))
					bad = true
					break
				}
			}
			if bad {
				break
			}
		}
		if e.Model == "Lag" {
			// Two links in one Run, the FIRST with a longer lag: the state table is as wide as the first link's buffer
			// (that is how the model's own InitialiseStates sizes it), so this case's buffer sits at the front of a row
			// that is one entry wider than its lag.  The link is still delayed by ITS lag (the specification's outputs and
			// buffer, unchanged); what the spare entry ends up holding is not asked.
			k := len(e.States)
			m3 := factory()
			p3 := data.NewArray2DFloat64(1, 2)
			p3.Set2(0, 0, float64(k+1))
			p3.Set2(0, 1, float64(k))
			s3 := data.NewArray2DFloat64(2, k+1)
			for j := 0; j <= k; j++ {
				s3.Set2(0, j, float64(3+j))
				s3.Set2(1, j, 12345)
			}
			for j, v := range e.States {
				s3.Set2(1, j, v.f())
			}
			o3 := data.NewArray3DFloat64(2, len(desc.Outputs), T)
			if pm := protect(func() {
				m3.ApplyParameters(p3)
				m3.Run(iArr, s3, o3)
			}); pm != "" {
				fail("panic", pm+" (second link of two, state table one entry wider than its lag)")
			} else {
				bad := false
				for t := 0; t < T && !bad; t++ {
					if got, want := o3.Get3(1, 0, t), c.Out[0][t].f(); !nearly(got, want, scale) {
						fail("output", fmt.Sprintf("second of two links (lags %d and %d, state table %d wide): output[%d] = %v, the inflow delayed by %d steps is %v", k+1, k, k+1, t, got, k, want))
						bad = true
					}
				}
				for j := range c.St {
					if got, want := s3.Get2(1, j), c.St[j].f(); !bad && !nearly(got, want, scale) {
						fail("state", fmt.Sprintf("second of two links (lags %d and %d, state table %d wide): buffer entry %d = %v, exact value %v", k+1, k, k+1, j, got, want))
						bad = true
					}
				}
			}
		}
		if perModel[e.Model] == 2 && len(s.Samples) < 4 {
			var cj interface{}
			json.Unmarshal([]byte(line), &cj)
			s.sample(cj)
		}
	}
	s.Distinct = s.Evaluations
	s.Extra = map[string]interface{}{"per_model": perModel, "fail_kinds": kinds}
	s.emit()
	return nil
}
