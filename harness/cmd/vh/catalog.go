package main

import (
	"encoding/json"
	"fmt"
	"sort"

	_ "github.com/flowmatters/openwater-core/models"
	"github.com/flowmatters/openwater-core/sim"
)

func init() { register("catalog", catalogEngine) }

func modelNames() []string {
	var names []string
	for n := range sim.Catalog {
		names = append(names, n)
	}
	sort.Strings(names)
	return names
}

// catalog: dump the Description() of every catalogued model as JSON.
func catalogEngine(args []string) error {
	out := map[string]interface{}{}
	for _, n := range modelNames() {
		out[n] = sim.Catalog[n]().Description()
	}
	b, _ := json.Marshal(out)
	fmt.Println(string(b))
	return nil
}
