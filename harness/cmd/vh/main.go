// Command vh is the Go side of the /verif machinery: one sub-command ("engine") per
// binding between a TLA+ specification in /verif/spec and the real openwater-core code.
// Engines read cases / schedules produced by TLC, drive the real code, and either compare
// with the specification's predictions (B1) or record traces for TLC to validate (B2).
// Every engine prints one JSON summary object as its last line on stdout.
package main

import (
	"encoding/json"
	"fmt"
	"os"
	"sort"
	"strconv"
)

type engine func(args []string) error

var engines = map[string]engine{}

func register(name string, e engine) { engines[name] = e }

func seed() int64 {
	s, err := strconv.ParseInt(os.Getenv("VERIF_SEED"), 10, 64)
	if err != nil {
		return 1
	}
	return s
}

// summary is what every engine reports.
type summary struct {
	Engine      string        `json:"engine"`
	Evaluations int           `json:"evaluations"`
	Distinct    int           `json:"distinct_nontrivial"`
	Mismatches  []interface{} `json:"mismatches"`
	NMismatch   int           `json:"n_mismatch"`
	Samples     []interface{} `json:"samples"`
	Extra       map[string]interface{} `json:"extra,omitempty"`
}

func (s *summary) mismatch(m interface{}) {
	s.NMismatch++
	if len(s.Mismatches) < 50 {
		s.Mismatches = append(s.Mismatches, m)
	}
}

func (s *summary) sample(m interface{}) {
	if len(s.Samples) < 4 {
		s.Samples = append(s.Samples, m)
	}
}

func (s *summary) emit() {
	if s.Mismatches == nil {
		s.Mismatches = []interface{}{}
	}
	if s.Samples == nil {
		s.Samples = []interface{}{}
	}
	b, _ := json.Marshal(s)
	fmt.Println(string(b))
}

func main() {
	if len(os.Args) < 2 {
		names := []string{}
		for n := range engines {
			names = append(names, n)
		}
		sort.Strings(names)
		fmt.Fprintln(os.Stderr, "usage: vh <engine> [args]; engines:", names)
		os.Exit(2)
	}
	e, ok := engines[os.Args[1]]
	if !ok {
		fmt.Fprintln(os.Stderr, "unknown engine", os.Args[1])
		os.Exit(2)
	}
	if err := e(os.Args[2:]); err != nil {
		fmt.Fprintln(os.Stderr, "engine error:", err)
		os.Exit(3)
	}
}
