package main

import (
	"bufio"
	"encoding/json"
	"fmt"
	"os"
	"strings"

	"github.com/flowmatters/openwater-core/data"
)

// indexops engine (C02): (arguments, expected) pairs computed by TLC from spec/IndexOps.tla are
// replayed on the exported integer helpers of the data package.
func init() { register("indexops", indexopsEngine) }

type ioCase struct {
	D         []int `json:"d"`
	V         []int `json:"v"`
	Offsets   []int `json:"offsets"`
	Product   int   `json:"product"`
	ProductV  int   `json:"productv"`
	Multiply  []int `json:"multiply"`
	Argmax    int   `json:"argmax"`
	Maximum   int   `json:"maximum"`
	InRange   bool  `json:"inrange"`
	Increment []int `json:"increment"`
	Rank      int   `json:"rank"`
	IDivMod   []int `json:"idivmod"`
	IDivModN  int   `json:"idivmod_n"`
}

func indexopsEngine(args []string) error {
	if len(args) < 1 {
		return fmt.Errorf("usage: indexops <cases>")
	}
	fh, err := os.Open(args[0])
	if err != nil {
		return err
	}
	defer fh.Close()
	s := &summary{Engine: "indexops"}
	sc := bufio.NewScanner(fh)
	sc.Buffer(make([]byte, 1<<20), 1<<24)
	bad := func(c *ioCase, fn string, got, want interface{}) {
		s.mismatch(map[string]interface{}{"fn": fn, "d": c.D, "v": c.V, "got": got, "want": want})
	}
	for sc.Scan() {
		line := mustCaseJSON(sc.Text())
		if !strings.HasPrefix(line, "{\"d\"") {
			continue
		}
		var c ioCase
		if err := json.Unmarshal([]byte(line), &c); err != nil {
			return err
		}
		s.Evaluations++
		cp := func(x []int) []int { return append([]int{}, x...) }
		msg := protect(func() {
			if g := data.Offsets(cp(c.D)); !eqInts(g, c.Offsets) {
				bad(&c, "Offsets", g, c.Offsets)
			}
			if g := data.Product(cp(c.D)); g != c.Product {
				bad(&c, "Product", g, c.Product)
			}
			if g := data.Product(cp(c.V)); g != c.ProductV {
				bad(&c, "Product", g, c.ProductV)
			}
			if g := data.Multiply(cp(c.V), cp(c.D)); !eqInts(g, c.Multiply) {
				bad(&c, "Multiply", g, c.Multiply)
			}
			if g := data.Argmax(cp(c.V)); g != c.Argmax {
				bad(&c, "Argmax", g, c.Argmax)
			}
			if g := data.Maximum(cp(c.V)); g != c.Maximum {
				bad(&c, "Maximum", g, c.Maximum)
			}
			if g := data.IDivMod(c.IDivModN, cp(c.Offsets), cp(c.D)); !eqInts(g, c.IDivMod) {
				bad(&c, "IDivMod", g, c.IDivMod)
			}
			if c.InRange {
				v := cp(c.V)
				wrt := cp(c.D)
				data.Increment(v, wrt)
				if !eqInts(v, c.Increment) {
					bad(&c, "Increment", v, c.Increment)
				}
				if !eqInts(wrt, c.D) {
					bad(&c, "Increment(wrt mutated)", wrt, c.D)
				}
				// the array operations that rely on the unexported helpers: a root array of shape d
				// addresses element v at row-major rank Rank(v, d)
				a := data.ARangeInt(c.Product).MustReshape(cp(c.D))
				if g := a.Get(cp(c.V)); g != c.Rank {
					bad(&c, "Get-on-ARange (dotProduct/Offsets)", g, c.Rank)
				}
			}
		})
		if msg != "" {
			bad(&c, "panic", msg, nil)
		}
		if s.Evaluations%1500 == 1 {
			s.sample(c)
		}
	}
	s.Distinct = s.Evaluations
	s.emit()
	return nil
}
