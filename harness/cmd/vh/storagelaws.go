package main

import (
	"bufio"
	"encoding/json"
	"fmt"
	"math"
	"math/rand"
	"os"
	"sort"

	"github.com/flowmatters/openwater-core/models/storage"
)

// storagelaws engine (C13): the catalogued Storage model is run on seeded cases -- monotone level / volume /
// area tables and release curves of 2..5 points, inflow / demand / rainfall / PET series that fill the storage to
// spill, draw it down towards empty, or mix both -- and one observation per timestep is logged for
// spec/TraceStorage.tla, RANK-encoded among the floats of the case -- and, through the verif hook of the solver,
// one observation per trial evaluation of the release rule, per spill and per accepted sub-timestep, so that the
// release clauses are judged at exactly the volumes the solver traversed.  Ranks are taken after merging floats
// that agree to one part in 1e12 (the engine's own table look-up and the model's may differ in the last bit), so
// equality of ranks means "equal to 1e-12".  Sums and table look-ups are evaluated here in float64; the
// specification compares them and applies the release rule.
//
//   vh storagelaws <trace.ndjson> <cases> <timesteps> [-from k -progress file]
func init() { register("storagelaws", storagelawsEngine) }

// interp: piecewise-linear table look-up, capped at both ends (the model's cappedPiecewise)
func interp(x float64, xs, ys []float64) float64 {
	n := len(xs)
	if x <= xs[0] {
		return ys[0]
	}
	if x >= xs[n-1] {
		return ys[n-1]
	}
	for j := 1; j < n; j++ {
		if x <= xs[j] {
			return ys[j-1] + (x-xs[j-1])/(xs[j]-xs[j-1])*(ys[j]-ys[j-1])
		}
	}
	return ys[n-1]
}

type stCase struct {
	n                                          int
	dt                                         float64
	levels, volumes, areas, minRel, maxRel     []float64
	rain, pet, inflow, demand                  []float64
	tminVol, tminCap                           []float64 // the two further input series of the model (targetMinimumVolume / targetMinimumCapacity)
	v0                                         float64
	style                                      string
}

var stiffLong = false

func stInterp(x float64, xs, ys []float64) float64 {
	if x <= xs[0] {
		return ys[0]
	}
	for j := 1; j < len(xs); j++ {
		if x <= xs[j] {
			return ys[j-1] + (x-xs[j-1])/(xs[j]-xs[j-1])*(ys[j]-ys[j-1])
		}
	}
	return ys[len(ys)-1]
}

func genStorageCase(r *rand.Rand, T int) *stCase {
	c := &stCase{n: 2 + r.Intn(4), dt: []float64{86400, 86400, 3600}[r.Intn(3)]}
	if r.Intn(5) == 0 {
		c.n = 9 + r.Intn(6) // long tables (9..14 points)
	}
	n := c.n
	c.levels, c.volumes, c.areas, c.minRel, c.maxRel = make([]float64, n), make([]float64, n), make([]float64, n), make([]float64, n), make([]float64, n)
	lv, vol, ar := 100.0, 0.0, r.Float64()*5e4
	if r.Intn(3) == 0 {
		ar = 0
	}
	mn, mx := 0.0, 0.0
	for k := 0; k < n; k++ {
		if k > 0 {
			lv += 1 + r.Float64()*10
			vol += (0.2 + r.Float64()) * 2e6
			ar += r.Float64() * 3e5
			mx += r.Float64() * 40
			if k == n-1 {
				mn = math.Max(mn, mx*r.Float64()+5) // spillway: the minimum release at full supply
				mx = math.Max(mx, mn) + r.Float64()*50
			} else if r.Intn(2) == 0 {
				mn = math.Min(mn+r.Float64()*3, mx)
			}
		}
		c.levels[k], c.volumes[k], c.areas[k], c.minRel[k], c.maxRel[k] = lv, vol, ar, mn, mx
	}
	if r.Intn(4) == 0 && !stiffLong {
		// a table that starts ABOVE empty (dead storage below the lowest surveyed point, outlets that already pass water
		// there): below its first point every curve is held at its first value
		dead := (0.05 + 0.2*r.Float64()) * c.volumes[n-1]
		for k := range c.volumes {
			c.volumes[k] += dead
		}
		base := 0.2 + r.Float64()
		for k := range c.minRel {
			c.minRel[k] += base
			c.maxRel[k] += base + 1
		}
	}
	full := c.volumes[n-1]
	c.style = []string{"fill", "drawdown", "mixed", "quiet", "weir", "surcharged", "idle", "drain"}[r.Intn(8)]
	if stiffLong {
		c.style = "stiff-long"
	}
	if c.style == "drain" {
		// a storage without a water surface (no evaporation) whose outlet passes whatever is there within seconds once it
		// is nearly empty: coinciding release curves rising from 0 at empty to V1/tau at a first point of a few hundred m3
		// (tau 6..10 s) and flat above; it is drawn down to next to nothing inside a timestep and then follows a small
		// inflow -- the solver ends up on its shortest sub-timesteps
		c.n, n = 3, 3
		v1 := 100 + 400*r.Float64()
		q1 := v1 / (6 + 4*r.Float64())
		c.levels, c.volumes, c.areas = []float64{100, 101, 110}, []float64{0, v1, 1e6}, []float64{0, 0, 0}
		c.minRel, c.maxRel = []float64{0, q1, q1}, []float64{0, q1, q1}
		full = c.volumes[n-1]
	}
	if c.style == "idle" {
		// nothing changes: no surface (no rain / evaporation exchange) and a demand that equals the inflow and lies
		// between the release curves, or an empty storage with nothing coming in -- the volume at the end IS the
		// volume at the start, and level and area must still be reported as the table says
		for k := range c.areas {
			c.areas[k] = 0
		}
	}
	if stiffLong {
		// a linear reservoir (coinciding release curves proportional to the volume) that is stiff at the daily timestep:
		// one to two thousand sub-timesteps per day, for hundreds of days in ONE call
		c.style = "stiff-long"
		c.n, n = 2, 2
		c.dt = 86400
		k := (1 + r.Float64()) * 1.5e-5
		c.levels, c.volumes, c.areas = []float64{0, 100}, []float64{0, 1e9}, []float64{0, 0}
		c.minRel, c.maxRel = []float64{0, k * 1e9}, []float64{0, k * 1e9}
	}
	if c.style == "weir" {
		// a small pool behind a big spillway, held around its full-supply volume
		for k := range c.volumes {
			c.volumes[k] *= 0.05
		}
		full = c.volumes[n-1]
	}
	c.v0 = r.Float64() * full
	if c.style == "weir" {
		c.v0 = (0.8 + 0.2*r.Float64()) * full
	}
	if c.style == "surcharged" {
		// starts ABOVE the full-supply volume (where a run ends when the inflow exceeded what the spillway passes)
		c.v0 = (1.02 + 0.5*r.Float64()) * full
	}
	if c.style == "stiff-long" {
		c.v0 = 0
	}
	if c.style == "drain" {
		c.v0 = c.maxRel[1] * c.dt * (0.1 + 0.8*r.Float64()) // gone within the first timestep
	}
	idleQ := 0.0
	if c.style == "idle" {
		if r.Intn(3) == 0 {
			c.v0 = 0
			if c.minRel[0] > 0 {
				c.v0 = c.volumes[n-1] * 0.5
			}
		}
		lo, hi := stInterp(c.v0, c.volumes, c.minRel), stInterp(c.v0, c.volumes, c.maxRel)
		idleQ = lo + (hi-lo)*r.Float64()
	}
	c.rain, c.pet, c.inflow, c.demand = make([]float64, T), make([]float64, T), make([]float64, T), make([]float64, T)
	c.tminVol, c.tminCap = make([]float64, T), make([]float64, T)
	if r.Intn(3) == 0 {
		// the model reads two more input series; whatever it does with them, the laws hold
		a, b := r.Float64()*0.3*full, r.Float64()*0.3*full
		for t := 0; t < T; t++ {
			c.tminVol[t], c.tminCap[t] = a*r.Float64(), b*r.Float64()
		}
	}
	perDay := c.dt / 86400
	for t := 0; t < T; t++ {
		switch c.style {
		case "fill":
			c.inflow[t] = r.Float64() * 4 * full / (float64(T) * c.dt) * 3
			c.demand[t] = r.Float64() * 5
			c.rain[t] = r.ExpFloat64() * 10 * perDay
			c.pet[t] = r.Float64() * 4 * perDay
		case "drawdown":
			c.inflow[t] = r.Float64() * 0.5
			c.demand[t] = r.Float64() * 3 * full / (float64(T) * c.dt)
			c.pet[t] = r.Float64() * 12 * perDay
		case "surcharged":
			c.inflow[t] = c.maxRel[n-1] * 2 * r.Float64()
			if (t/7)%2 == 1 {
				c.inflow[t] = 0
			}
			c.demand[t] = r.Float64() * 5
			c.rain[t] = r.ExpFloat64() * 5 * perDay
			c.pet[t] = r.Float64() * 4 * perDay
		case "drain":
			c.inflow[t] = 0.01 + 0.5*r.Float64()
			if (t/5)%3 == 2 {
				c.inflow[t] = c.maxRel[1] * 3 * r.Float64() // a refill now and then
			}
			c.demand[t] = r.Float64() * 2
		case "idle":
			c.inflow[t], c.demand[t] = idleQ, idleQ
		case "stiff-long":
			c.inflow[t] = []float64{10, 30}[(t/3)%2] * (0.5 + r.Float64())
		case "quiet":
			c.inflow[t] = r.Float64() * 2
			c.demand[t] = r.Float64() * 2
		case "weir":
			c.inflow[t] = c.minRel[n-1] * (0.9 + 0.5*r.Float64())
			c.demand[t] = r.Float64() * c.minRel[n-1]
			if r.Intn(3) == 0 {
				c.demand[t] = 0
			}
		default:
			if (t/10)%2 == 0 {
				c.inflow[t] = r.Float64() * 6 * full / (float64(T) * c.dt) * 3
			}
			c.demand[t] = r.Float64() * 20
			c.rain[t] = r.ExpFloat64() * 5 * perDay
			c.pet[t] = r.Float64() * 8 * perDay
		}
	}
	return c
}

func storagelawsEngine(args []string) error {
	if len(args) < 3 {
		return fmt.Errorf("usage: storagelaws <trace> <cases> <timesteps> [-from k] [-progress f]")
	}
	var nCases, T, from int
	only, steps, capPerStep := -1, 0, 300
	progress := ""
	fmt.Sscan(args[1], &nCases)
	fmt.Sscan(args[2], &T)
	for i := 3; i < len(args); i++ {
		switch args[i] {
		case "-from":
			i++
			fmt.Sscan(args[i], &from)
		case "-progress":
			i++
			progress = args[i]
		case "-cap":
			i++
			fmt.Sscan(args[i], &capPerStep)
		case "-only": // run case k alone ...
			i++
			fmt.Sscan(args[i], &only)
		case "-steps": // ... over its first n timesteps (locating the timestep at which a run dies)
			i++
			fmt.Sscan(args[i], &steps)
		}
	}
	fh, err := os.OpenFile(args[0], os.O_APPEND|os.O_CREATE|os.O_WRONLY, 0644)
	if err != nil {
		return err
	}
	w := bufio.NewWriterSize(fh, 1<<20)
	enc := json.NewEncoder(w)
	s := &summary{Engine: "storagelaws"}
	for cno := 0; cno < nCases; cno++ {
		r := rand.New(rand.NewSource(seed()*7919 + int64(cno)))
		T := T
		stiffLong = cno%150 == 7
		if stiffLong {
			T = 420
		}
		c := genStorageCase(r, T)
		stiffLong = false
		if cno < from || (only >= 0 && cno != only) {
			continue
		}
		if steps > 0 && steps < T {
			T = steps
			c.rain, c.pet, c.inflow, c.demand = c.rain[:T], c.pet[:T], c.inflow[:T], c.demand[:T]
		}
		if progress != "" {
			pj, _ := json.Marshal(map[string]interface{}{"case": cno, "style": c.style, "n": c.n, "dt": c.dt, "v0": c.v0,
				"levels": c.levels, "volumes": c.volumes, "areas": c.areas, "minRelease": c.minRel, "maxRelease": c.maxRel,
				"inflow": c.inflow, "demand": c.demand, "rain": c.rain, "pet": c.pet})
			os.WriteFile(progress, pj, 0644)
		}
		mc := genCase(r, "Storage", 1, 1, 1, T)
		for pi, p := range mc.Desc.Parameters {
			switch p.Name {
			case "DeltaT":
				mc.PVals[pi][0] = []float64{c.dt}
			case "nLVA":
				mc.PVals[pi][0] = []float64{float64(c.n)}
			case "levels":
				mc.PVals[pi][0] = c.levels
			case "volumes":
				mc.PVals[pi][0] = c.volumes
			case "areas":
				mc.PVals[pi][0] = c.areas
			case "minRelease":
				mc.PVals[pi][0] = c.minRel
			case "maxRelease":
				mc.PVals[pi][0] = c.maxRel
			}
		}
		mc.TableLen = []int{c.n}
		mc.layout()
		mc.Inputs = [][][]float64{{c.rain, c.pet, c.inflow, c.demand, c.tminVol[:T], c.tminCap[:T]}}
		mc.States = [][]float64{{c.v0, 0, 0}}
		type hookEv struct {
			kind string
			v    []float64
		}
		var hooked [][]hookEv // per timestep
		var cur []hookEv
		acc := 0.0
		storage.VerifHook = func(kind string, vals ...float64) {
			if len(hooked) >= T {
				return // runVector repeats the run on the same arrays; the first run is the one observed
			}
			cur = append(cur, hookEv{kind, append([]float64{}, vals...)})
			if kind == "substep" {
				acc += vals[2]
				if acc >= c.dt*(1-1e-12) {
					hooked = append(hooked, cur)
					cur, acc = nil, 0
				}
			}
		}
		res, pm := mc.runVector("go", 1, T, nil)
		storage.VerifHook = nil
		if pm != "" {
			s.NMismatch++
			s.Mismatches = append(s.Mismatches, map[string]interface{}{"kind": "panic", "model": "Storage", "detail": pm})
			continue
		}
		out := func(k, t int) float64 { return res.Out[k*T+t] }
		full := c.volumes[c.n-1]
		if len(hooked) != T {
			s.NMismatch++
			s.Mismatches = append(s.Mismatches, map[string]interface{}{"kind": "hook-count", "model": "Storage",
				"detail": fmt.Sprintf("sub-timesteps of %d timesteps observed, %d timesteps run: the sub-timesteps of a timestep do not add up to DeltaT", len(hooked), T)})
			continue
		}
		// every float that is compared goes into one pool; ranks after merging values equal to 1e-12
		var pool []float64
		add := func(xs ...float64) {
			for _, x := range xs {
				if !math.IsNaN(x) && !math.IsInf(x, 0) {
					pool = append(pool, x)
				}
			}
		}
		add(0, full)
		type stepObs struct {
			finite                                   bool
			vol, balResid, balTol, conResid, conTol float64
		}
		so := make([]stepObs, T)
		prev := c.v0
		for t := 0; t < T; t++ {
			o := &so[t]
			v, q, rv, ev := out(0, t), out(1, t), out(2, t), out(3, t)
			o.finite = true
			for _, x := range []float64{v, q, rv, ev} {
				if math.IsNaN(x) || math.IsInf(x, 0) {
					o.finite = false
				}
			}
			o.vol = v
			// dV = (inflow - outflow) dt + (rainfall volume - evaporation volume) dt
			o.balResid = math.Abs((v - prev) - ((c.inflow[t]-q)*c.dt + (rv-ev)*c.dt))
			o.balTol = 1e-9 * (math.Abs(v) + math.Abs(prev) + (c.inflow[t]+math.Abs(q)+math.Abs(rv)+math.Abs(ev))*c.dt + 1)
			// the reported outflow is what the accepted sub-timesteps released plus what was spilled
			released := 0.0
			for _, h := range hooked[t] {
				switch h.kind {
				case "substep":
					released += h.v[1] * h.v[2]
					add(h.v[0])
				case "spill":
					released += h.v[1]
					add(h.v[0], h.v[1], h.v[0]-full)
				case "trial":
					d, v1, r1, v2, r2 := h.v[0], h.v[1], h.v[2], h.v[3], h.v[4]
					add(d, c.demand[t], r1, r2, interp(v1, c.volumes, c.minRel), interp(v1, c.volumes, c.maxRel), interp(v2, c.volumes, c.minRel), interp(v2, c.volumes, c.maxRel))
				}
			}
			o.conResid = math.Abs(q*c.dt - released)
			o.conTol = 1e-9 * (math.Abs(q)*c.dt + 1)
			add(o.vol, o.balResid, o.balTol, o.conResid, o.conTol)
			prev = v
		}
		// final level and area are the table values of the final volume
		fv := res.States[0]
		lvResid := math.Abs(res.States[1] - interp(fv, c.volumes, c.levels))
		arResid := math.Abs(res.States[2] - interp(fv, c.volumes, c.areas))
		lvTol := 1e-9 * (math.Abs(res.States[1]) + 1)
		arTol := 1e-9 * (math.Abs(res.States[2]) + 1)
		stateIsVol := res.States[0] == out(0, T-1)
		add(lvResid, arResid, lvTol, arTol)
		sort.Float64s(pool)
		var reps []float64 // representative (smallest member) of every cluster
		for _, x := range pool {
			if len(reps) == 0 || math.Abs(x-reps[len(reps)-1]) > 1e-12*math.Max(math.Abs(x), math.Abs(reps[len(reps)-1])) {
				reps = append(reps, x)
			}
		}
		rank := func(x float64) int {
			if math.IsNaN(x) || math.IsInf(x, 0) {
				return -1
			}
			k := sort.SearchFloat64s(reps, x)
			// x belongs to the cluster of the representative just below it if that one is within 1e-12
			if k > 0 && (k == len(reps) || reps[k] != x) && math.Abs(x-reps[k-1]) <= 1e-12*math.Max(math.Abs(x), math.Abs(reps[k-1])) {
				return k - 1
			}
			return k
		}
		enc.Encode(map[string]interface{}{"ev": "case", "case": cno, "style": c.style, "zero": rank(0), "full": rank(full), "n": c.n, "dt": c.dt})
		for t := 0; t < T; t++ {
			// a timestep may take tens of thousands of sub-timesteps: every spill is logged, of the trials and
			// sub-timesteps at most about -cap (default 300) per timestep, evenly spaced (all of them enter the sums above)
			stride := len(hooked[t])/capPerStep + 1
			for hi, h := range hooked[t] {
				if h.kind != "spill" && hi%stride != 0 && hi != len(hooked[t])-1 {
					continue
				}
				switch h.kind {
				case "trial":
					d, v1, r1, v2, r2 := h.v[0], h.v[1], h.v[2], h.v[3], h.v[4]
					enc.Encode(map[string]interface{}{"ev": "trial", "t": t, "dem": rank(d), "demin": rank(c.demand[t]),
						"r1": rank(r1), "lo1": rank(interp(v1, c.volumes, c.minRel)), "hi1": rank(interp(v1, c.volumes, c.maxRel)),
						"r2": rank(r2), "lo2": rank(interp(v2, c.volumes, c.minRel)), "hi2": rank(interp(v2, c.volumes, c.maxRel)),
						"raw": map[string]interface{}{"demand": d, "demand_input": c.demand[t], "v1": v1, "release1": r1, "min1": interp(v1, c.volumes, c.minRel), "max1": interp(v1, c.volumes, c.maxRel),
							"v2": v2, "release2": r2, "min2": interp(v2, c.volumes, c.minRel), "max2": interp(v2, c.volumes, c.maxRel)}})
				case "spill":
					enc.Encode(map[string]interface{}{"ev": "spill", "t": t, "v": rank(h.v[0]), "excess": rank(h.v[1]), "room": rank(h.v[0] - full),
						"raw": map[string]interface{}{"volume": h.v[0], "excess": h.v[1], "full": full}})
				case "substep":
					enc.Encode(map[string]interface{}{"ev": "substep", "t": t, "v": rank(h.v[0]),
						"raw": map[string]interface{}{"volume": jsonable(h.v[0]), "outflow": jsonable(h.v[1]), "seconds": h.v[2]}})
				}
				s.Evaluations++
			}
			o := &so[t]
			enc.Encode(map[string]interface{}{"ev": "step", "t": t, "finite": o.finite, "vol": rank(o.vol),
				"balresid": rank(o.balResid), "baltol": rank(o.balTol), "conresid": rank(o.conResid), "contol": rank(o.conTol),
				"raw": map[string]interface{}{"vol": jsonable(o.vol), "out": jsonable(out(1, t)), "balresid": jsonable(o.balResid), "baltol": o.balTol, "conresid": jsonable(o.conResid),
					"inflow": c.inflow[t], "demand": c.demand[t], "rain": c.rain[t], "pet": c.pet[t], "rainvol": jsonable(out(2, t)), "evapvol": jsonable(out(3, t)), "full": full, "substeps": len(hooked[t])}})
			s.Evaluations++
		}
		enc.Encode(map[string]interface{}{"ev": "final", "lvresid": rank(lvResid), "lvtol": rank(lvTol), "arresid": rank(arResid), "artol": rank(arTol), "stateisvol": stateIsVol,
			"raw": map[string]interface{}{"volume": jsonable(fv), "level": jsonable(res.States[1]), "area": jsonable(res.States[2]), "table_level": interp(fv, c.volumes, c.levels), "table_area": interp(fv, c.volumes, c.areas)}})
		w.Flush()
		s.Distinct++
	}
	w.Flush()
	fh.Close()
	if progress != "" {
		os.WriteFile(progress, []byte("done"), 0644)
	}
	s.Extra = map[string]interface{}{"cases": nCases, "timesteps": T, "from": from}
	s.sample(map[string]interface{}{"cases": nCases, "timesteps": T})
	s.emit()
	return nil
}
