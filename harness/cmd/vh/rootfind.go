package main

import (
	"bufio"
	"encoding/json"
	"fmt"
	"math"
	"math/rand"
	"os"
	"sort"
	"strings"

	"github.com/flowmatters/openwater-core/data"
	"github.com/flowmatters/openwater-core/util/fn"
)

// rootfind engine (C18):
//   vh rootfind trace <out.ndjson> <nruns>   B2: instrumented closures record every evaluation FindRoot makes;
//                                            floats are rank-encoded per run (order-isomorphic)
//   vh rootfind piecewise <cases>            B5: fn.Piecewise against the exact tables of spec/Piecewise.tla
func init() { register("rootfind", rootfindEngine) }

type rfFamily struct {
	name string
	mono bool
	f    func(a, b, c float64) (func(float64) float64, func(float64) float64)
}

var rfFamilies = []rfFamily{
	{"linear", true, func(a, b, c float64) (func(float64) float64, func(float64) float64) {
		return func(x float64) float64 { return a*x - b }, func(x float64) float64 { return a }
	}},
	{"cubic", true, func(a, b, c float64) (func(float64) float64, func(float64) float64) {
		return func(x float64) float64 { return a*x*x*x + x - b }, func(x float64) float64 { return 3*a*x*x + 1 }
	}},
	{"tanh", true, func(a, b, c float64) (func(float64) float64, func(float64) float64) {
		return func(x float64) float64 { return math.Tanh(a*(x-b)) + c*0.1 }, func(x float64) float64 { t := math.Tanh(a * (x - b)); return a * (1 - t*t) }
	}},
	{"kinked", true, func(a, b, c float64) (func(float64) float64, func(float64) float64) {
		return func(x float64) float64 { return a*math.Max(0, x-b) - c }, func(x float64) float64 {
			if x > b {
				return a
			}
			return 0
		}
	}},
	{"flat-zero", true, func(a, b, c float64) (func(float64) float64, func(float64) float64) {
		// zero on [b, b+1], linear outside: continuous, non-decreasing, a whole interval of roots
		return func(x float64) float64 {
				if x < b {
					return a * (x - b)
				}
				if x > b+1 {
					return a * (x - b - 1)
				}
				return 0
			}, func(x float64) float64 {
				if x < b || x > b+1 {
					return a
				}
				return 0
			}
	}},
	{"power", true, func(a, b, c float64) (func(float64) float64, func(float64) float64) {
		// the shape of the storage-routing residual: q*dt + k*q^m - S
		return func(x float64) float64 { return x*86400 + a*1e4*math.Pow(math.Max(x, 0), 0.8) - b*1e5 }, func(x float64) float64 {
			if x <= 0 {
				return 86400
			}
			return 86400 + a*1e4*0.8*math.Pow(x, -0.2)
		}
	}},
	{"triple", true, func(a, b, c float64) (func(float64) float64, func(float64) float64) {
		// a triple root: Newton's step only contracts by 2/3, the secant point sticks to the near end -- the halving
		// trial is what guarantees progress
		return func(x float64) float64 { return a * (x - b) * (x - b) * (x - b) }, func(x float64) float64 { return 3 * a * (x - b) * (x - b) }
	}},
	{"expsat", true, func(a, b, c float64) (func(float64) float64, func(float64) float64) {
		// steep, convex, saturating: exp(k (x - r)) - 1 on [0, 1] with the root close to the upper end
		k, r := 20+60*(a-0.2)/3, 0.97+0.025*(c-0.1)/2
		return func(x float64) float64 { return math.Exp(k*(x-r)) - 1 }, func(x float64) float64 { return k * math.Exp(k*(x-r)) }
	}},
	{"sine", false, func(a, b, c float64) (func(float64) float64, func(float64) float64) {
		return func(x float64) float64 { return math.Sin(a*x) + 0.3*(x-b) }, func(x float64) float64 { return a*math.Cos(a*x) + 0.3 }
	}},
	{"wiggly-poly", false, func(a, b, c float64) (func(float64) float64, func(float64) float64) {
		return func(x float64) float64 { return (x - b) * (x - b - 1) * (x - b - 2) * a }, nil
	}},
}

type rfRun struct {
	Family string
	xs, fs []float64 // every float to be ranked
	events []map[string]interface{}
}

func rankOf(sorted []float64, v float64) int {
	return sort.SearchFloat64s(sorted, v) + 1
}

func uniqSorted(v []float64) []float64 {
	s := append([]float64{}, v...)
	sort.Float64s(s)
	out := s[:0]
	for i, x := range s {
		if i == 0 || x != s[i-1] {
			out = append(out, x)
		}
	}
	return out
}

func rootfindEngine(args []string) error {
	if len(args) < 2 {
		return fmt.Errorf("usage: rootfind trace|piecewise ...")
	}
	if args[0] == "piecewise" {
		return piecewiseEngine(args[1:])
	}
	var nruns int
	fmt.Sscan(args[2], &nruns)
	r := rand.New(rand.NewSource(seed()))
	fh, err := os.Create(args[1])
	if err != nil {
		return err
	}
	w := bufio.NewWriter(fh)
	enc := json.NewEncoder(w)
	s := &summary{Engine: "rootfind-trace"}
	fams := map[string]int{}
	for run := 0; run < nruns; run++ {
		fam := rfFamilies[r.Intn(len(rfFamilies))]
		a, b, c := 0.2+r.Float64()*3, r.Float64()*4, 0.1+r.Float64()*2
		f, dfx := fam.f(a, b, c)
		// find a bracket with f(min) <= 0 <= f(max)
		minX, maxX := b-1-r.Float64()*5, b+2+r.Float64()*8
		if fam.name == "power" || fam.name == "kinked" {
			minX = 0
			maxX = 50 + r.Float64()*100
		}
		if fam.name == "expsat" {
			minX, maxX = 0, 1
		}
		if !(f(minX) <= 0 && f(maxX) >= 0) {
			continue
		}
		initX := minX + r.Float64()*(maxX-minX)
		switch r.Intn(4) {
		case 0:
			initX = minX
		case 1:
			initX = maxX
		}
		tol := []float64{1e-3, 1e-6, 1e-9, 1e-12, 0.5}[r.Intn(5)]
		conv := []float64{1e-8, 1e-3, 1e-12, 0}[r.Intn(4)]
		maxIter := 1 + r.Intn(40)
		if fam.name == "expsat" && r.Intn(2) == 0 {
			maxIter = 2 + r.Intn(4) // the budget runs out long before the tolerance is met
		}
		// how many halvings of the initial bracket make it so narrow that EVERY point of any bracket of that width around
		// the root meets the tolerance (non-decreasing f: both |f(root - d)| and |f(root + d)| below it, d = width / 2^k);
		// 0: not within 300.  An iteration that keeps the tightest sign-changing pair among its trial points, the halving
		// point among them, has such a bracket after k iterations -- wherever its other trial points fell.  (The first
		// version counted the steps until a midpoint of PLAIN bisection happened to meet the tolerance and granted two
		// iterations of slack: that is luck of one particular sequence of midpoints, and the thorough tier met three
		// searches whose own midpoints were less lucky -- a false alarm of this law, not a defect of FindRoot.)
		bisect := 0
		{
			lo, hi := minX, maxX
			for k := 1; k <= 300; k++ {
				mid := hi - (hi-lo)*0.5
				if f(mid) < 0 {
					lo = mid
				} else {
					hi = mid
				}
			}
			root := hi - (hi-lo)*0.5
			d := maxX - minX
			for k := 1; k <= 300; k++ {
				d *= 0.5
				if math.Abs(f(math.Max(minX, root-d))) < tol && math.Abs(f(math.Min(maxX, root+d))) < tol {
					bisect = k
					break
				}
			}
		}
		if fam.name == "triple" && bisect > 0 && r.Intn(2) == 0 {
			maxIter = bisect + r.Intn(bisect/2+2) // a budget that just suffices for halving
		}
		dxMode := r.Intn(4) // 0: true derivative, 1: nil, 2: zero derivative, 3: wrong derivative
		if dfx == nil {
			dxMode = 1
		}
		type ev struct {
			kind  string
			x, fx float64
		}
		var log []ev
		fi := func(x float64) float64 {
			v := f(x)
			log = append(log, ev{"eval", x, v})
			return v
		}
		var di func(float64) float64
		switch dxMode {
		case 0:
			di = func(x float64) float64 { log = append(log, ev{"deriv", x, 0}); return dfx(x) }
		case 2:
			di = func(x float64) float64 { log = append(log, ev{"deriv", x, 0}); return 0 }
		case 3:
			di = func(x float64) float64 { log = append(log, ev{"deriv", x, 0}); return -3 * dfx(x) }
		}
		var rx, rd float64
		pm := protect(func() { rx, rd = fn.FindRoot(fi, di, initX, minX, maxX, tol, conv, maxIter) })
		if pm != "" {
			s.mismatch(map[string]interface{}{"kind": "panic", "family": fam.name, "detail": pm,
				"args": []float64{a, b, c, initX, minX, maxX, tol, conv, float64(maxIter), float64(dxMode)}})
			continue
		}
		// rank encoding
		xsAll := []float64{minX, maxX, initX, rx}
		fsAll := []float64{0, tol, rd, math.Abs(rd), math.Abs(f(minX)), math.Abs(f(maxX))}
		for _, e := range log {
			xsAll = append(xsAll, e.x)
			if e.kind == "eval" {
				fsAll = append(fsAll, e.fx, math.Abs(e.fx))
			}
		}
		xsS, fsS := uniqSorted(xsAll), uniqSorted(fsAll)
		nan := false
		for _, v := range append(append([]float64{}, xsAll...), fsAll...) {
			if math.IsNaN(v) {
				nan = true
			}
		}
		if nan {
			s.mismatch(map[string]interface{}{"kind": "nan", "family": fam.name, "detail": "FindRoot evaluated or returned NaN",
				"args": []float64{a, b, c, initX, minX, maxX, tol, conv, float64(maxIter), float64(dxMode)}})
			continue
		}
		// pairs of (ranked) x values closer than the convergence limit
		near := [][2]int{}
		for i := 0; i < len(xsS); i++ {
			for j := i + 1; j < len(xsS); j++ {
				if math.Abs(xsS[i]-xsS[j]) < conv {
					near = append(near, [2]int{i + 1, j + 1})
				} else {
					break
				}
			}
		}
		enc.Encode(map[string]interface{}{"ev": "start", "maxiter": maxIter, "bisect": bisect, "near": near, "min": rankOf(xsS, minX), "max": rankOf(xsS, maxX), "init": rankOf(xsS, initX),
			"zero": rankOf(fsS, 0), "tol": rankOf(fsS, tol), "mono": fam.mono, "hasdx": di != nil, "family": fam.name,
			"raw": []float64{a, b, c, initX, minX, maxX, tol, conv, float64(maxIter), float64(dxMode)}})
		for _, e := range log {
			if e.kind == "deriv" {
				enc.Encode(map[string]interface{}{"ev": "deriv", "x": rankOf(xsS, e.x)})
			} else {
				enc.Encode(map[string]interface{}{"ev": "eval", "x": rankOf(xsS, e.x), "fx": rankOf(fsS, e.fx), "afx": rankOf(fsS, math.Abs(e.fx))})
			}
		}
		enc.Encode(map[string]interface{}{"ev": "return", "x": rankOf(xsS, rx), "fx": rankOf(fsS, rd), "afx": rankOf(fsS, math.Abs(rd)),
			"amin": rankOf(fsS, math.Abs(f(minX))), "amax": rankOf(fsS, math.Abs(f(maxX)))})
		s.Evaluations += len(log) + 2
		s.Distinct++
		fams[fam.name]++
	}
	w.Flush()
	fh.Close()
	s.Extra = map[string]interface{}{"families": fams}
	s.emit()
	return nil
}

// ---- Piecewise --------------------------------------------------------------------------------
type pwCase struct {
	P struct {
		Xs      []float64            `json:"xs"`
		Ys      []float64            `json:"ys"`
		Queries map[string][2]float64 `json:"queries"`
		NaN     [2]float64           `json:"nan"`
	} `json:"piecewise"`
}

func piecewiseEngine(args []string) error {
	fh, err := os.Open(args[0])
	if err != nil {
		return err
	}
	defer fh.Close()
	s := &summary{Engine: "piecewise"}
	reuseX, reuseY := map[int]data.ND1Float64{}, map[int]data.ND1Float64{}
	prevByLen := map[int]*pwCase{}
	f64 := factoryByName("float64")
	sc := bufio.NewScanner(fh)
	sc.Buffer(make([]byte, 1<<20), 1<<24)
	n := 0
	for sc.Scan() {
		line := mustCaseJSON(sc.Text())
		if !strings.HasPrefix(line, "{\"piecewise\"") {
			continue
		}
		var c pwCase
		if err := json.Unmarshal([]byte(line), &c); err != nil {
			return err
		}
		n++
		mk := func(vals []float64, layout string) data.ND1Float64 {
			iv := make([]int64, len(vals))
			for i, v := range vals {
				iv[i] = int64(v)
			}
			src, _ := freshSource(f64, layout, []int{len(vals)}, iv, nil, nil)
			return src.(*adFloat64).a.(data.ND1Float64)
		}
		layout := []string{"contig", "stepped", "offset"}[n%3]
		xs, ys := mk(c.P.Xs, layout), mk(c.P.Ys, "contig")
		check := func(q float64, want [2]float64, label string) {
			s.Evaluations++
			var y float64
			var e error
			if pm := protect(func() { y, e = fn.Piecewise(q, xs, ys) }); pm != "" {
				s.mismatch(map[string]interface{}{"kind": "panic", "xs": c.P.Xs, "ys": c.P.Ys, "q": label, "detail": pm})
				return
			}
			if want[1] == 0 {
				if e == nil {
					s.mismatch(map[string]interface{}{"kind": "number-instead-of-error", "xs": c.P.Xs, "ys": c.P.Ys, "q": label,
						"detail": fmt.Sprintf("Piecewise(%s) returned %v without an error (outside the table / not a number)", label, y)})
				}
				return
			}
			if e != nil {
				s.mismatch(map[string]interface{}{"kind": "error-inside-table", "xs": c.P.Xs, "ys": c.P.Ys, "q": label, "detail": e.Error()})
				return
			}
			if !nearly(y, want[0]/want[1], 0) {
				s.mismatch(map[string]interface{}{"kind": "value", "xs": c.P.Xs, "ys": c.P.Ys, "q": label,
					"detail": fmt.Sprintf("Piecewise(%s) = %v, exact %v/%v", label, y, want[0], want[1])})
			}
		}
		for k, want := range c.P.Queries {
			var x2 int
			fmt.Sscan(k, &x2)
			check(float64(x2)/2, want, fmt.Sprintf("%v", float64(x2)/2))
		}
		check(math.NaN(), c.P.NaN, "NaN")
		// arguments that miss the table by next to nothing are outside it all the same (ErrorOutside has no tolerance):
		// one ulp / one part in 1e12 / one part in 1e10 beyond either end, and the infinities
		first, last := c.P.Xs[0], c.P.Xs[len(c.P.Xs)-1]
		span := last - first
		for _, q := range []float64{math.Nextafter(last, math.Inf(1)), last + math.Abs(last)*1e-12, last + math.Abs(last)*1e-10, last + span*1e-9,
			math.Nextafter(first, math.Inf(-1)), first - math.Abs(first)*1e-12, first - math.Abs(first)*1e-10, first - span*1e-9, math.Inf(1), math.Inf(-1)} {
			if q < first || q > last {
				check(q, [2]float64{0, 0}, fmt.Sprintf("%v (just outside [%v, %v])", q, first, last))
			}
		}
		// ... and arguments next to a knot on the inside give a value between the two neighbouring table values
		for k := 0; k+1 < len(c.P.Xs); k++ {
			for _, q := range []float64{math.Nextafter(c.P.Xs[k], math.Inf(1)), math.Nextafter(c.P.Xs[k+1], math.Inf(-1))} {
				s.Evaluations++
				var y float64
				var e error
				if pm := protect(func() { y, e = fn.Piecewise(q, xs, ys) }); pm != "" || e != nil {
					s.mismatch(map[string]interface{}{"kind": "error-inside-table", "xs": c.P.Xs, "ys": c.P.Ys, "q": fmt.Sprint(q), "detail": fmt.Sprintf("Piecewise(%v): %v %v", q, pm, e)})
					continue
				}
				lo, hi := math.Min(c.P.Ys[k], c.P.Ys[k+1]), math.Max(c.P.Ys[k], c.P.Ys[k+1])
				if !(y >= lo && y <= hi) {
					s.mismatch(map[string]interface{}{"kind": "value", "xs": c.P.Xs, "ys": c.P.Ys, "q": fmt.Sprint(q),
						"detail": fmt.Sprintf("Piecewise(%v) = %v is not between the neighbouring table values %v and %v", q, y, lo, hi)})
				}
			}
		}
		// the same table in other units of the argument: knots and query scaled by a power of two (exact in
		// float64, so the interpolation weight is bit for bit the same) -- segments as narrow as 2e-10 and as wide
		// as 1e8 are tables like any other
		for _, unit := range []float64{1.0 / 4294967296.0, 16777216.0} {
			sx := data.NewArray1DFloat64(len(c.P.Xs))
			for i, v := range c.P.Xs {
				sx.Set1(i, v*unit)
			}
			xs = sx
			for k, want := range c.P.Queries {
				var x2 int
				fmt.Sscan(k, &x2)
				check(float64(x2)/2*unit, want, fmt.Sprintf("%v x %v", float64(x2)/2, unit))
			}
		}
		// the same queries once more through table objects that are REUSED for every table of this length (knots and
		// values rewritten in place): a lookup may not remember anything about an array beyond the call
		L := len(c.P.Xs)
		if reuseX[L] == nil {
			reuseX[L], reuseY[L] = data.NewArray1DFloat64(L), data.NewArray1DFloat64(L)
		}
		for i := range c.P.Xs {
			reuseX[L].Set1(i, c.P.Xs[i])
			reuseY[L].Set1(i, c.P.Ys[i])
		}
		xs, ys = reuseX[L], reuseY[L]
		for k, want := range c.P.Queries {
			var x2 int
			fmt.Sscan(k, &x2)
			check(float64(x2)/2, want, fmt.Sprintf("%v (table object reused, rewritten in place)", float64(x2)/2))
		}
		// ... and the SAME query twice in a row with the table rewritten in between: the previous table of this length,
		// then this one
		if pc, ok := prevByLen[L]; ok {
			nq := 0
			for k, want := range c.P.Queries {
				pw, both := pc.P.Queries[k]
				if !both || nq >= 6 {
					continue
				}
				nq++
				var x2 int
				fmt.Sscan(k, &x2)
				for i := range pc.P.Xs {
					reuseX[L].Set1(i, pc.P.Xs[i])
					reuseY[L].Set1(i, pc.P.Ys[i])
				}
				saveXs, saveYs := c.P.Xs, c.P.Ys
				c.P.Xs, c.P.Ys = pc.P.Xs, pc.P.Ys
				check(float64(x2)/2, pw, fmt.Sprintf("%v (same table object, previous content)", float64(x2)/2))
				c.P.Xs, c.P.Ys = saveXs, saveYs
				for i := range c.P.Xs {
					reuseX[L].Set1(i, c.P.Xs[i])
					reuseY[L].Set1(i, c.P.Ys[i])
				}
				check(float64(x2)/2, want, fmt.Sprintf("%v (same table object rewritten in place, same query as just before)", float64(x2)/2))
			}
		}
		cc := c
		prevByLen[L] = &cc
		if n%700 == 1 {
			var cj interface{}
			json.Unmarshal([]byte(line), &cj)
			s.sample(cj)
		}
	}
	s.Distinct = n
	s.emit()
	return nil
}
