package main

import (
	"bufio"
	"encoding/json"
	"fmt"
	"math/rand"
	"os"

	"github.com/flowmatters/openwater-core/data"
	_ "github.com/flowmatters/openwater-core/models"
	"github.com/flowmatters/openwater-core/sim"
)

// calendar engine (C19).
//   vh calendar table <succ-table> : B1 — every row "y m d doy y' m' d' doy'" produced by TLC is
//       replayed through the catalogue's DateGenerator (one cell per start date, 2 steps), and the
//       whole chain of each start year is reproduced by one long run.
//   vh calendar trace <succ-table> <out.ndjson> <nruns> <maxlen> : B2 — random runs recorded for TLC.
func init() { register("calendar", calendarEngine) }

type calRow struct{ y, m, d, doy, y2, m2, d2, doy2 int }

func readCalTable(path string) ([]calRow, error) {
	f, err := os.Open(path)
	if err != nil {
		return nil, err
	}
	defer f.Close()
	var rows []calRow
	sc := bufio.NewScanner(f)
	for sc.Scan() {
		var r calRow
		n, _ := fmt.Sscan(sc.Text(), &r.y, &r.m, &r.d, &r.doy, &r.y2, &r.m2, &r.d2, &r.doy2)
		if n == 8 {
			rows = append(rows, r)
		}
	}
	return rows, sc.Err()
}

// runDates runs DateGenerator for len(starts) cells over T steps; result[cell][output][t].
func runDates(starts [][3]int, T int) data.ND3Float64 {
	model := sim.Catalog["DateGenerator"]()
	n := len(starts)
	params := data.NewArray2DFloat64(3, n)
	for i, s := range starts {
		params.Set2(0, i, float64(s[0]))
		params.Set2(1, i, float64(s[1]))
		params.Set2(2, i, float64(s[2]))
	}
	model.ApplyParameters(params)
	states := model.InitialiseStates(n)
	inputs := data.NewArray3DFloat64(1, 1, T)
	outputs := data.NewArray3DFloat64(n, 4, T)
	model.Run(inputs, states, outputs)
	return outputs
}

func calendarEngine(args []string) error {
	if len(args) < 2 {
		return fmt.Errorf("calendar: need mode and table")
	}
	rows, err := readCalTable(args[1])
	if err != nil {
		return err
	}
	if len(rows) == 0 {
		return fmt.Errorf("calendar: empty table")
	}
	s := &summary{Engine: "calendar-" + args[0]}
	switch args[0] {
	case "table":
		// (i) every start date: outputs at t=0 are the date itself, at t=1 its successor.
		const batch = 20000
		for lo := 0; lo < len(rows); lo += batch {
			hi := lo + batch
			if hi > len(rows) {
				hi = len(rows)
			}
			starts := make([][3]int, hi-lo)
			for i := lo; i < hi; i++ {
				starts[i-lo] = [3]int{rows[i].d, rows[i].m, rows[i].y}
			}
			out := runDates(starts, 2)
			for i := lo; i < hi; i++ {
				r := rows[i]
				c := i - lo
				want := [8]int{r.d, r.m, r.y, r.doy, r.d2, r.m2, r.y2, r.doy2}
				got := [8]int{}
				okv := true
				for t := 0; t < 2; t++ {
					for k := 0; k < 4; k++ {
						v := out.Get3(c, k, t)
						got[t*4+k] = int(v)
						if v != float64(want[t*4+k]) {
							okv = false
						}
					}
				}
				s.Evaluations++
				if !okv {
					s.mismatch(map[string]interface{}{"kind": "successor", "start": []int{r.y, r.m, r.d},
						"want_d_m_y_doy_x2": want, "got": got})
				}
			}
		}
		s.Distinct = len(rows)
		s.sample(map[string]interface{}{"start_y_m_d": []int{rows[0].y, rows[0].m, rows[0].d}, "steps": 2})
		// (ii) chains: consecutive rows (row i's successor = row i+1's date) replayed by ONE run.
		i := 0
		chains := 0
		for i < len(rows) {
			j := i
			for j+1 < len(rows) && rows[j].y2 == rows[j+1].y && rows[j].m2 == rows[j+1].m && rows[j].d2 == rows[j+1].d {
				j++
			}
			T := j - i + 2
			out := runDates([][3]int{{rows[i].d, rows[i].m, rows[i].y}}, T)
			for t := 0; t < T; t++ {
				var w [4]int
				if t <= j-i {
					r := rows[i+t]
					w = [4]int{r.d, r.m, r.y, r.doy}
				} else {
					r := rows[j]
					w = [4]int{r.d2, r.m2, r.y2, r.doy2}
				}
				for k := 0; k < 4; k++ {
					if out.Get3(0, k, t) != float64(w[k]) {
						s.mismatch(map[string]interface{}{"kind": "chain", "start": []int{rows[i].y, rows[i].m, rows[i].d},
							"t": t, "output": k, "want": w[k], "got": out.Get3(0, k, t)})
						t = T // first divergence of a chain is enough
						break
					}
				}
			}
			s.Evaluations++
			chains++
			s.sample(map[string]interface{}{"chain_from": []int{rows[i].y, rows[i].m, rows[i].d}, "steps": T})
			i = j + 1
		}
		s.Extra = map[string]interface{}{"chains": chains, "rows": len(rows)}
	case "trace":
		if len(args) < 5 {
			return fmt.Errorf("calendar trace: need table out nruns maxlen")
		}
		var nruns, maxlen int
		fmt.Sscan(args[3], &nruns)
		fmt.Sscan(args[4], &maxlen)
		rng := rand.New(rand.NewSource(seed()))
		f, err := os.Create(args[2])
		if err != nil {
			return err
		}
		w := bufio.NewWriter(f)
		enc := json.NewEncoder(w)
		for r := 0; r < nruns; r++ {
			row := rows[rng.Intn(len(rows))]
			T := 1 + rng.Intn(maxlen)
			if r%7 == 0 { // make sure year ends are crossed
				row = calRow{y: row.y, m: 12, d: 25 + rng.Intn(7)}
			}
			if r%11 == 0 {
				row = calRow{y: row.y, m: 2, d: 20 + rng.Intn(9)}
			}
			out := runDates([][3]int{{row.d, row.m, row.y}}, T)
			enc.Encode(map[string]interface{}{"ev": "start", "d": row.d, "m": row.m, "y": row.y, "doy": 0})
			for t := 0; t < T; t++ {
				enc.Encode(map[string]interface{}{"ev": "out", "d": int(out.Get3(0, 0, t)), "m": int(out.Get3(0, 1, t)),
					"y": int(out.Get3(0, 2, t)), "doy": int(out.Get3(0, 3, t)),
					"exact": out.Get3(0, 0, t) == float64(int(out.Get3(0, 0, t)))})
				s.Evaluations++
			}
			s.Distinct++
		}
		w.Flush()
		f.Close()
	default:
		return fmt.Errorf("calendar: unknown mode %s", args[0])
	}
	s.emit()
	return nil
}
