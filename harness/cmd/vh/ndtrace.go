package main

import (
	"bufio"
	"encoding/json"
	"fmt"
	"math/rand"
	"os"
	"unsafe"
)

// ndarray trace <out.ndjson> <ntraces> <maxops>: B2 driver. Random histories on the real arrays,
// logged with everything observed, for validation by spec/TraceNdArray.tla.
func init() { register("ndtrace", ndTraceEngine) }

type tview struct {
	v     ndv
	shape []int
}

func obsOf(v ndv) map[string]interface{} {
	shape := v.Shape()
	n := prod(shape)
	vals := make([]int64, n)
	for k := 0; k < n; k++ {
		vals[k] = v.Get(unrank(k, shape))
	}
	return map[string]interface{}{"vals": vals, "unroll": v.Unroll(), "contig": v.Contiguous(),
		"max": v.Maximum(), "min": v.Minimum(), "shape": append([]int{}, shape...)}
}

func randSel(rng *rand.Rand, shape []int, maxStep int) (loc, dims, step []int) {
	r := len(shape)
	loc, dims, step = make([]int, r), make([]int, r), make([]int, r)
	for d := 0; d < r; d++ {
		step[d] = 1 + rng.Intn(maxStep)
		loc[d] = rng.Intn(shape[d])
		if shape[d] >= 8 && rng.Intn(2) == 0 {
			// a long axis: half of the selections keep (nearly) all of it at unit step
			step[d] = 1
			loc[d] = rng.Intn(2)
			dims[d] = shape[d] - loc[d] - rng.Intn(2)
			continue
		}
		maxLen := (shape[d]-1-loc[d])/step[d] + 1
		dims[d] = 1 + rng.Intn(maxLen)
	}
	return
}

func ndTraceEngine(args []string) error {
	if len(args) < 3 {
		return fmt.Errorf("usage: ndtrace <out> <ntraces> <maxops>")
	}
	var ntr, maxops int
	fmt.Sscan(args[1], &ntr)
	fmt.Sscan(args[2], &maxops)
	rng := rand.New(rand.NewSource(seed()))
	forceBackend := ""
	for i := 3; i+1 < len(args); i++ {
		if args[i] == "-backend" {
			forceBackend = args[i+1]
		}
	}
	fh, err := os.Create(args[0])
	if err != nil {
		return err
	}
	w := bufio.NewWriter(fh)
	enc := json.NewEncoder(w)
	g, _ := newGuarded(2)
	g2, _ := newGuarded(4)
	s := &summary{Engine: "ndtrace"}
	opCount := map[string]int{}
	emit := func(m map[string]interface{}) {
		enc.Encode(m)
		opCount[m["ev"].(string)]++
		s.Evaluations++
	}
	for t := 0; t < ntr; t++ {
		f := factories[rng.Intn(len(factories))]
		backend := []string{"go", "c"}[rng.Intn(2)]
		if forceBackend != "" {
			backend = forceBackend
		}
		rank := 1 + rng.Intn(3)
		if t%6 == 5 {
			rank = 3
		}
		shape := make([]int, rank)
		for {
			for d := range shape {
				shape[d] = 1 + rng.Intn(5)
			}
			if prod(shape) <= 60 && prod(shape) >= 2 {
				break
			}
		}
		if t%3 == 2 {
			// every third history lives in a store with one LONG axis (8..16) and short other axes: block-copy fast
			// paths that only engage above a length threshold are otherwise never reached
			for {
				for d := range shape {
					shape[d] = 1 + rng.Intn(4)
				}
				if rank == 3 || rng.Intn(2) == 0 {
					shape[rank-1] = 8 + rng.Intn(9) // the innermost axis (unit stride)
				} else {
					shape[rng.Intn(rank)] = 8 + rng.Intn(9)
				}
				if prod(shape) <= 200 {
					break
				}
			}
		}
		n := prod(shape)
		init := make([]int64, n)
		for k := range init {
			init[k] = int64(k)
		}
		var mem unsafe.Pointer
		if backend == "c" {
			mem = g.place(n*f.CElemSize(), rng.Intn(2) == 0)
		}
		st, root := f.New(shape, init, mem)
		views := []tview{{root, shape}}
		fresh := int64(100)
		emit(map[string]interface{}{"ev": "new", "shape": shape, "store": st.Dump(), "type": f.Name(), "backend": backend})
		nops := 8 + rng.Intn(maxops-7)
		crashed := protect(func() {
			for o := 0; o < nops; o++ {
				vi := rng.Intn(len(views))
				v := views[vi]
				vn := prod(v.shape)
				switch k := rng.Intn(100); {
				case k < 30 && len(views) < 8:
					loc, dims, step := randSel(rng, v.shape, 3)
					unit := true
					for _, x := range step {
						if x != 1 {
							unit = false
						}
					}
					useNil := unit && rng.Intn(2) == 0
					var w2 ndv
					if useNil {
						w2 = v.v.Slice(loc, dims, nil)
					} else {
						w2 = v.v.Slice(loc, dims, step)
					}
					views = append(views, tview{w2, dims})
					m := obsOf(w2)
					m["ev"], m["v"], m["loc"], m["dims"], m["step"], m["nil"], m["store"] = "slice", vi+1, loc, dims, step, useNil, st.Dump()
					emit(m)
				case k < 38:
					// reshape to a random factorisation
					var ns []int
					switch rng.Intn(3) {
					case 0:
						ns = []int{vn}
					case 1:
						ns = []int{1, vn}
					default:
						a := 1
						for c := 2; c <= vn; c++ {
							if vn%c == 0 {
								a = c
								break
							}
						}
						ns = []int{a, vn / a}
					}
					if rng.Intn(6) == 0 {
						bad := []int{vn + 1}
						_, e1 := v.v.Reshape(bad)
						_, e2 := v.v.ReshapeFast(bad)
						if e1 == nil || e2 == nil {
							emit(map[string]interface{}{"ev": "reshape-error-missing", "v": vi + 1, "newshape": bad})
						} else {
							emit(map[string]interface{}{"ev": "reshape-error", "v": vi + 1, "newshape": bad})
						}
						continue
					}
					r, e := v.v.Reshape(ns)
					_, ef := v.v.ReshapeFast(ns)
					if e != nil {
						emit(map[string]interface{}{"ev": "reshape-failed", "v": vi + 1, "newshape": ns})
						continue
					}
					vals := make([]int64, vn)
					for q := 0; q < vn; q++ {
						vals[q] = r.Get(unrank(q, ns))
					}
					alias := v.v.Contiguous()
					if alias {
						views = append(views, tview{r, ns})
					}
					emit(map[string]interface{}{"ev": "reshape", "v": vi + 1, "newshape": ns, "vals": vals, "fastok": ef == nil,
						"alias": alias, "store": st.Dump()})
				case k < 50:
					m := obsOf(v.v)
					m["ev"], m["v"] = "read", vi+1
					emit(m)
				case k < 62:
					idx := unrank(rng.Intn(vn), v.shape)
					fresh++
					switch {
					case len(v.shape) == 1 && rng.Intn(2) == 0:
						v.v.Set1(idx[0], fresh)
					case len(v.shape) == 2 && rng.Intn(2) == 0:
						v.v.Set2(idx[0], idx[1], fresh)
					case len(v.shape) == 3 && rng.Intn(2) == 0:
						v.v.Set3(idx[0], idx[1], idx[2], fresh)
					default:
						v.v.Set(append([]int{}, idx...), fresh)
					}
					emit(map[string]interface{}{"ev": "set", "v": vi + 1, "idx": idx, "val": fresh, "store": st.Dump()})
				case k < 74:
					loc := unrank(rng.Intn(vn), v.shape)
					dim := rng.Intn(len(v.shape))
					step := 1 + rng.Intn(3)
					maxLen := (v.shape[dim]-1-loc[dim])/step + 1
					cnt := 1 + rng.Intn(maxLen)
					vals := make([]int64, cnt)
					for q := range vals {
						fresh++
						vals[q] = fresh
					}
					if len(v.shape) == 1 && rng.Intn(2) == 0 {
						v.v.Apply1(loc[0], step, vals)
					} else {
						v.v.Apply(append([]int{}, loc...), dim, step, vals)
					}
					emit(map[string]interface{}{"ev": "apply", "v": vi + 1, "loc": loc, "dim": dim, "step": step, "vals": vals, "store": st.Dump()})
				default:
					// two-array operations with a fresh source in a random layout / back-end
					kind := []string{"contig", "stepped", "offset", "tail"}[rng.Intn(4)]
					op := []string{"applyslice", "copyfrom", "twoarray"}[rng.Intn(3)]
					loc, dims, step := randSel(rng, v.shape, 3)
					shape2 := v.shape
					if op == "applyslice" {
						shape2 = dims
					}
					cnt := prod(shape2)
					vals := make([]int64, cnt)
					for q := range vals {
						fresh++
						vals[q] = fresh
					}
					var mem2 unsafe.Pointer
					if rng.Intn(2) == 0 {
						nb := 1
						for d, e := range shape2 {
							switch kind {
							case "stepped":
								nb *= 2 * e
							case "offset":
								nb *= e + 1
							case "tail":
								if d == 0 {
									nb *= e + 1
								} else {
									nb *= e
								}
							default:
								nb *= e
							}
						}
						mem2 = g2.place(nb*f.CElemSize(), true)
					}
					var bs []int
					src, _ := freshSource(f, kind, shape2, vals, mem2, &bs)
					switch op {
					case "applyslice":
						unit := true
						for _, x := range step {
							if x != 1 {
								unit = false
							}
						}
						useNil := unit && rng.Intn(2) == 0
						if useNil {
							v.v.ApplySlice(append([]int{}, loc...), nil, src)
						} else {
							v.v.ApplySlice(append([]int{}, loc...), append([]int{}, step...), src)
						}
						emit(map[string]interface{}{"ev": "applyslice", "v": vi + 1, "loc": loc, "dims": dims, "step": step,
							"srcvals": vals, "src": kind, "store": st.Dump()})
					case "copyfrom":
						v.v.CopyFrom(src)
						emit(map[string]interface{}{"ev": "copyfrom", "v": vi + 1, "srcvals": vals, "src": kind, "store": st.Dump()})
					case "twoarray":
						if !v.v.HasHelpers() {
							continue
						}
						fn := []string{"scale", "addto", "func", "scale1", "scale0"}[rng.Intn(5)]
						switch fn {
						case "scale":
							v.v.Scale(src, 2)
						case "scale1":
							v.v.Scale(src, 1)
						case "scale0":
							v.v.Scale(src, 0)
						case "addto":
							v.v.AddTo(src)
						case "func":
							v.v.Func1(src)
						}
						emit(map[string]interface{}{"ev": "twoarray", "fn": fn, "v": vi + 1, "srcvals": vals, "src": kind, "store": st.Dump()})
					}
				}
				if backend == "c" && !g.slackIntact() {
					emit(map[string]interface{}{"ev": "stray-write"})
				}
			}
		})
		if crashed != "" {
			emit(map[string]interface{}{"ev": "crash", "msg": crashed})
		}
		s.Distinct++
	}
	w.Flush()
	fh.Close()
	s.Extra = map[string]interface{}{"events": opCount}
	s.emit()
	return nil
}
