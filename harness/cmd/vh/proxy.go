package main

import (
	"encoding/json"
	"fmt"
	"math"
	"math/rand"
	"os"
	"reflect"
	"runtime"
	"sort"
	"sync"
	"time"

	"github.com/flowmatters/openwater-core/data"
	"github.com/flowmatters/openwater-core/sim"
)

// proxytrace engine (C04, C05; B2): the generated Run wrappers take their arrays as interfaces, so the harness can
// hand them TRACING PROXIES.  A proxy forwards every call to the real view (values and view algebra are the real
// code's) and records which storage offsets of the caller's array the call touches, and on which goroutine.  The
// offsets come from the real view's own exported Index method plus the position of its backing slice inside the
// caller's buffer, so no model of the stride algebra is in the loop.  spec/TraceRunWrapper.tla accepts a log iff
// every goroutine stays inside ONE cell's footprint of RunWrapper.tla, no two goroutines serve the same cell,
// nothing is touched after Run has returned, and the observed read/write sets satisfy NoRace.
//
//   vh proxytrace <out.ndjson> <runs-per-model> [-models a,b]

func init() { register("proxytrace", proxytraceEngine) }

type pxAccess struct {
	g    uint64
	arr  string // P S I O
	kind string // r | w
	offs []int
}

type pxLog struct {
	mu     sync.Mutex
	on     bool
	events []pxAccess
}

func (l *pxLog) add(arr, kind string, offs []int) {
	if len(offs) == 0 {
		return
	}
	g := goid()
	l.mu.Lock()
	if l.on {
		l.events = append(l.events, pxAccess{g, arr, kind, offs})
	}
	l.mu.Unlock()
}


type pxRoot struct {
	name string
	base uintptr // address of element 0 of the caller's buffer
	n    int
	log  *pxLog
}

// pxArr implements ND1/ND2/ND3Float64 by forwarding to a real view.
type pxArr struct {
	real data.NDFloat64
	root *pxRoot
	rel  int // position of the real view's backing slice inside the caller's buffer (elements)
}

type indexer interface{ Index(loc []int) int }

// implBase: address of the first element of the real view's backing storage (Go slice or C buffer).
func implBase(a data.NDFloat64) uintptr {
	v := reflect.ValueOf(a)
	if v.Kind() == reflect.Ptr {
		v = v.Elem()
	}
	f := v.FieldByName("Impl")
	if !f.IsValid() {
		return 0
	}
	return f.Pointer()
}

// wrap returns a proxy for a view produced by the real code, or the bare value when the view no longer lives in
// the caller's buffer (a detached copy: whatever is done to it is not an access to the caller's arrays).
func (p *pxArr) wrap(r data.NDFloat64) data.NDFloat64 {
	if r == nil {
		return nil
	}
	b := implBase(r)
	if b < p.root.base || b >= p.root.base+uintptr(p.root.n*8) {
		if p.root.n == 0 || b == 0 {
			return &pxArr{real: r, root: p.root, rel: 0}
		}
		// detached: building it read the whole source view
		p.root.log.add(p.root.name, "r", p.all())
		return r
	}
	return &pxArr{real: r, root: p.root, rel: int(b-p.root.base) / 8}
}

func (p *pxArr) off(loc []int) int { return p.rel + p.real.(indexer).Index(loc) }

// all: offsets of every element of the view
func (p *pxArr) all() []int {
	shape := p.real.Shape()
	n := 1
	for _, d := range shape {
		n *= d
	}
	if n == 0 {
		return nil
	}
	res := make([]int, 0, n)
	loc := make([]int, len(shape))
	for {
		res = append(res, p.off(loc))
		k := len(loc) - 1
		for k >= 0 {
			loc[k]++
			if loc[k] < shape[k] {
				break
			}
			loc[k] = 0
			k--
		}
		if k < 0 {
			break
		}
	}
	return res
}

func unwrap(a data.NDFloat64) (data.NDFloat64, *pxArr) {
	if q, ok := a.(*pxArr); ok {
		return q.real, q
	}
	return a, nil
}

func (p *pxArr) Len(axis int) int        { return p.real.Len(axis) }
func (p *pxArr) Shape() []int            { return p.real.Shape() }
func (p *pxArr) NDims() int              { return p.real.NDims() }
func (p *pxArr) NewIndex(val int) []int  { return p.real.NewIndex(val) }
func (p *pxArr) Contiguous() bool        { return p.real.Contiguous() }
func (p *pxArr) Len1() int               { return p.real.(data.ND1Float64).Len1() }
func (p *pxArr) Len2() int               { return p.real.(data.ND2Float64).Len2() }
func (p *pxArr) Len3() int               { return p.real.(data.ND3Float64).Len3() }

func (p *pxArr) Get(loc []int) float64 {
	p.root.log.add(p.root.name, "r", []int{p.off(loc)})
	return p.real.Get(loc)
}
func (p *pxArr) Set(loc []int, val float64) {
	p.root.log.add(p.root.name, "w", []int{p.off(loc)})
	p.real.Set(loc, val)
}
func (p *pxArr) Get1(a int) float64 {
	p.root.log.add(p.root.name, "r", []int{p.off([]int{a})})
	return p.real.(data.ND1Float64).Get1(a)
}
func (p *pxArr) Set1(a int, val float64) {
	p.root.log.add(p.root.name, "w", []int{p.off([]int{a})})
	p.real.(data.ND1Float64).Set1(a, val)
}
func (p *pxArr) Get2(a, b int) float64 {
	p.root.log.add(p.root.name, "r", []int{p.off([]int{a, b})})
	return p.real.(data.ND2Float64).Get2(a, b)
}
func (p *pxArr) Set2(a, b int, val float64) {
	p.root.log.add(p.root.name, "w", []int{p.off([]int{a, b})})
	p.real.(data.ND2Float64).Set2(a, b, val)
}
func (p *pxArr) Get3(a, b, c int) float64 {
	p.root.log.add(p.root.name, "r", []int{p.off([]int{a, b, c})})
	return p.real.(data.ND3Float64).Get3(a, b, c)
}
func (p *pxArr) Set3(a, b, c int, val float64) {
	p.root.log.add(p.root.name, "w", []int{p.off([]int{a, b, c})})
	p.real.(data.ND3Float64).Set3(a, b, c, val)
}
func (p *pxArr) Slice(loc []int, dims []int, step []int) data.NDFloat64 {
	return p.wrap(p.real.Slice(loc, dims, step))
}
func (p *pxArr) Apply(loc []int, dim int, step int, vals []float64) {
	offs := make([]int, 0, len(vals))
	l := append([]int{}, loc...)
	for k := range vals {
		l[dim] = loc[dim] + k*step
		offs = append(offs, p.off(l))
	}
	p.root.log.add(p.root.name, "w", offs)
	p.real.Apply(loc, dim, step, vals)
}
func (p *pxArr) Apply1(loc int, step int, vals []float64) {
	offs := make([]int, 0, len(vals))
	for k := range vals {
		offs = append(offs, p.off([]int{loc + k*step}))
	}
	p.root.log.add(p.root.name, "w", offs)
	p.real.(data.ND1Float64).Apply1(loc, step, vals)
}
func (p *pxArr) ApplySlice(loc []int, step []int, vals data.NDFloat64) {
	rv, q := unwrap(vals)
	if q != nil {
		q.root.log.add(q.root.name, "r", q.all())
	}
	// destination block: the elements loc + i*step for i over the shape of vals (aligned to the trailing axes)
	vs := rv.Shape()
	nd := len(loc)
	idx := make([]int, len(vs))
	var offs []int
	empty := false
	for _, e := range vs {
		if e == 0 {
			empty = true // (a block without elements addresses nothing: Lag with a lag of 0 writes back a state row of width 0)
		}
	}
	for !empty {
		l := append([]int{}, loc...)
		for k := range vs {
			ax := nd - len(vs) + k
			st := 1
			if step != nil {
				st = step[ax]
			}
			l[ax] = loc[ax] + idx[k]*st
		}
		offs = append(offs, p.off(l))
		k := len(vs) - 1
		for k >= 0 {
			idx[k]++
			if idx[k] < vs[k] {
				break
			}
			idx[k] = 0
			k--
		}
		if k < 0 {
			break
		}
	}
	if os.Getenv("PX_DEBUG") != "" {
		fmt.Fprintf(os.Stderr, "PXDEBUG ApplySlice %s loc=%v step=%v valsShape=%v offs=%v viewShape=%v\n", p.root.name, loc, step, vs, offs, p.real.Shape())
	}
	p.root.log.add(p.root.name, "w", offs)
	p.real.ApplySlice(loc, step, rv)
}
func (p *pxArr) CopyFrom(other data.NDFloat64) {
	ro, q := unwrap(other)
	if q != nil {
		q.root.log.add(q.root.name, "r", q.all())
	}
	p.root.log.add(p.root.name, "w", p.all())
	p.real.CopyFrom(ro)
}
func (p *pxArr) Unroll() []float64 {
	// the result may alias the storage (contiguous Go-backed views): whatever the caller does with it stays inside
	// this view's footprint, which is what is recorded (as a read; writes through the alias are not observable)
	p.root.log.add(p.root.name, "r", p.all())
	return p.real.Unroll()
}
func (p *pxArr) Reshape(newShape []int) (data.NDFloat64, error) {
	r, err := p.real.Reshape(newShape)
	if err != nil {
		return nil, err
	}
	return p.wrap(r), nil
}
func (p *pxArr) MustReshape(newShape []int) data.NDFloat64 { return p.wrap(p.real.MustReshape(newShape)) }
func (p *pxArr) ReshapeFast(newShape []int) (data.NDFloat64, error) {
	r, err := p.real.ReshapeFast(newShape)
	if err != nil {
		return nil, err
	}
	return p.wrap(r), nil
}
func (p *pxArr) Maximum() float64 {
	p.root.log.add(p.root.name, "r", p.all())
	return p.real.Maximum()
}
func (p *pxArr) Minimum() float64 {
	p.root.log.add(p.root.name, "r", p.all())
	return p.real.Minimum()
}

func newProxy(name string, real data.NDFloat64, n int, log *pxLog) *pxArr {
	return &pxArr{real: real, root: &pxRoot{name: name, base: implBase(real), n: n, log: log}}
}

func proxytraceEngine(args []string) error {
	if len(args) < 2 {
		return fmt.Errorf("usage: proxytrace <out.ndjson> <runs-per-model> [-models a,b]")
	}
	var runs int
	fmt.Sscan(args[1], &runs)
	models := modelNames()
	for i := 2; i < len(args); i++ {
		if args[i] == "-models" {
			i++
			models = splitComma(args[i])
		}
	}
	fh, err := os.Create(args[0])
	if err != nil {
		return err
	}
	defer fh.Close()
	enc := json.NewEncoder(fh)
	s := &summary{Engine: "proxytrace"}
	r := rand.New(rand.NewSource(seed()*31 + 5))
	untraceable := map[string]string{}
	traced := map[string]int{}
	for _, name := range models {
		for k := 0; k < runs; k++ {
			nc := 1 + r.Intn(4)
			np := 1 + r.Intn(nc)
			nb := 1 + r.Intn(nc)
			T := 1 + r.Intn(3)
			oc := nc + r.Intn(2)
			ot := T + r.Intn(2)
			backend := []string{"go", "c"}[r.Intn(2)]
			mc := genCase(r, name, np, nc, nb, T)
			ev, why := proxyRun(mc, oc, ot, backend)
			if why != "" {
				if _, seen := untraceable[name]; !seen {
					untraceable[name] = why
				}
				continue
			}
			for _, e := range ev {
				enc.Encode(e)
			}
			traced[name]++
			s.Evaluations += len(ev)
			s.Distinct++
			if len(s.Samples) < 1 && len(ev) < 40 {
				s.sample(map[string]interface{}{"model": name, "trace": ev})
			}
		}
	}
	for n, why := range untraceable {
		if traced[n] == 0 {
			s.mismatch(map[string]interface{}{"kind": "untraceable", "model": n, "detail": why})
		}
	}
	s.Extra = map[string]interface{}{"models_traced": len(traced), "untraceable": untraceable}
	s.emit()
	return nil
}

func splitComma(s string) []string {
	var out []string
	cur := ""
	for _, c := range s {
		if c == ',' {
			if cur != "" {
				out = append(out, cur)
			}
			cur = ""
		} else {
			cur += string(c)
		}
	}
	if cur != "" {
		out = append(out, cur)
	}
	return out
}

// proxyRun performs one vectorised Run through proxies and returns the abstract trace:
//   {"ev":"run", model, nc,np,nb,t,oc,ot, backend}
//   {"ev":"acc", "g": goroutine (1 = the caller), "kind": "r"|"w", "locs": [["I",blk,t] | ["O",cell,t] | ["S",cell] | ["P",set]]}
//   {"ev":"ret"}   Run has returned
//   (accesses observed after "ret" follow it)
func proxyRun(mc *modelCase, oc, ot int, backend string) (events []map[string]interface{}, why string) {
	desc := mc.Desc
	ni, no := len(desc.Inputs), len(desc.Outputs)
	ar := &arena{backend: backend}
	defer ar.release()
	nrows := len(mc.Params)
	ns := 0
	if len(mc.States) > 0 {
		ns = len(mc.States[0])
	}
	mk := func(shape []int, fill func(buf []float64)) (data.NDFloat64, int) {
		n := 1
		for _, d := range shape {
			n *= d
		}
		buf, p := ar.alloc(n)
		fill(buf)
		return ar.array(buf, p, shape), n
	}
	pReal, pn := mk([]int{nrows, mc.NSets}, func(b []float64) {
		for i, row := range mc.Params {
			copy(b[i*mc.NSets:], row)
		}
	})
	sReal, sn := mk([]int{mc.NCells, ns}, func(b []float64) {
		for c, row := range mc.States {
			copy(b[c*ns:], row)
		}
	})
	iReal, in := mk([]int{mc.NBlocks, ni, mc.T}, func(b []float64) {
		for bl := range mc.Inputs {
			for k := range mc.Inputs[bl] {
				copy(b[(bl*ni+k)*mc.T:], mc.Inputs[bl][k])
			}
		}
	})
	oReal, on := mk([]int{oc, no, ot}, func(b []float64) {
		// as ow-sim and the C entry point hand them over: zero where results are expected (several kernels only write
		// non-zero results), a sentinel in the slack
		for c := 0; c < oc; c++ {
			for k := 0; k < no; k++ {
				for t := 0; t < ot; t++ {
					b[(c*no+k)*ot+t] = 0
					if c >= mc.NCells || t >= mc.T {
						b[(c*no+k)*ot+t] = slackFill
					}
				}
			}
		}
	})
	log := &pxLog{}
	pP := newProxy("P", pReal, pn, log)
	pS := newProxy("S", sReal, sn, log)
	pI := newProxy("I", iReal, in, log)
	pO := newProxy("O", oReal, on, log)
	m := sim.Catalog[mc.Name]()
	if pm := protect(func() {
		dims := m.FindDimensions(pP)
		if len(dims) > 0 {
			m.InitialiseDimensions(dims)
		}
		m.ApplyParameters(pP)
	}); pm != "" {
		return nil, "ApplyParameters on proxies: " + pm
	}
	caller := goid()
	log.mu.Lock()
	log.on = true
	log.mu.Unlock()
	pm := protect(func() { m.Run(pI, pS, pO) })
	log.mu.Lock()
	nAtReturn := len(log.events)
	log.mu.Unlock()
	if pm != "" {
		return nil, "Run on proxies: " + pm
	}
	// give goroutines that outlive Run a chance to show themselves
	for k := 0; k < 3; k++ {
		runtime.Gosched()
		time.Sleep(300 * time.Microsecond)
	}
	log.mu.Lock()
	log.on = false
	evs := log.events
	log.mu.Unlock()
	// sanity: the proxied run must give what a plain run gives (otherwise the proxies changed the behaviour and the
	// trace says nothing about the real thing)
	plain, ppm := mc.runVector(backend, oc, ot, nil)
	if ppm != "" || plain == nil {
		return nil, "plain run: " + ppm
	}
	for c := 0; c < oc; c++ {
		for k := 0; k < no; k++ {
			for t := 0; t < ot; t++ {
				a, b := oReal.(data.ND3Float64).Get3(c, k, t), plain.Out[(c*no+k)*ot+t]
				if !bitsEq(a, b) && !(math.IsNaN(a) && math.IsNaN(b)) {
					return nil, fmt.Sprintf("proxied run differs from the plain run at output [%d,%d,%d]: %v vs %v (nc %d np %d nb %d T %d oc %d ot %d %s)", c, k, t, a, b, mc.NCells, mc.NSets, mc.NBlocks, mc.T, oc, ot, backend)
				}
			}
		}
	}
	// abstract
	gmap := map[uint64]int{caller: 1}
	abstract := func(e pxAccess) [][]interface{} {
		seen := map[string]bool{}
		var locs [][]interface{}
		add := func(l []interface{}) {
			k := fmt.Sprint(l...)
			if !seen[k] {
				seen[k] = true
				locs = append(locs, l)
			}
		}
		for _, o := range e.offs {
			switch e.arr {
			case "P":
				add([]interface{}{"P", o % mc.NSets})
			case "S":
				add([]interface{}{"S", o / maxInt(ns, 1)})
			case "I":
				add([]interface{}{"I", o / (ni * mc.T), o % mc.T})
			case "O":
				add([]interface{}{"O", o / (no * ot), o % ot})
			}
		}
		sort.Slice(locs, func(i, j int) bool { return fmt.Sprint(locs[i]...) < fmt.Sprint(locs[j]...) })
		return locs
	}
	events = append(events, map[string]interface{}{"ev": "run", "model": mc.Name, "nc": mc.NCells, "np": mc.NSets, "nb": mc.NBlocks,
		"t": mc.T, "oc": oc, "ot": ot, "backend": backend})
	// only what is NEW for a goroutine and kind is logged before the return (the specification accumulates sets);
	// everything observed after the return is logged
	cum := map[string]map[string]bool{}
	returned := false
	for i, e := range evs {
		if i == nAtReturn {
			events = append(events, map[string]interface{}{"ev": "ret"})
			returned = true
		}
		if _, ok := gmap[e.g]; !ok {
			gmap[e.g] = len(gmap) + 1
		}
		key := fmt.Sprintf("%d/%s", gmap[e.g], e.kind)
		if cum[key] == nil {
			cum[key] = map[string]bool{}
		}
		var fresh [][]interface{}
		for _, l := range abstract(e) {
			k := fmt.Sprint(l...)
			if returned || !cum[key][k] {
				cum[key][k] = true
				fresh = append(fresh, l)
			}
		}
		if len(fresh) == 0 {
			continue
		}
		events = append(events, map[string]interface{}{"ev": "acc", "g": gmap[e.g], "kind": e.kind, "locs": fresh})
	}
	if nAtReturn >= len(evs) {
		events = append(events, map[string]interface{}{"ev": "ret"})
	}
	return events, ""
}

func maxInt(a, b int) int {
	if a > b {
		return a
	}
	return b
}
