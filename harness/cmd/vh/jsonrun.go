package main

import (
	"bufio"
	"bytes"
	"encoding/json"
	"fmt"
	"math"
	"math/rand"
	"os"
	"reflect"
	"strings"

	"github.com/flowmatters/openwater-core/data"
	owjson "github.com/flowmatters/openwater-core/io/json"
	"github.com/flowmatters/openwater-core/sim"
)

// jsonrun engine (C17).
//   vh jsonrun gen  <classes-file> <requests-out> [-per n]   synthesise concrete requests for every class x model
//   vh jsonrun exec <requests> <results-out> <progress> [-from k]   call sim.RunSingleModelJSON on each request
//                                                         (a crash kills this process; the driver restarts after it)
//   vh jsonrun nest <classes-file>                        JsonSafeArray/JsonSafeValue against the spec's nesting
// A request record: {"id", "class", "expect" (response class), "model", "split", "bytes" (base64 via []byte)}
func init() { register("jsonrun", jsonrunEngine) }

type jrClass struct {
	Class struct {
		Form   string `json:"form"`
		Name   string `json:"name"`
		Tables bool   `json:"tables"`
		Params string `json:"params"`
		PVals  string `json:"pvals"`
		Extras bool   `json:"extras"`
		Inputs string `json:"inputs"`
	} `json:"jsonclass"`
	Response struct {
		Kind          string `json:"kind"`
		Why           string `json:"why"`
		LogDefaults   bool   `json:"logDefaults"`
		LogZeroInputs bool   `json:"logZeroInputs"`
	} `json:"response"`
}

type jrRequest struct {
	ID       int      `json:"id"`
	Class    string   `json:"class"`
	Expect   string   `json:"expect"`
	Model    string   `json:"model"`
	Split    bool     `json:"split"`
	Bytes    []byte   `json:"bytes"`
	Given    []string `json:"given_params"`
	Missing  []string `json:"missing_params"`
	InGiven  []string `json:"given_inputs"`
	InMiss   []string `json:"missing_inputs"`
	Extreme  bool     `json:"extreme"`
}

func jsonrunEngine(args []string) error {
	if len(args) < 2 {
		return fmt.Errorf("usage: jsonrun gen|exec|nest ...")
	}
	switch args[0] {
	case "gen":
		return jrGen(args[1:])
	case "exec":
		return jrExec(args[1:])
	case "nest":
		return jrNest(args[1:])
	}
	return fmt.Errorf("jsonrun: unknown mode")
}

func readClasses(path string) ([]jrClass, []string, error) {
	fh, err := os.Open(path)
	if err != nil {
		return nil, nil, err
	}
	defer fh.Close()
	var cls []jrClass
	var nests []string
	sc := bufio.NewScanner(fh)
	sc.Buffer(make([]byte, 1<<20), 1<<24)
	for sc.Scan() {
		line := mustCaseJSON(sc.Text())
		if strings.HasPrefix(line, "{\"jsonclass\"") {
			var c jrClass
			if err := json.Unmarshal([]byte(line), &c); err != nil {
				return nil, nil, err
			}
			cls = append(cls, c)
		} else if strings.HasPrefix(line, "{\"jsonnest\"") {
			nests = append(nests, line)
		}
	}
	return cls, nests, sc.Err()
}

// parameters that size or index something inside a kernel: a zero there is the crash recorded as a known
// finding for the DEFAULTED case; explicit zeros are not explored for them, nor for StorageRouting at all
// (its solver panics deliberately on the NaN that almost any zeroed parameter produces: same recorded root cause)
var structuralParam = map[string]bool{"GR4J.X4": true, "DateGenerator.startMonth": true, "StorageRouting.RoutingPower": true, "StorageRouting.RoutingConstant": true}

func hasTables(name string) bool { return len(sim.Catalog[name]().Description().Dimensions) > 0 }

var malformedKind int

func malformed(r *rand.Rand, valid []byte) []byte {
	malformedKind++ // every kind of malformation is produced in turn
	switch malformedKind % 10 {
	case 9:
		return []byte("  \n\t ") // whitespace only
	case 0:
		return valid[:r.Intn(len(valid))] // truncation
	case 1:
		b := append([]byte{}, valid...)
		for k := 0; k < 1+r.Intn(3); k++ {
			b[r.Intn(len(b))] ^= byte(1 << uint(r.Intn(8)))
		}
		if json.Valid(b) { // must really be malformed
			return b[:len(b)/2]
		}
		return b
	case 2:
		return []byte(strings.Replace(string(valid), "\"Values\":[", "\"Values\":\"x\",\"V\":[", 1)) // type confusion
	case 3:
		return []byte{}
	case 4:
		return []byte(strings.Repeat("[", 200+r.Intn(2000)))
	case 5:
		return []byte("[1,2,3]")
	case 6:
		return []byte(strings.Replace(string(valid), "\"Name\":\"", "\"Name\":5,\"N\":\"", 1))
	case 7:
		return []byte("{\"Name\":\"GR4J\",\"Inputs\":{\"rainfall\":[1,2]}}") // wrong shape of Inputs
	default:
		b := make([]byte, 1+r.Intn(64))
		r.Read(b)
		if json.Valid(b) {
			b = append(b, '{')
		}
		return b
	}
}

func buildRequest(r *rand.Rand, name string, cl *jrClass, T int) (doc map[string]interface{}, given, missing, inGiven, inMissing []string, extreme bool) {
	mc := genCase(r, name, 1, 1, 1, T)
	desc := mc.Desc
	doc = map[string]interface{}{}
	switch cl.Class.Name {
	case "known":
		doc["Name"] = name
	case "unknown":
		doc["Name"] = name + "_NoSuchModel"
	}
	var params []map[string]interface{}
	scalarIdx := []int{}
	for pi, p := range desc.Parameters {
		if len(p.Dimensions) == 0 {
			scalarIdx = append(scalarIdx, pi)
		}
	}
	perm := r.Perm(len(scalarIdx))
	take := 0
	switch cl.Class.Params {
	case "all":
		take = len(scalarIdx)
	case "some":
		if len(scalarIdx) > 0 {
			take = 1 + r.Intn(len(scalarIdx))
			if take == len(scalarIdx) && take > 1 {
				take--
			}
		}
	}
	chosen := map[int]bool{}
	for k := 0; k < take; k++ {
		chosen[scalarIdx[perm[k]]] = true
	}
	for _, k := range perm {
		pi := scalarIdx[k]
		p := desc.Parameters[pi]
		if chosen[pi] {
			val := mc.PVals[pi][0][0]
			if cl.Class.PVals == "zero" && !structuralParam[name+"."+p.Name] && name != "StorageRouting" {
				val = 0 // an explicit zero is a value like any other (structural parameters excepted: see DESIGN.md)
			}
			params = append(params, map[string]interface{}{"Name": p.Name, "Value": val})
			given = append(given, p.Name)
		} else {
			missing = append(missing, p.Name)
		}
	}
	if cl.Class.Extras {
		// members the runner has no use for (a comment, a time axis, units) do not stop a request from naming a model,
		// its parameters and its inputs: at the top level, inside a parameter entry, inside an input entry (below)
		doc["Comment"] = "run 17 of the calibration batch"
		doc["Timestep"] = 86400
		doc["Start"] = map[string]interface{}{"Year": 2001, "Month": 7}
		if len(params) > 0 {
			withUnits := map[string]interface{}{}
			for k, v := range params[len(params)-1] {
				withUnits[k] = v
			}
			withUnits["Units"] = "mm/d"
			params[len(params)-1] = withUnits
		}
		params = append(params, map[string]interface{}{"Name": "noSuchParameter", "Value": 42.0})
		if len(given) > 0 { // a duplicate of a given parameter with the same value
			params = append(params, params[0])
		}
		// a look-alike: the name of a declared parameter in another letter case is NOT that parameter (a missing one
		// stays missing and is reported; a given one is not shadowed by a look-alike listed before it)
		if len(missing) > 0 {
			params = append([]map[string]interface{}{{"Name": swapCase(missing[0]), "Value": 7.75}}, params...)
		} else if len(given) > 0 {
			params = append([]map[string]interface{}{{"Name": swapCase(given[0]), "Value": 7.75}}, params...)
		}
	}
	if params != nil {
		lst := []interface{}{}
		for _, e := range params {
			lst = append(lst, e)
		}
		if cl.Class.Extras {
			lst = append(lst, nil) // a null entry is an entry without a name: superfluous
		}
		doc["Parameters"] = lst
	}
	var inputs []map[string]interface{}
	ni := len(desc.Inputs)
	iperm := r.Perm(ni)
	itake := 0
	switch cl.Class.Inputs {
	case "all", "unequal", "emptyone", "emptyall":
		itake = ni
	case "some":
		if ni > 1 {
			itake = 1 + r.Intn(ni-1)
		} else {
			itake = ni // a model with one input cannot have a proper non-empty subset: same as "all"
		}
	}
	ichosen := map[int]bool{}
	for k := 0; k < itake; k++ {
		ichosen[iperm[k]] = true
	}
	for _, k := range iperm {
		if ichosen[k] {
			vals := append([]float64{}, mc.Inputs[0][k]...)
			inputs = append(inputs, map[string]interface{}{"Name": desc.Inputs[k], "Values": vals})
			inGiven = append(inGiven, desc.Inputs[k])
		} else {
			inMissing = append(inMissing, desc.Inputs[k])
		}
	}
	if cl.Class.Inputs == "unequal" && len(inputs) >= 1 {
		// make one series longer or shorter than the others (with a single input: add a second, undeclared-free
		// duplicate of different length is not possible -> lengthen the only one relative to nothing: skip)
		k := r.Intn(len(inputs))
		v := inputs[k]["Values"].([]float64)
		if r.Intn(2) == 0 || len(v) < 2 {
			inputs[k]["Values"] = append(v, 1.0, 2.0)
		} else {
			inputs[k]["Values"] = v[:len(v)-1]
		}
	}
	if cl.Class.Inputs == "emptyall" {
		for k := range inputs {
			inputs[k]["Values"] = []float64{}
		}
	}
	if cl.Class.Inputs == "emptyone" && len(inputs) >= 2 {
		inputs[r.Intn(len(inputs))]["Values"] = []float64{}
	}
	if cl.Class.Extras && len(inputs) > 0 {
		inputs[len(inputs)-1]["Units"] = "m3/s"
		inputs[len(inputs)-1]["Source"] = map[string]interface{}{"Gauge": "410730", "Quality": []int{1, 1, 2}}
	}
	if cl.Class.Extras {
		// a superset of the inputs: an undeclared series of a different length, listed FIRST
		extra := map[string]interface{}{"Name": "noSuchInput", "Values": []float64{1, 2, 3, 4, 5, 6, 7, 8, 9}}
		inputs = append([]map[string]interface{}{extra}, inputs...)
	}
	if cl.Response.Kind == "result" && r.Intn(6) == 0 && len(inputs) > 0 {
		// extreme but finite values: results may overflow to +Inf / NaN and must still be encoded
		k := len(inputs) - 1
		if v, ok := inputs[k]["Values"].([]float64); ok {
			for i := range v {
				v[i] = 1e304 * (1 + float64(i))
			}
			extreme = true
		}
	}
	if inputs != nil {
		lst := []interface{}{}
		for _, e := range inputs {
			lst = append(lst, e)
		}
		if cl.Class.Extras {
			if len(inMissing) > 0 {
				// a look-alike of a missing input (same length as the others): the input stays missing (zero, reported)
				lst = append([]interface{}{map[string]interface{}{"Name": swapCase(inMissing[0]), "Values": lookalikeSeries(T)}}, lst...)
			}
			if len(lst) > 1 {
				lst = append(lst[:1], append([]interface{}{nil}, lst[1:]...)...) // a null entry between two entries
			} else {
				lst = append(lst, nil)
			}
		}
		doc["Inputs"] = lst
	}
	return
}

func swapCase(name string) string {
	b := []byte(name)
	for i, c := range b {
		switch {
		case c >= 'a' && c <= 'z':
			b[i] = c - 32
			return string(b)
		case c >= 'A' && c <= 'Z':
			b[i] = c + 32
			return string(b)
		}
	}
	return name + "_"
}

func lookalikeSeries(T int) []float64 {
	v := make([]float64, T)
	for i := range v {
		v[i] = 3.5 + float64(i)
	}
	return v
}

func jrGen(args []string) error {
	cls, _, err := readClasses(args[0])
	if err != nil {
		return err
	}
	per := 1
	for i := 2; i < len(args); i++ {
		if args[i] == "-per" {
			i++
			fmt.Sscan(args[i], &per)
		}
	}
	fh, err := os.Create(args[1])
	if err != nil {
		return err
	}
	w := bufio.NewWriterSize(fh, 1<<20)
	enc := json.NewEncoder(w)
	r := rand.New(rand.NewSource(seed()))
	id := 0
	for ci := range cls {
		cl := &cls[ci]
		cname := fmt.Sprintf("%s/%s/tables=%v/params=%s/extras=%v/inputs=%s", cl.Class.Form, cl.Class.Name, cl.Class.Tables, cl.Class.Params, cl.Class.Extras, cl.Class.Inputs)
		if cl.Class.PVals == "zero" {
			cname += "/pvals=zero"
		}
		for _, name := range modelNames() {
			if cl.Class.Name == "known" && hasTables(name) != cl.Class.Tables {
				continue
			}
			if cl.Class.Name != "known" && id%5 != 0 && cl.Class.Form != "malformed" {
				id++ // classes that do not depend on the model: a fifth of the models is plenty
				continue
			}
			for k := 0; k < per; k++ {
				T := 1 + r.Intn(6)
				doc, given, missing, ig, im, extreme := buildRequest(r, name, cl, T)
				if (cl.Class.Inputs == "unequal" || cl.Class.Inputs == "emptyone") && len(ig) < 2 {
					continue // needs two series to disagree
				}
				if cl.Class.Inputs == "some" && len(im) == 0 {
					continue
				}
				if cl.Class.Params == "some" && (len(given) == 0 || len(missing) == 0) {
					continue
				}
				b, _ := json.Marshal(doc)
				if cl.Class.Form == "malformed" {
					b = malformed(r, b)
				}
				id++
				enc.Encode(jrRequest{ID: id, Class: cname, Expect: cl.Response.Kind, Model: name, Split: r.Intn(2) == 0, Bytes: b,
					Given: given, Missing: missing, InGiven: ig, InMiss: im, Extreme: extreme})
			}
		}
	}
	// one LONG request (series of 140 000 values, a document of several megabytes): "any series lengths"
	for ci := range cls {
		cl := &cls[ci]
		if cl.Class.Form == "malformed" || cl.Class.Name != "known" || cl.Class.Tables || cl.Class.Params != "all" || cl.Class.Inputs != "all" || cl.Class.Extras || cl.Class.PVals == "zero" || cl.Response.Kind != "result" {
			continue
		}
		cname := fmt.Sprintf("%s/%s/tables=%v/params=%s/extras=%v/inputs=%s/long", cl.Class.Form, cl.Class.Name, cl.Class.Tables, cl.Class.Params, cl.Class.Extras, cl.Class.Inputs)
		for _, name := range []string{"RunoffCoefficient", "Sum"} {
			doc, given, missing, ig, im, extreme := buildRequest(r, name, cl, 140000)
			if extreme {
				continue
			}
			b, _ := json.Marshal(doc)
			id++
			enc.Encode(jrRequest{ID: id, Class: cname, Expect: cl.Response.Kind, Model: name, Split: id%2 == 0, Bytes: b,
				Given: given, Missing: missing, InGiven: ig, InMiss: im, Extreme: extreme})
		}
		break
	}
	// the shortest byte strings, systematically: every single byte, and every two-byte string that starts like
	// something a reader may special-case (byte order marks, UTF-8 lead bytes, the first characters of JSON values)
	for ci := range cls {
		cl := &cls[ci]
		if cl.Class.Form != "malformed" {
			continue
		}
		cname := fmt.Sprintf("%s/%s/tables=%v/params=%s/extras=%v/inputs=%s", cl.Class.Form, cl.Class.Name, cl.Class.Tables, cl.Class.Params, cl.Class.Extras, cl.Class.Inputs)
		emit := func(b []byte) {
			if json.Valid(b) && len(b) > 0 && (b[0] == '{') {
				return
			}
			id++
			enc.Encode(jrRequest{ID: id, Class: cname + "/short", Expect: cl.Response.Kind, Model: "Sum", Split: id%2 == 0, Bytes: b})
		}
		for x := 0; x < 256; x++ {
			emit([]byte{byte(x)})
		}
		leads := []byte{0xEF, 0xFE, 0xFF, 0xC3, 0xE2, 0xF0, 0x00, '{', '[', '"', '-', 't', 'f', 'n', '\\', ' '}
		stride := 1
		if per <= 1 {
			stride = 3 // quick: every third second byte (offset by the seed), all of them in the thorough tier
		}
		for _, l := range leads {
			for x := int(seed()) % stride; x < 256; x += stride {
				emit([]byte{l, byte(x)})
			}
		}
		for _, pre := range [][]byte{{0xEF, 0xBB, 0xBF}, {0xEF, 0xBB}, {0xFE, 0xFF}, {0xFF, 0xFE}, {0xEF, 0xBB, 0xBF, 0xEF}} {
			emit(pre)
			emit(append(append([]byte{}, pre...), []byte(`{"Name":"Sum"}`)...))
		}
		break
	}
	w.Flush()
	fh.Close()
	s := &summary{Engine: "jsonrun-gen", Evaluations: id, Distinct: len(cls)}
	s.emit()
	return nil
}

type jrDoc struct {
	Log        []string
	RunResults struct {
		Outputs interface{}
		States  interface{}
	}
}

func safeNum(v interface{}) (float64, bool) {
	switch x := v.(type) {
	case float64:
		return x, true
	case string:
		switch x {
		case "NaN":
			return math.NaN(), true
		case "+Inf":
			return math.Inf(1), true
		case "-Inf":
			return math.Inf(-1), true
		}
	}
	return 0, false
}

// jrExec runs the requests one after the other and appends one verdict line per request.
func jrExec(args []string) error {
	if len(args) < 3 {
		return fmt.Errorf("usage: jsonrun exec <requests> <results> <progress> [-from k]")
	}
	from := 0
	for i := 3; i < len(args); i++ {
		if args[i] == "-from" {
			i++
			fmt.Sscan(args[i], &from)
		}
	}
	fh, err := os.Open(args[0])
	if err != nil {
		return err
	}
	defer fh.Close()
	out, err := os.OpenFile(args[1], os.O_APPEND|os.O_CREATE|os.O_WRONLY, 0644)
	if err != nil {
		return err
	}
	defer out.Close()
	sc := bufio.NewScanner(fh)
	sc.Buffer(make([]byte, 1<<20), 1<<24)
	for sc.Scan() {
		var rq jrRequest
		if err := json.Unmarshal(sc.Bytes(), &rq); err != nil {
			return err
		}
		if rq.ID <= from {
			continue
		}
		os.WriteFile(args[2], []byte(fmt.Sprintf("%d", rq.ID)), 0644)
		verdict := jrOne(&rq)
		b, _ := json.Marshal(verdict)
		out.Write(append(b, '\n'))
	}
	os.WriteFile(args[2], []byte("done"), 0644)
	return nil
}

func jrOne(rq *jrRequest) map[string]interface{} {
	v := map[string]interface{}{"id": rq.ID, "class": rq.Class, "model": rq.Model, "ok": true}
	bad := func(kind, detail string) map[string]interface{} {
		v["ok"] = false
		v["kind"] = kind
		v["detail"] = detail
		v["request"] = string(rq.Bytes)
		return v
	}
	var buf bytes.Buffer
	if pm := protect(func() { sim.RunSingleModelJSON(bytes.NewReader(rq.Bytes), &buf, rq.Split) }); pm != "" {
		return bad("panic", "RunSingleModelJSON panicked: "+pm+" (output so far: "+tailStr(buf.String(), 200)+")")
	}
	// exactly one valid JSON document
	dec := json.NewDecoder(bytes.NewReader(buf.Bytes()))
	var doc jrDoc
	if err := dec.Decode(&doc); err != nil {
		return bad("not-json", fmt.Sprintf("output is not a JSON document: %v: %q", err, tailStr(buf.String(), 200)))
	}
	var extra interface{}
	if err := dec.Decode(&extra); err == nil {
		return bad("two-documents", "more than one JSON document was written")
	}
	if strings.TrimSpace(buf.String()) == "" {
		return bad("no-document", "nothing was written")
	}
	isProblem := doc.RunResults.Outputs == nil && doc.RunResults.States == nil
	switch rq.Expect {
	case "problem":
		if !isProblem {
			return bad("result-for-problem", "the request is a problem class ("+rq.Class+") but results were returned")
		}
		nonEmpty := false
		for _, l := range doc.Log {
			if strings.TrimSpace(l) != "" {
				nonEmpty = true
			}
		}
		if !nonEmpty {
			return bad("problem-not-described", "problem document without any description in Log")
		}
		return v
	case "either":
		if !isProblem && strings.Contains(rq.Class, "inputs=emptyall") {
			// a run of zero timesteps: every output series empty, the states as InitialiseStates(1) leaves them
			// (defaults applied) -- no direct Run here: several kernels cannot take an empty series
			return jrZeroSteps(rq, &doc, v, bad)
		}
		return v
	}
	if isProblem {
		return bad("problem-for-result", "a runnable request was answered with a problem document: "+strings.Join(doc.Log, " | "))
	}
	// log entries for defaults / zero-filled inputs
	logAll := strings.Join(doc.Log, "\n")
	for _, p := range rq.Missing {
		if !strings.Contains(logAll, p) {
			return bad("default-not-logged", "parameter "+p+" was defaulted but is not mentioned in Log: "+logAll)
		}
	}
	for _, in := range rq.InMiss {
		if !strings.Contains(logAll, in) {
			return bad("zero-input-not-logged", "input "+in+" was zero-filled but is not mentioned in Log: "+logAll)
		}
	}
	// the direct one-cell run
	var rd struct {
		Name       string
		Inputs     []struct{ Name string; Values []float64 }
		Parameters []struct{ Name string; Value float64 }
	}
	json.Unmarshal(rq.Bytes, &rd)
	m := sim.Catalog[rq.Model]()
	desc := m.Description()
	pArr := data.NewArray2DFloat64(len(desc.Parameters), 1)
	for i, p := range desc.Parameters {
		val := p.Default
		for _, g := range rd.Parameters {
			if g.Name == p.Name {
				val = g.Value
				break
			}
		}
		pArr.Set2(i, 0, val)
	}
	T := 0
	for _, in := range rd.Inputs {
		for _, dn := range desc.Inputs {
			if dn == in.Name {
				T = len(in.Values)
			}
		}
	}
	iArr := data.NewArray3DFloat64(1, len(desc.Inputs), T)
	for i, dn := range desc.Inputs {
		for _, in := range rd.Inputs {
			if in.Name == dn {
				for t, x := range in.Values {
					iArr.Set3(0, i, t, x)
				}
				break
			}
		}
	}
	var oArr data.ND3Float64
	var sArr data.ND2Float64
	if pm := protect(func() {
		m.ApplyParameters(pArr)
		sArr = m.InitialiseStates(1)
		oArr = sim.InitialiseOutputs(m, T, 1)
		m.Run(iArr, sArr, oArr)
	}); pm != "" {
		return bad("direct-run-panic", pm)
	}
	// compare outputs
	getSeries := func(k int) ([]interface{}, bool) {
		if rq.Split {
			mp, ok := doc.RunResults.Outputs.(map[string]interface{})
			if !ok {
				return nil, false
			}
			arr, ok := mp[desc.Outputs[k]].([]interface{})
			return arr, ok
		}
		outer, ok := doc.RunResults.Outputs.([]interface{})
		if !ok || k >= len(outer) {
			return nil, false
		}
		arr, ok := outer[k].([]interface{})
		return arr, ok
	}
	for k := range desc.Outputs {
		ser, ok := getSeries(k)
		if !ok || len(ser) != T {
			return bad("outputs-nesting", fmt.Sprintf("output %s is not nested like the array (want %d values): %v", desc.Outputs[k], T, doc.RunResults.Outputs))
		}
		for t := 0; t < T; t++ {
			got, ok := safeNum(ser[t])
			want := oArr.Get3(0, k, t)
			if !ok || !(got == want || (math.IsNaN(got) && math.IsNaN(want))) {
				return bad("outputs-values", fmt.Sprintf("output %s[%d] = %v, the direct run gives %v", desc.Outputs[k], t, ser[t], want))
			}
			// encoding: non-finite values must be the three strings, finite ones numbers
			if _, isStr := ser[t].(string); isStr != (math.IsNaN(want) || math.IsInf(want, 0)) {
				return bad("outputs-encoding", fmt.Sprintf("output %s[%d]: %v encoded as %T", desc.Outputs[k], t, want, ser[t]))
			}
		}
	}
	ns := sArr.Len(1)
	for k := 0; k < ns; k++ {
		var gv interface{}
		if rq.Split {
			mp, ok := doc.RunResults.States.(map[string]interface{})
			if !ok {
				return bad("states-nesting", "States is not an object in split mode")
			}
			if k >= len(desc.States) {
				continue // models whose state vector is longer than the declared names
			}
			gv = mp[desc.States[k]]
		} else {
			arr, ok := doc.RunResults.States.([]interface{})
			if !ok || len(arr) != ns {
				return bad("states-nesting", fmt.Sprintf("States is not an array of %d values: %v", ns, doc.RunResults.States))
			}
			gv = arr[k]
		}
		got, ok := safeNum(gv)
		want := sArr.Get2(0, k)
		if !ok || !(got == want || (math.IsNaN(got) && math.IsNaN(want))) {
			return bad("states-values", fmt.Sprintf("state %d = %v, the direct run gives %v", k, gv, want))
		}
	}
	return v
}

func jrZeroSteps(rq *jrRequest, doc *jrDoc, v map[string]interface{}, bad func(kind, detail string) map[string]interface{}) map[string]interface{} {
	var rd struct {
		Parameters []struct {
			Name  string
			Value float64
		}
	}
	json.Unmarshal(rq.Bytes, &rd)
	m := sim.Catalog[rq.Model]()
	desc := m.Description()
	pArr := data.NewArray2DFloat64(len(desc.Parameters), 1)
	for i, p := range desc.Parameters {
		val := p.Default
		for _, g := range rd.Parameters {
			if g.Name == p.Name {
				val = g.Value
				break
			}
		}
		pArr.Set2(i, 0, val)
	}
	m.ApplyParameters(pArr)
	st := m.InitialiseStates(1)
	series := func(x interface{}) bool { a, ok := x.([]interface{}); return ok && len(a) == 0 }
	switch o := doc.RunResults.Outputs.(type) {
	case map[string]interface{}:
		for _, name := range desc.Outputs {
			if !series(o[name]) {
				return bad("zero-steps-outputs", fmt.Sprintf("zero timesteps but output %s is %v", name, o[name]))
			}
		}
	case []interface{}:
		if len(o) != len(desc.Outputs) {
			return bad("zero-steps-outputs", fmt.Sprintf("zero timesteps: %d output series for %d outputs", len(o), len(desc.Outputs)))
		}
		for k, x := range o {
			if !series(x) {
				return bad("zero-steps-outputs", fmt.Sprintf("zero timesteps but output %s is %v", desc.Outputs[k], x))
			}
		}
	default:
		return bad("zero-steps-outputs", fmt.Sprintf("Outputs is %v", doc.RunResults.Outputs))
	}
	for k := 0; k < st.Len(1); k++ {
		var gv interface{}
		if rq.Split {
			mp, _ := doc.RunResults.States.(map[string]interface{})
			if k >= len(desc.States) {
				continue
			}
			gv = mp[desc.States[k]]
		} else {
			arr, ok := doc.RunResults.States.([]interface{})
			if !ok || len(arr) != st.Len(1) {
				return bad("zero-steps-states", fmt.Sprintf("States is not an array of %d values: %v", st.Len(1), doc.RunResults.States))
			}
			gv = arr[k]
		}
		got, ok := safeNum(gv)
		want := st.Get2(0, k)
		if !ok || !(got == want || (math.IsNaN(got) && math.IsNaN(want))) {
			return bad("zero-steps-states", fmt.Sprintf("zero timesteps: state %d = %v, initialised value %v", k, gv, want))
		}
	}
	return v
}

// jrNest checks JsonSafeArray / JsonSafeValue against the nesting computed by the specification,
// on whole arrays and on stepped / offset views holding the same elements.
func jrNest(args []string) error {
	_, nests, err := readClasses(args[0])
	if err != nil {
		return err
	}
	s := &summary{Engine: "jsonrun-nest"}
	f64 := factoryByName("float64")
	for _, line := range nests {
		var w struct {
			N struct {
				Shape  []int         `json:"shape"`
				Shift  int           `json:"shift"`
				Cells  []interface{} `json:"cells"`
				Expect interface{}   `json:"expect"`
			} `json:"jsonnest"`
		}
		if err := json.Unmarshal([]byte(line), &w); err != nil {
			return err
		}
		vals := make([]float64, len(w.N.Cells))
		for i, c := range w.N.Cells {
			vals[i], _ = safeNum(c)
		}
		for _, layout := range []string{"contig", "stepped", "offset", "tail"} {
			// build the view with float values (the generic factory carries int64, so fill through Set)
			iv := make([]int64, len(vals))
			src, _ := freshSource(f64, layout, w.N.Shape, iv, nil, nil)
			a := src.(*adFloat64).a
			for k, x := range vals {
				a.Set(unrank(k, w.N.Shape), x)
			}
			s.Evaluations++
			var got interface{}
			if pm := protect(func() { got = owjson.JsonSafeArray(a, w.N.Shift) }); pm != "" {
				s.mismatch(map[string]interface{}{"kind": "nest-panic", "shape": w.N.Shape, "shift": w.N.Shift, "layout": layout, "detail": pm})
				continue
			}
			gb, _ := json.Marshal(got)
			var gj interface{}
			json.Unmarshal(gb, &gj)
			if !reflect.DeepEqual(gj, w.N.Expect) {
				eb, _ := json.Marshal(w.N.Expect)
				s.mismatch(map[string]interface{}{"kind": "nest", "shape": w.N.Shape, "shift": w.N.Shift, "layout": layout,
					"detail": fmt.Sprintf("JsonSafeArray = %s, specification %s", gb, eb)})
			}
		}
		if len(s.Samples) < 2 {
			var j interface{}
			json.Unmarshal([]byte(line), &j)
			s.sample(j)
		}
	}
	for _, x := range []float64{math.NaN(), math.Inf(1), math.Inf(-1), 0, -1.5} {
		g := owjson.JsonSafeValue(x)
		b, err := json.Marshal(g)
		back, ok := safeNum(func() interface{} { var j interface{}; json.Unmarshal(b, &j); return j }())
		if err != nil || !ok || !(back == x || (math.IsNaN(back) && math.IsNaN(x))) {
			s.mismatch(map[string]interface{}{"kind": "safevalue", "detail": fmt.Sprintf("JsonSafeValue(%v) = %s", x, b)})
		}
		s.Evaluations++
	}
	s.Distinct = len(nests)
	s.emit()
	return nil
}
