package main

import (
	"bufio"
	"encoding/json"
	"fmt"
	"math"
	"os"
	"sort"

	"github.com/flowmatters/openwater-core/data"
	"github.com/flowmatters/openwater-core/sim"
)

// climate engine (C20): the catalogued ClimateVariables model is evaluated on a grid
//   elevation x relative humidity x dry-bulb temperature   (the grid of spec/TraceClimate.tla)
// and one observation per grid point is logged, RANK-encoded among all floats of the run (order-isomorphic;
// TLC does no arithmetic on them).  The only arithmetic fact, "deltaT is dry bulb minus wet bulb", is
// evaluated here bit for bit and logged as a flag.
//
//   vh climate <trace.ndjson> <temperature step> <fine|coarse humidity>
func init() { register("climate", climateEngine) }

func climateEngine(args []string) error {
	if len(args) < 2 {
		return fmt.Errorf("usage: climate <trace> <dT> [fine]")
	}
	var dT float64
	fmt.Sscan(args[1], &dT)
	fine := len(args) > 2 && args[2] == "fine"
	// temperatures: [-40, 55] in steps of dT plus points straddling the freezing point (the saturation
	// vapour pressure switches formulation there)
	tset := map[float64]bool{}
	n := int(math.Round(95 / dT))
	for i := 0; i <= n; i++ {
		tset[-40+95*float64(i)/float64(n)] = true
	}
	for _, x := range []float64{-1e-3, -1e-6, -1e-9, 0, 1e-9, 1e-6, 1e-3, -40, 55} {
		tset[x] = true
	}
	var ts []float64
	for t := range tset {
		ts = append(ts, t)
	}
	sort.Float64s(ts)
	hs := []float64{0.5, 1, 2, 5, 10, 20, 30, 40, 50, 60, 70, 80, 90, 95, 99, 100}
	if fine {
		hs = nil
		for h := 0.5; h < 100; h += 0.5 {
			hs = append(hs, h)
		}
		hs = append(hs, 99.9, 99.99, 100)
		sort.Float64s(hs)
	}
	es := []float64{0, 500, 2000, 5000, 10000}
	type pt struct {
		e, h, t            int
		svp, dew, wet, del float64
		dry                float64
	}
	var pts []pt
	T := len(ts)
	for ei, elev := range es {
		m := sim.Catalog["ClimateVariables"]()
		p := data.NewArray2DFloat64(1, 1)
		p.Set2(0, 0, elev)
		m.ApplyParameters(p)
		for hi, h := range hs {
			in := data.NewArray3DFloat64(1, 2, T)
			for i, t := range ts {
				in.Set3(0, 0, i, t)
				in.Set3(0, 1, i, h)
			}
			st := m.InitialiseStates(1)
			out := data.NewArray3DFloat64(1, 4, T)
			if pm := protect(func() { m.Run(in, st, out) }); pm != "" {
				return fmt.Errorf("ClimateVariables panicked: %s", pm)
			}
			for i := range ts {
				pts = append(pts, pt{e: ei, h: hi, t: i, dry: ts[i], svp: out.Get3(0, 0, i), dew: out.Get3(0, 1, i), wet: out.Get3(0, 2, i), del: out.Get3(0, 3, i)})
			}
		}
	}
	// global dense ranking of every finite float that is compared
	vals := map[float64]bool{0: true}
	add := func(x float64) {
		if !math.IsNaN(x) && !math.IsInf(x, 0) {
			vals[x] = true
		}
	}
	for _, q := range pts {
		add(q.svp)
		add(q.dew)
		add(q.wet)
		add(q.dry)
	}
	var sorted []float64
	for v := range vals {
		sorted = append(sorted, v)
	}
	sort.Float64s(sorted)
	rank := func(x float64) int {
		if math.IsNaN(x) || math.IsInf(x, 0) {
			return -1
		}
		return sort.SearchFloat64s(sorted, x)
	}
	fh, err := os.Create(args[0])
	if err != nil {
		return err
	}
	w := bufio.NewWriterSize(fh, 1<<20)
	enc := json.NewEncoder(w)
	enc.Encode(map[string]interface{}{"ev": "grid", "nt": T, "nh": len(hs), "ne": len(es), "zero": rank(0)})
	for _, q := range pts {
		finite := true
		for _, x := range []float64{q.svp, q.dew, q.wet, q.del} {
			if math.IsNaN(x) || math.IsInf(x, 0) {
				finite = false
			}
		}
		enc.Encode(map[string]interface{}{"ev": "pt", "e": q.e, "h": q.h, "t": q.t,
			"svp": rank(q.svp), "dew": rank(q.dew), "wet": rank(q.wet), "dry": rank(q.dry),
			"deltaok": math.Float64bits(q.del) == math.Float64bits(q.dry-q.wet), "finite": finite,
			"raw": []float64{es[q.e], hs[q.h], q.dry, jsonable(q.svp), jsonable(q.dew), jsonable(q.wet), jsonable(q.del)}})
	}
	// one LONG record (4099 timesteps, temperatures rising from -40 to 55 C at the lowest humidity of the grid): a
	// kernel that treats long series differently (blocks, workers) is only reached here; judged by the same laws
	{
		const TL = 4099
		m := sim.Catalog["ClimateVariables"]()
		p := data.NewArray2DFloat64(1, 1)
		p.Set2(0, 0, es[0])
		m.ApplyParameters(p)
		in := data.NewArray3DFloat64(1, 2, TL)
		for i := 0; i < TL; i++ {
			in.Set3(0, 0, i, -40+95*float64(i)/float64(TL-1))
			in.Set3(0, 1, i, hs[0])
		}
		st := m.InitialiseStates(1)
		out := data.NewArray3DFloat64(1, 4, TL)
		if pm := protect(func() { m.Run(in, st, out) }); pm != "" {
			return fmt.Errorf("ClimateVariables panicked on a record of %d timesteps: %s", TL, pm)
		}
		lvals := []float64{0}
		for i := 0; i < TL; i++ {
			for k := 0; k < 3; k++ {
				if v := out.Get3(0, k, i); !math.IsNaN(v) && !math.IsInf(v, 0) {
					lvals = append(lvals, v)
				}
			}
			lvals = append(lvals, in.Get3(0, 0, i))
		}
		sort.Float64s(lvals)
		lrank := func(x float64) int {
			if math.IsNaN(x) || math.IsInf(x, 0) {
				return -1
			}
			return sort.SearchFloat64s(lvals, x)
		}
		enc.Encode(map[string]interface{}{"ev": "grid", "nt": TL, "nh": 1, "ne": 1, "zero": lrank(0)})
		for i := 0; i < TL; i++ {
			dry, svp, dew, wet, del := in.Get3(0, 0, i), out.Get3(0, 0, i), out.Get3(0, 1, i), out.Get3(0, 2, i), out.Get3(0, 3, i)
			finite := true
			for _, x := range []float64{svp, dew, wet, del} {
				if math.IsNaN(x) || math.IsInf(x, 0) {
					finite = false
				}
			}
			enc.Encode(map[string]interface{}{"ev": "pt", "e": 0, "h": 0, "t": i,
				"svp": lrank(svp), "dew": lrank(dew), "wet": lrank(wet), "dry": lrank(dry),
				"deltaok": math.Float64bits(del) == math.Float64bits(dry-wet), "finite": finite,
				"raw": []float64{es[0], hs[0], dry, jsonable(svp), jsonable(dew), jsonable(wet), jsonable(del)}})
		}
		pts = append(pts, make([]pt, TL)...)
	}
	w.Flush()
	fh.Close()
	s := &summary{Engine: "climate", Evaluations: len(pts), Distinct: len(pts)}
	s.Extra = map[string]interface{}{"temperatures": T, "humidities": len(hs), "elevations": len(es)}
	s.sample(map[string]interface{}{"elevation": es[0], "humidity": hs[len(hs)/2], "dryBulb": ts[T/2]})
	s.emit()
	return nil
}

func jsonable(x float64) float64 {
	if math.IsNaN(x) || math.IsInf(x, 0) {
		return -9999
	}
	return x
}
