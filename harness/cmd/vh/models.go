package main

// Shared infrastructure for every engine that runs catalogue models (C03b, C04, C05, C06, C14, C17):
// curated generation of valid parameters / initial states / inputs, and helpers that build the four
// caller arrays (Go- or C-backed), run a model and read everything back.

import (
	"fmt"
	"math"
	"math/rand"
	"unsafe"

	"github.com/flowmatters/openwater-core/data"
	"github.com/flowmatters/openwater-core/data/cdata"
	"github.com/flowmatters/openwater-core/sim"
)

// ---- curated ranges ---------------------------------------------------------------------------
// Parameter ranges come from Description().Range when it declares one (lo < hi); otherwise from this
// table; otherwise [0.1, 2]. Values only have to satisfy the models' preconditions (no panic on valid
// use, terminating solvers): the oracles are bit-wise comparisons of real runs with real runs.

type rng2 struct{ lo, hi float64 }

var curated = map[string]map[string]rng2{
	"Lag":                   {"timeLag": {0, 0}}, // set explicitly
	"GR4J":                  {"X1": {100, 1200}, "X2": {-5, 3}, "X3": {20, 300}, "X4": {0.5, 4}},
	"Muskingum":             {"K": {43200, 172800}, "X": {0, 0.5}, "DeltaT": {86400, 86400}},
	"StorageRouting":        {"InflowBias": {0, 0}, "RoutingConstant": {10000, 200000}, "RoutingPower": {0.5, 1}, "area": {0, 1000}, "deadStorage": {0, 1000}, "DeltaT": {86400, 86400}},
	"StorageDissolvedDecay": {"doStorageDecay": {1, 1}, "annualReturnInterval": {1, 5}, "bankFullFlow": {1, 100}, "medianFloodResidenceTime": {1, 10}, "DeltaT": {86400, 86400}},
	"ClimateVariables":      {"elevation": {0, 3000}},
	"InstreamDissolvedNutrientDecay": {"linkHeight": {1, 5}, "linkWidth": {5, 30}, "linkLength": {500, 5000}, "uptakeVelocity": {0.01, 1}, "pointSourceLoad": {0, 100}, "durationInSeconds": {86400, 86400}},
	"Sacramento":            {"uztwm": {10, 125}, "uzfwm": {5, 75}, "lztwm": {10, 300}, "lzfsm": {5, 300}, "lzfpm": {5, 600}, "uh1": {0.5, 0.6}, "uh2": {0.2, 0.25}, "uh3": {0.1, 0.1}, "uh4": {0.03, 0.03}, "uh5": {0.02, 0.02}},
	"Simhyd":                {"baseflowCoefficient": {0.05, 0.5}, "imperviousThreshold": {0, 3}, "infiltrationCoefficient": {50, 300}, "infiltrationShape": {0.5, 5}, "interflowCoefficient": {0.01, 0.5}, "perviousFraction": {0.5, 1}, "rainfallInterceptionStoreCapacity": {0.5, 5}, "rechargeCoefficient": {0.05, 0.8}, "soilMoistureStoreCapacity": {50, 400}},
	"Surm":                  {"bfac": {0.05, 0.5}, "coeff": {50, 300}, "dseep": {0, 0.1}, "fcFrac": {0.3, 0.8}, "fimp": {0, 0.3}, "rfac": {0.05, 0.8}, "smax": {50, 400}, "sq": {0.5, 5}, "thres": {0, 3}},
	"DateGenerator":         {"startDate": {1, 28}, "startMonth": {1, 12}, "startYear": {1900, 2100}},
	"InstreamFineSediment":  {"bankFullFlow": {5, 50}, "linkWidth": {5, 30}, "linkLength": {500, 5000}, "linkSlope": {0.001, 0.02}, "bankHeight": {1, 5}, "propBankHeightForFineDep": {0.1, 0.9}, "sedBulkDensity": {1, 2}, "manningsN": {0.02, 0.08}, "fineSedSettVelocity": {1e-6, 1e-4}, "fineSedSettVelocityFlood": {1e-6, 1e-4}, "fineSedReMobVelocity": {1e-7, 1e-5}, "floodPlainArea": {1e4, 1e6}},
	"StorageParticulateTrapping": {"reservoirCapacity": {1e5, 1e7}, "reservoirLength": {100, 5000}, "subtractor": {100, 112}, "multiplier": {0.5, 1}, "lengthDischargeFactor": {1, 4}, "lengthDischargePower": {0.1, 0.5}, "DeltaT": {86400, 86400}},
}

// switches: parameter values that select a different branch of a kernel; drawn with probability 1/3 each
var switches = map[string]map[string][]float64{
	"InstreamFineSediment":                {"bankFullFlow": {0}},
	"StorageDissolvedDecay":               {"doStorageDecay": {0, 1}, "medianFloodResidenceTime": {0}},
	"InstreamDissolvedNutrientDecay":      {"doDecay": {0, 1}},
	"SednetParticulateNutrientGeneration": {"Do_P_CREAMS_Enrichment": {0, 1}},
	"ApplyScalingFactor":                  {"scale": {0}},
	"DeliveryRatio":                       {"fraction": {0}},
	"DepthToRate":                         {"area": {0}},
	"PassLoadIfFlow":                      {"scalingFactor": {0}},
	"FixedConcentration":                  {"concentration": {0}},
	"EmcDwc":                              {"EMC": {0}, "DWC": {0}},
	"ConstituentDecay":                    {"halfLife": {0}},
	"StorageRouting":                      {"InflowBias": {0.2, 0.4}, "RoutingPower": {1, 0.7}},
	"Muskingum":                           {"X": {0}},
	"DynamicSednetGully":                  {"longtermRunoffFactor": {0}, "dailyRunoffPowerFactor": {0}},
	"Surm":                                {"smax": {3, 8}},
}

// models whose catalogue defaults violate a precondition (zero-length unit hydrograph, month 0, ...)
var noDefaults = map[string]bool{"GR4J": true, "DateGenerator": true, "Lag": true, "Storage": true, "RatingCurvePartition": true,
	"Muskingum": true, "StorageRouting": true}

// defaultBias: probability that a parameter takes its catalogue default (engines raise it for
// "defaults-heavy" draws so that not-configured branches are exercised systematically)
var defaultBias = 0.125

// physicalOnly: draw every parameter from its curated / documented range only (no branch-selecting switch values,
// no catalogue defaults) -- for properties stated "for parameters in their physically meaningful ranges" (C10)
var physicalOnly = false

var intParams = map[string]bool{"DateGenerator.startDate": true, "DateGenerator.startMonth": true, "DateGenerator.startYear": true,
	"DynamicSednetGully.YearDisturbance": true, "DynamicSednetGully.GullyEndYear": true,
	"DynamicSednetGullyAlt.YearDisturbance": true, "DynamicSednetGullyAlt.GullyEndYear": true}

var curatedInputs = map[string]map[string]rng2{
	"ClimateVariables":            {"dryBulb": {-10, 40}, "humidity": {5, 100}},
	"VariablePartition":           {"fraction": {0, 1}},
	"USLEFineSedimentGeneration":  {"dayOfYear": {1, 365}, "KLSC": {0, 1}, "KLSC_Fine": {0, 1}, "CovOrCFact": {0, 1}},
	"InstreamFineSediment":        {"reachVolume": {1000, 1e6}, "outflow": {0, 60}},
	// channelDepositionFraction < 0: remobilisation from the bed (the bed account may run into deficit)
	"InstreamParticulateNutrient": {"floodplainDepositionFraction": {0, 0.5}, "channelDepositionFraction": {-0.5, 0.5}, "reachVolume": {1000, 1e6}},
	"InstreamDissolvedNutrientDecay": {"floodplainDepositionFraction": {0, 0.5}, "reachVolume": {100, 3e5}},
	"DynamicSednetGully":          {"year": {1990, 2020}},
	"DynamicSednetGullyAlt":       {"year": {1990, 2020}},
	"Storage":                     {"rainfall": {0, 20}, "pet": {0, 8}, "inflow": {0, 30}, "demand": {0, 12}, "targetMinimumVolume": {0, 0}, "targetMinimumCapacity": {0, 0}},
	"StorageRouting":              {"rainfall": {0, 0.01}, "evap": {0, 0.005}, "inflow": {0, 50}, "lateral": {0, 5}},
	"LumpedConstituentRouting":    {"storage": {100, 1e5}, "outflow": {0, 20}},
	"ConstituentDecay":            {"storage": {100, 1e5}, "outflow": {0, 20}, "inflow": {0, 20}},
	"StorageDissolvedDecay":       {"storageVolume": {1e4, 1e6}, "outflow": {0, 20}, "inflow": {0, 20}},
	"StorageParticulateTrapping":  {"storage": {1e4, 1e6}, "outflow": {0.1, 20}, "inflow": {0, 20}},
	"StorageTrapAll":              {"storageVolume": {1e4, 1e6}},
}

func uni(r *rand.Rand, lo, hi float64) float64 {
	if hi <= lo {
		return lo
	}
	return lo + r.Float64()*(hi-lo)
}

// modelCase holds everything needed to run one model on nCells cells.
type modelCase struct {
	Name    string
	Desc    sim.ModelDescription
	NSets   int
	NCells  int
	NBlocks int
	T       int
	Dims    []int       // dimension sizes (nil for undimensioned models)
	Params  [][]float64 // [row][set], rows as laid out for ApplyParameters (built by layout())
	PVals   [][][]float64 // [parameter][set] -> values (1 for scalars, table length for tables)
	Pad     float64     // value stored in the unused rows of shorter tables
	States  [][]float64 // [cell][state] initial states
	Inputs  [][][]float64
	// per set: number of meaningful rows of each table parameter (same for all tables of a set)
	TableLen []int
	// row ranges [lo,hi) of table parameters, in Params
	TableRows [][2]int
	NoteLag   int
	// OwnStates: the vectorised run uses the array the model's own InitialiseStates(NCells) returns (as ow-sim's
	// ensemble runner and the C entry point with initStates do) instead of a caller-allocated one; States then
	// holds exactly those initial values
	OwnStates bool
}

func paramRange(model string, p sim.ParameterDescription) rng2 {
	if c, ok := curated[model]; ok {
		if r, ok := c[p.Name]; ok {
			return r
		}
	}
	if p.Range[0] < p.Range[1] {
		return rng2{p.Range[0], p.Range[1]}
	}
	return rng2{0.1, 2}
}

// newModel instantiates, dimensions and parametrises a model object from mc.Params (Go-backed).
func (mc *modelCase) newModel(params data.ND2Float64) sim.TimeSteppingModel {
	m := sim.Catalog[mc.Name]()
	dims := m.FindDimensions(params)
	if len(dims) > 0 {
		m.InitialiseDimensions(dims)
	}
	m.ApplyParameters(params)
	return m
}

func goArr2(rows [][]float64, ncol int) data.ND2Float64 {
	a := data.NewArray2DFloat64(len(rows), ncol)
	for i, r := range rows {
		for j, v := range r {
			a.Set2(i, j, v)
		}
	}
	return a
}

func (mc *modelCase) paramsArray() data.ND2Float64 { return goArr2(mc.Params, mc.NSets) }

// genCase draws a complete, valid case. sameStruct: all parameter sets share structural parameters
// (lag length, GR4J unit-hydrograph lengths) — required when several cells share one states array.
func genCase(r *rand.Rand, name string, nSets, nCells, nBlocks, T int) *modelCase {
	m := sim.Catalog[name]()
	desc := m.Description()
	mc := &modelCase{Name: name, Desc: desc, NSets: nSets, NCells: nCells, NBlocks: nBlocks, T: T}
	hasDims := len(desc.Dimensions) > 0
	maxN := 0
	if hasDims {
		mc.TableLen = make([]int, nSets)
		for s := range mc.TableLen {
			mc.TableLen[s] = 2 + r.Intn(3)
			if mc.TableLen[s] > maxN {
				maxN = mc.TableLen[s]
			}
		}
	}
	_ = maxN
	lag := r.Intn(T + 3)
	x4 := uni(r, 0.5, 4)
	mc.NoteLag = lag
	for _, p := range desc.Parameters {
		rg := paramRange(name, p)
		pv := make([][]float64, nSets)
		for s := 0; s < nSets; s++ {
			switch {
			case len(p.Dimensions) > 0:
				pv[s] = genTable(r, name, p.Name, mc.TableLen[s])
			case hasDims && isDimension(desc, p.Name):
				pv[s] = []float64{float64(mc.TableLen[s])}
			case name == "Lag" && p.Name == "timeLag":
				pv[s] = []float64{float64(lag)}
			case name == "GR4J" && p.Name == "X4":
				// same ceil(x4) and ceil(2*x4) for all sets (state vectors of equal length)
				v := x4
				if s > 0 {
					c1, c2 := math.Ceil(x4), math.Ceil(2*x4)
					for try := 0; try < 50; try++ {
						w := uni(r, 0.5, 4)
						if math.Ceil(w) == c1 && math.Ceil(2*w) == c2 {
							v = w
							break
						}
					}
				}
				pv[s] = []float64{v}
			default:
				v := uni(r, rg.lo, rg.hi)
				if sw, ok := switches[name][p.Name]; ok && r.Intn(3) == 0 && !physicalOnly {
					v = sw[r.Intn(len(sw))]
				} else if !noDefaults[name] && r.Float64() < defaultBias && !physicalOnly {
					v = p.Default // catalogue defaults (often 0) select "not configured" branches
				}
				if intParams[name+"."+p.Name] {
					v = math.Floor(v)
				}
				pv[s] = []float64{v}
			}
		}
		mc.PVals = append(mc.PVals, pv)
	}
	if name == "DateGenerator" && r.Intn(2) == 0 {
		// half of the draws start in the last days of February of a year on either side of a leap / century rule
		years := []float64{1899, 1900, 1901, 1996, 1999, 2000, 2001, 2003, 2004, 2005, 2096, 2099, 2100, 2101}
		for pi, p := range desc.Parameters {
			for s := 0; s < nSets; s++ {
				switch p.Name {
				case "startMonth":
					mc.PVals[pi][s] = []float64{2}
				case "startDate":
					mc.PVals[pi][s] = []float64{float64(24 + r.Intn(5))}
				case "startYear":
					mc.PVals[pi][s] = []float64{years[r.Intn(len(years))]}
				}
			}
		}
	}
	mc.layout()
	// inputs
	mc.Inputs = make([][][]float64, nBlocks)
	for b := range mc.Inputs {
		mc.Inputs[b] = make([][]float64, len(desc.Inputs))
		for k, in := range desc.Inputs {
			rg := rng2{0, 10}
			zeroP := 0.2
			if c, ok := curatedInputs[name]; ok {
				if x, ok := c[in]; ok {
					rg = x
					zeroP = 0
				}
			}
			ser := make([]float64, T)
			for t := range ser {
				if r.Float64() < zeroP {
					ser[t] = 0
				} else {
					ser[t] = uni(r, rg.lo, rg.hi)
				}
				if name == "USLEFineSedimentGeneration" && in == "dayOfYear" {
					ser[t] = math.Floor(ser[t])
				}
				if (name == "DynamicSednetGully" || name == "DynamicSednetGullyAlt") && in == "year" {
					ser[t] = math.Floor(ser[t])
				}
			}
			mc.Inputs[b][k] = ser
		}
	}
	if name == "RatingCurvePartition" {
		// inputs must lie inside every set's table: tables start at 0 and end >= 100
		for b := range mc.Inputs {
			for t := range mc.Inputs[b][0] {
				mc.Inputs[b][0][t] = uni(r, 0, 100)
			}
		}
		// ... and a third of them sit EXACTLY on an interior point of the first set's table (two segments meet there:
		// whichever the lookup picks, the answer is the table value)
		for pi, pd := range mc.Desc.Parameters {
			if pd.Name != "inputAmount" || len(mc.PVals[pi]) == 0 {
				continue
			}
			var interior []float64
			kn := mc.PVals[pi][0]
			for k := 1; k+1 < len(kn); k++ {
				if kn[k] > 0 && kn[k] <= 100 {
					interior = append(interior, kn[k])
				}
			}
			for b := range mc.Inputs {
				for t := range mc.Inputs[b][0] {
					if len(interior) > 0 && r.Intn(3) == 0 {
						mc.Inputs[b][0][t] = interior[r.Intn(len(interior))]
					}
				}
			}
		}
	}
	// initial states: structure from the model's own InitialiseStates, free entries randomised
	mm := mc.newModel(mc.paramsArray())
	st := mm.InitialiseStates(nCells)
	ns := st.Len(1)
	mc.States = make([][]float64, nCells)
	for c := 0; c < nCells; c++ {
		row := make([]float64, ns)
		for k := 0; k < ns; k++ {
			row[k] = st.Get2(c, k)
		}
		switch name {
		case "GR4J":
			set := c % nSets
			row[0] = uni(r, 0, mc.paramByName("X1", set))
			row[1] = uni(r, 0, mc.paramByName("X3", set))
			for k := 4; k < ns; k++ {
				row[k] = uni(r, 0, 2)
			}
		case "Storage":
			// (not below 1e5 m3: a storage that runs dry within a timestep makes the unchanged model panic -- the recorded
			// C13 finding -- and with hundreds of cells some draw would get there)
			row[0] = uni(r, 1e5, 5e6)
		default:
			for k := 0; k < ns; k++ {
				row[k] = uni(r, 0, 5)
			}
		}
		mc.States[c] = row
	}
	return mc
}

// layout builds Params ([row][set]) from PVals: tables padded to the longest table among the sets.
func (mc *modelCase) layout() {
	mc.Params = nil
	mc.TableRows = nil
	maxN := 0
	for _, n := range mc.TableLen {
		if n > maxN {
			maxN = n
		}
	}
	if mc.TableLen != nil {
		mc.Dims = []int{maxN}
	}
	for pi, p := range mc.Desc.Parameters {
		if len(p.Dimensions) > 0 {
			lo := len(mc.Params)
			for k := 0; k < maxN; k++ {
				row := make([]float64, mc.NSets)
				for s := 0; s < mc.NSets; s++ {
					if k < len(mc.PVals[pi][s]) {
						row[s] = mc.PVals[pi][s][k]
					} else {
						row[s] = mc.Pad
					}
				}
				mc.Params = append(mc.Params, row)
			}
			mc.TableRows = append(mc.TableRows, [2]int{lo, lo + maxN})
			continue
		}
		row := make([]float64, mc.NSets)
		for s := 0; s < mc.NSets; s++ {
			row[s] = mc.PVals[pi][s][0]
		}
		mc.Params = append(mc.Params, row)
	}
}

func isDimension(desc sim.ModelDescription, name string) bool {
	for _, d := range desc.Dimensions {
		if d == name {
			return true
		}
	}
	return false
}

func (mc *modelCase) paramByName(name string, set int) float64 {
	for pi, p := range mc.Desc.Parameters {
		if p.Name == name {
			return mc.PVals[pi][set][0]
		}
	}
	return math.NaN()
}

// genTable: valid monotone tables for the two dimensioned models.
func genTable(r *rand.Rand, model, param string, n int) []float64 {
	t := make([]float64, n)
	switch model + "." + param {
	case "RatingCurvePartition.inputAmount":
		// strictly increasing from 0 to >= 100
		for k := range t {
			t[k] = float64(k) * (100.0/float64(n-1) + r.Float64())
		}
		t[0] = 0
	case "RatingCurvePartition.proportion":
		for k := range t {
			t[k] = r.Float64()
		}
		if r.Intn(3) == 0 {
			// a table that is not a proportion everywhere (nothing in the model or its description forbids it; whatever a
			// kernel does about such values it must do to its own copy, not to the caller's parameter array)
			t[r.Intn(n)] = []float64{1.5, -0.25, 2}[r.Intn(3)]
		}
	case "Storage.levels":
		for k := range t {
			t[k] = 10 * float64(k)
		}
	case "Storage.volumes":
		for k := range t {
			t[k] = 1e6 * float64(k) * (1 + float64(k)/2)
		}
	case "Storage.areas":
		for k := range t {
			t[k] = 1e4 + 2e5*float64(k)
		}
	case "Storage.minRelease":
		for k := range t {
			t[k] = 0
		}
		t[n-1] = 50
	case "Storage.maxRelease":
		for k := range t {
			t[k] = 10 * float64(k)
		}
		t[n-1] = 80
	default:
		for k := range t {
			t[k] = float64(k + 1)
		}
	}
	return t
}

// ---- building arrays and running ----------------------------------------------------------------

// arena provides Go- or C-backed float64 arrays; C-backed ones live in guarded regions.
type arena struct {
	backend string
	regions []*guarded
	bufs    [][]float64
}

func (a *arena) alloc(n int) ([]float64, unsafe.Pointer) {
	if a.backend == "go" {
		b := make([]float64, n)
		a.bufs = append(a.bufs, b)
		return b, nil
	}
	pages := (n*8)/4096 + 1
	g, err := newGuarded(pages)
	if err != nil {
		panic(err)
	}
	p := g.place(n*8, true)
	a.regions = append(a.regions, g)
	var b []float64
	if n > 0 {
		b = unsafe.Slice((*float64)(p), n)
	}
	a.bufs = append(a.bufs, b)
	return b, p
}

func (a *arena) intact() bool {
	for _, g := range a.regions {
		if !g.slackIntact() {
			return false
		}
	}
	return true
}

func (a *arena) release() {
	// regions are small; unmap to avoid leaking address space in long runs
	for _, g := range a.regions {
		syscallMunmap(g.all)
	}
	a.regions = nil
}

func (a *arena) array(buf []float64, p unsafe.Pointer, shape []int) data.NDFloat64 {
	if a.backend == "go" {
		return data.ArrayFromSliceFloat64(buf, shape)
	}
	return cdata.NewFloat64CArray(p, shape)
}

type runResult struct {
	Out      []float64 // whole output array [oc][no][ot], row-major
	OC, NO, OT int
	States   []float64 // [cells][ns]
	NS       int
	ParamsAfter, InputsAfter []float64
	Intact   bool
	ArgsChanged string // non-empty: Run altered its arguments beyond the permitted rows (detected by shapes / re-run)
}

const slackFill = -777.25

// runVector runs the model once on all cells. cellsSel: which cells to include (nil = all): used to
// build single-cell oracles (then nSets/nBlocks are reduced to exactly the cell's column and block).
func (mc *modelCase) runVector(backend string, oc, ot int, m sim.TimeSteppingModel) (res *runResult, panicMsg string) {
	a := &arena{backend: backend}
	defer a.release()
	np := len(mc.Params)
	pb, pp := a.alloc(np * mc.NSets)
	for i := 0; i < np; i++ {
		for s := 0; s < mc.NSets; s++ {
			pb[i*mc.NSets+s] = mc.Params[i][s]
		}
	}
	ns := 0
	if mc.NCells > 0 {
		ns = len(mc.States[0])
	}
	sb, sp := a.alloc(mc.NCells * ns)
	for c := 0; c < mc.NCells; c++ {
		copy(sb[c*ns:(c+1)*ns], mc.States[c])
	}
	ni := len(mc.Desc.Inputs)
	ib, ip := a.alloc(mc.NBlocks * ni * mc.T)
	for b := 0; b < mc.NBlocks; b++ {
		for k := 0; k < ni; k++ {
			copy(ib[(b*ni+k)*mc.T:(b*ni+k+1)*mc.T], mc.Inputs[b][k])
		}
	}
	no := len(mc.Desc.Outputs)
	ob, op := a.alloc(oc * no * ot)
	for i := range ob {
		ob[i] = 0
	}
	// slack (rows >= NCells, timesteps >= T) gets a recognisable fill; the needed part is zero
	for c := 0; c < oc; c++ {
		for k := 0; k < no; k++ {
			for t := 0; t < ot; t++ {
				if c >= mc.NCells || t >= mc.T {
					ob[(c*no+k)*ot+t] = slackFill
				}
			}
		}
	}
	pArr := a.array(pb, pp, []int{np, mc.NSets}).(data.ND2Float64)
	sArr := a.array(sb, sp, []int{mc.NCells, ns}).(data.ND2Float64)
	iArr := a.array(ib, ip, []int{mc.NBlocks, ni, mc.T}).(data.ND3Float64)
	oArr := a.array(ob, op, []int{oc, no, ot}).(data.ND3Float64)
	if m == nil {
		m = sim.Catalog[mc.Name]()
	}
	panicMsg = protect(func() {
		dims := m.FindDimensions(pArr)
		if len(dims) > 0 {
			m.InitialiseDimensions(dims)
		}
		m.ApplyParameters(pArr)
		if mc.OwnStates {
			sArr = m.InitialiseStates(mc.NCells)
		}
		m.Run(iArr, sArr, oArr)
		if mc.OwnStates {
			for c := 0; c < mc.NCells; c++ {
				for k := 0; k < ns; k++ {
					sb[c*ns+k] = sArr.Get2(c, k)
				}
			}
		}
	})
	res = &runResult{Out: append([]float64{}, ob...), OC: oc, NO: no, OT: ot, States: append([]float64{}, sb...), NS: ns,
		ParamsAfter: append([]float64{}, pb...), InputsAfter: append([]float64{}, ib...), Intact: a.intact()}
	if panicMsg != "" {
		return
	}
	// Run must not modify its arguments -- that includes the arrays' own shapes (Shape() hands out the
	// array's internal slice) -- so a second Run on the SAME array objects, with states and outputs put
	// back, must reproduce the first one bit for bit.
	shapesOK := eqInts(pArr.Shape(), []int{np, mc.NSets}) && eqInts(sArr.Shape(), []int{mc.NCells, ns}) &&
		eqInts(iArr.Shape(), []int{mc.NBlocks, ni, mc.T}) && eqInts(oArr.Shape(), []int{oc, no, ot})
	if !shapesOK {
		res.ArgsChanged = fmt.Sprintf("shapes after Run: params %v states %v inputs %v outputs %v", pArr.Shape(), sArr.Shape(), iArr.Shape(), oArr.Shape())
		return
	}
	if mc.OwnStates {
		return // the model's own state array: the re-run check is done on the caller-allocated variant of the case
	}
	for c := 0; c < mc.NCells; c++ {
		copy(sb[c*ns:(c+1)*ns], mc.States[c])
	}
	for c := 0; c < oc; c++ {
		for k := 0; k < no; k++ {
			for t := 0; t < ot; t++ {
				if c >= mc.NCells || t >= mc.T {
					ob[(c*no+k)*ot+t] = slackFill
				} else {
					ob[(c*no+k)*ot+t] = 0
				}
			}
		}
	}
	if pm2 := protect(func() { m.Run(iArr, sArr, oArr) }); pm2 != "" {
		res.ArgsChanged = "second Run on the same arrays panicked: " + pm2
		return
	}
	for i := range ob {
		if !bitsEq(ob[i], res.Out[i]) {
			res.ArgsChanged = fmt.Sprintf("a second Run on the same (restored) arrays gives outputs[%d] = %v instead of %v", i, ob[i], res.Out[i])
			return
		}
	}
	for i := range sb {
		if !bitsEq(sb[i], res.States[i]) {
			res.ArgsChanged = fmt.Sprintf("a second Run on the same (restored) arrays gives final state[%d] = %v instead of %v", i, sb[i], res.States[i])
			return
		}
	}
	return
}

// single extracts cell i as its own 1-cell case: exactly its parameter column (tables of exactly the
// cell's own declared length), its state row and its input block.
func (mc *modelCase) single(i, set, blk int) *modelCase {
	sc := &modelCase{Name: mc.Name, Desc: mc.Desc, NSets: 1, NCells: 1, NBlocks: 1, T: mc.T, Pad: mc.Pad}
	for _, pv := range mc.PVals {
		sc.PVals = append(sc.PVals, [][]float64{pv[set]})
	}
	if mc.TableLen != nil {
		sc.TableLen = []int{mc.TableLen[set]}
	}
	sc.layout()
	sc.States = [][]float64{append([]float64{}, mc.States[i]...)}
	sc.Inputs = [][][]float64{mc.Inputs[blk]}
	return sc
}

func bitsEq(a, b float64) bool { return math.Float64bits(a) == math.Float64bits(b) }

func fmtF(v float64) string { return fmt.Sprintf("%v(0x%x)", v, math.Float64bits(v)) }
