package main

import (
	"bufio"
	"encoding/json"
	"fmt"
	"math/rand"
	"os"
	"path/filepath"
	"runtime"
	"strconv"
	"strings"
	"sync"
	"time"

	owio "github.com/flowmatters/openwater-core/io"
	hdf5 "gonum.org/v1/hdf5"
)

// h5lock engine (C08, locking half; B2): goroutines hammer every H5Ref entry point concurrently on the
// fake HDF5 library; lock hooks of package io (inside the critical section) and enter/exit of every
// library call are merged, in emission order under one mutex, into an ndjson trace for
// spec/TraceH5Lock.tla.
//
//   vh h5lock <out.ndjson> <workdir> <goroutines> <ops-per-goroutine>
func init() { register("h5lock", h5lockEngine) }

func goid() uint64 {
	var buf [64]byte
	n := runtime.Stack(buf[:], false)
	f := strings.Fields(string(buf[:n]))
	if len(f) < 2 {
		return 0
	}
	id, _ := strconv.ParseUint(f[1], 10, 64)
	return id
}

func h5lockEngine(args []string) error {
	if len(args) < 4 {
		return fmt.Errorf("usage: h5lock <out> <workdir> <goroutines> <ops>")
	}
	var ng, nops int
	fmt.Sscan(args[2], &ng)
	fmt.Sscan(args[3], &nops)
	fh, err := os.Create(args[0])
	if err != nil {
		return err
	}
	w := bufio.NewWriterSize(fh, 1<<20)
	var mu sync.Mutex
	names := map[uint64]string{}
	nameOf := func(g uint64) string { // under mu
		if n, ok := names[g]; ok {
			return n
		}
		n := fmt.Sprintf("g%d", len(names)+1)
		names[g] = n
		return n
	}
	events := 0
	emit := func(m map[string]interface{}) {
		b, _ := json.Marshal(m)
		w.Write(b)
		w.WriteByte('\n')
		events++
	}
	tracing := false
	owio.VerifLockHook = func(ev string) {
		g := goid()
		mu.Lock()
		if tracing {
			emit(map[string]interface{}{"ev": ev, "g": nameOf(g)})
		}
		mu.Unlock()
	}
	hdf5.SetTracer(func(e hdf5.Event) {
		mu.Lock()
		if tracing {
			switch {
			case e.Class == "config":
				if e.Phase == "enter" {
					emit(map[string]interface{}{"ev": "config", "g": nameOf(e.Gid), "call": e.Call})
				}
			case e.Phase == "enter":
				emit(map[string]interface{}{"ev": "enter", "g": nameOf(e.Gid), "class": e.Class, "call": e.Call})
			default:
				emit(map[string]interface{}{"ev": "exit", "g": nameOf(e.Gid), "call": e.Call})
			}
		}
		mu.Unlock()
	})
	hdf5.SetDelay(20 * time.Microsecond)
	file := filepath.Join(args[1], "lock.h5")
	file2 := filepath.Join(args[1], "lock2.h5")
	os.Remove(file)
	os.Remove(file2)
	// set-up outside the trace
	setup := owio.H5RefFloat64{Filename: file, Dataset: "/a"}
	f64 := factoryByName("float64")
	init := make([]int64, 12)
	_, root := f64.New([]int{3, 4}, init, nil)
	if err := setup.Write(root.(*adFloat64).a); err != nil {
		return err
	}
	hdf5.WriteStringDataset(file, "/txt", []string{"one", "two"}, 8)
	if err := (owio.H5RefFloat64{Filename: file2, Dataset: "/a"}).Write(root.(*adFloat64).a); err != nil {
		return err
	}
	mu.Lock()
	tracing = true
	mu.Unlock()
	hdf5.DisplayErrors(false)
	var wg sync.WaitGroup
	opCount := map[string]int{}
	var ocMu sync.Mutex
	for g := 0; g < ng; g++ {
		wg.Add(1)
		go func(g int) {
			defer wg.Done()
			r := rand.New(rand.NewSource(seed()*100 + int64(g)))
			for o := 0; o < nops; o++ {
				ds := []string{"/a", "/b", "/g/c"}[r.Intn(3)]
				// two files: the HDF5 library is not thread-safe across files either
				fn := file
				if r.Intn(3) == 0 {
					fn = file2
				}
				ref := owio.H5RefFloat64{Filename: fn, Dataset: ds}
				var name string
				switch r.Intn(9) {
				case 0:
					name = "Load"
					ref.Load()
				case 1:
					name = "LoadSel"
					owio.H5RefFloat64{Filename: file, Dataset: "/a", Slice: [][]int{{0, 2, 1}, nil}}.Load()
				case 2:
					name = "Write"
					_, a := f64.New([]int{3, 4}, init, nil)
					ref.Write(a.(*adFloat64).a)
				case 3:
					name = "WriteSlice"
					_, a := f64.New([]int{1, 2}, init[:2], nil)
					owio.H5RefFloat64{Filename: file, Dataset: "/a"}.WriteSlice(a.(*adFloat64).a, []int{1, 1})
				case 4:
					name = "Create"
					ref.Create([]int{3, 4}, 0, false)
				case 5:
					name = "Exists"
					ref.Exists()
				case 6:
					name = "Shape"
					ref.Shape()
				case 7:
					name = "GetDatasets/GetGroups"
					owio.H5RefFloat64{Filename: file, Dataset: "/"}.GetDatasets()
					owio.H5RefFloat64{Filename: file, Dataset: "/"}.GetGroups()
				case 8:
					name = "LoadText"
					owio.H5RefFloat64{Filename: file, Dataset: "/txt"}.LoadText()
				}
				ocMu.Lock()
				opCount[name]++
				ocMu.Unlock()
			}
		}(g)
	}
	wg.Wait()
	mu.Lock()
	tracing = false
	w.Flush()
	fh.Close()
	mu.Unlock()
	hdf5.SetTracer(nil)
	hdf5.SetDelay(0)
	s := &summary{Engine: "h5lock", Evaluations: events, Distinct: ng * nops}
	s.Extra = map[string]interface{}{"goroutines": ng, "ops": opCount, "events": events}
	s.emit()
	return nil
}
