package main

import (
	"github.com/flowmatters/openwater-core/data"
	"bufio"
	"encoding/json"
	"fmt"
	"math/rand"
	"os"
	"path/filepath"
	"runtime"
	"strconv"
	"strings"
	"sync"
	"time"

	owio "github.com/flowmatters/openwater-core/io"
	hdf5 "gonum.org/v1/hdf5"
)

// h5lock engine (C08, locking half; B2): goroutines hammer every H5Ref entry point concurrently on the
// fake HDF5 library; lock hooks of package io (inside the critical section) and enter/exit of every
// library call are merged, in emission order under one mutex, into an ndjson trace for
// spec/TraceH5Lock.tla.
//
//   vh h5lock <out.ndjson> <workdir> <goroutines> <ops-per-goroutine>
func init() { register("h5lock", h5lockEngine) }

func goid() uint64 {
	var buf [64]byte
	n := runtime.Stack(buf[:], false)
	f := strings.Fields(string(buf[:n]))
	if len(f) < 2 {
		return 0
	}
	id, _ := strconv.ParseUint(f[1], 10, 64)
	return id
}

func h5lockEngine(args []string) error {
	if len(args) < 4 {
		return fmt.Errorf("usage: h5lock <out> <workdir> <goroutines> <ops>")
	}
	var ng, nops int
	fmt.Sscan(args[2], &ng)
	fmt.Sscan(args[3], &nops)
	fh, err := os.Create(args[0])
	if err != nil {
		return err
	}
	w := bufio.NewWriterSize(fh, 1<<20)
	var mu sync.Mutex
	names := map[uint64]string{}
	nameOf := func(g uint64) string { // under mu
		if n, ok := names[g]; ok {
			return n
		}
		n := fmt.Sprintf("g%d", len(names)+1)
		names[g] = n
		return n
	}
	events := 0
	emit := func(m map[string]interface{}) {
		b, _ := json.Marshal(m)
		w.Write(b)
		w.WriteByte('\n')
		events++
	}
	tracing := false
	owio.VerifLockHook = func(ev string) {
		g := goid()
		mu.Lock()
		if tracing {
			emit(map[string]interface{}{"ev": ev, "g": nameOf(g)})
		}
		mu.Unlock()
	}
	hdf5.SetTracer(func(e hdf5.Event) {
		mu.Lock()
		if tracing {
			switch {
			case e.Class == "config":
				if e.Phase == "enter" {
					emit(map[string]interface{}{"ev": "config", "g": nameOf(e.Gid), "call": e.Call})
				}
			case e.Phase == "enter":
				emit(map[string]interface{}{"ev": "enter", "g": nameOf(e.Gid), "class": e.Class, "call": e.Call})
			default:
				emit(map[string]interface{}{"ev": "exit", "g": nameOf(e.Gid), "call": e.Call})
			}
		}
		mu.Unlock()
	})
	hdf5.SetDelay(20 * time.Microsecond)
	file := filepath.Join(args[1], "lock.h5")
	file2 := filepath.Join(args[1], "lock2.h5")
	os.Remove(file)
	os.Remove(file2)
	// set-up outside the trace
	setup := owio.H5RefFloat64{Filename: file, Dataset: "/a"}
	f64 := factoryByName("float64")
	init := make([]int64, 12)
	_, root := f64.New([]int{3, 4}, init, nil)
	if err := setup.Write(root.(*adFloat64).a); err != nil {
		return err
	}
	hdf5.WriteStringDataset(file, "/txt", []string{"one", "two"}, 8)
	if err := (owio.H5RefFloat64{Filename: file2, Dataset: "/a"}).Write(root.(*adFloat64).a); err != nil {
		return err
	}
	// a dataset nobody writes during the run: concurrent selective loads must each get exactly their own selection
	const roR, roC = 4, 6
	roInit := make([]int64, roR*roC)
	for k := range roInit {
		roInit[k] = int64(100*(k/roC) + k%roC)
	}
	_, roRoot := f64.New([]int{roR, roC}, roInit, nil)
	for _, fn := range []string{file, file2} {
		if err := (owio.H5RefFloat64{Filename: fn, Dataset: "/ro"}).Write(roRoot.(*adFloat64).a); err != nil {
			return err
		}
	}
	// a LARGE array (600 x 500) of which every second row forms a non-contiguous 300 x 500 view: whatever the package
	// does differently above some size (block-wise transfers, helper goroutines) must still round-trip exactly and
	// still make every library call under the lock
	const bigR, bigC = 600, 500
	bigRoot := data.NewArray2DFloat64(bigR, bigC)
	for i := 0; i < bigR; i++ {
		for j := 0; j < bigC; j++ {
			bigRoot.Set2(i, j, float64(i*1000+j))
		}
	}
	bigView := bigRoot.Slice([]int{0, 0}, []int{bigR / 2, bigC}, []int{2, 1})
	if err := (owio.H5RefFloat64{Filename: file2, Dataset: "/big"}).Write(bigView); err != nil {
		return err
	}
	var loadFails []map[string]interface{}
	var lfMu sync.Mutex
	mu.Lock()
	tracing = true
	mu.Unlock()
	hdf5.DisplayErrors(false)
	var wg sync.WaitGroup
	opCount := map[string]int{}
	var ocMu sync.Mutex
	for g := 0; g < ng; g++ {
		wg.Add(1)
		go func(g int) {
			defer wg.Done()
			r := rand.New(rand.NewSource(seed()*100 + int64(g)))
			for o := 0; o < nops; o++ {
				ds := []string{"/a", "/b", "/g/c"}[r.Intn(3)]
				// two files: the HDF5 library is not thread-safe across files either
				fn := file
				if r.Intn(3) == 0 {
					fn = file2
				}
				ref := owio.H5RefFloat64{Filename: fn, Dataset: ds}
				var name string
				switch r.Intn(11) {
				case 9:
					name = "WriteBig"
					(owio.H5RefFloat64{Filename: file2, Dataset: "/big"}).Write(bigView)
				case 10:
					name = "LoadBig"
					got, err := owio.H5RefFloat64{Filename: file2, Dataset: "/big"}.Load()
					bad := ""
					if err != nil {
						bad = "error: " + err.Error()
					} else if sh := got.Shape(); len(sh) != 2 || sh[0] != bigR/2 || sh[1] != bigC {
						bad = fmt.Sprintf("shape %v, written %v", sh, []int{bigR / 2, bigC})
					} else {
						for i := 0; i < bigR/2 && bad == ""; i++ {
							for j := 0; j < bigC; j++ {
								if v := got.Get([]int{i, j}); v != float64(2*i*1000+j) {
									bad = fmt.Sprintf("element [%d,%d] = %v, written %d", i, j, v, 2*i*1000+j)
									break
								}
							}
						}
					}
					if bad != "" {
						lfMu.Lock()
						loadFails = append(loadFails, map[string]interface{}{"kind": "big-roundtrip", "detail": "a 300 x 500 dataset written from a strided view and loaded whole: " + bad})
						lfMu.Unlock()
					}
				case 0:
					name = "Load"
					ref.Load()
				case 1:
					name = "LoadSel"
					if r.Intn(3) == 0 {
						owio.H5RefFloat64{Filename: file, Dataset: "/a", Slice: [][]int{{0, 2, 1}, nil}}.Load()
						break
					}
					// a seeded selection of the read-only dataset, checked against its definition
					sel := make([][]int, 2)
					var idx [2][]int
					for d, ext := range []int{roR, roC} {
						if r.Intn(4) == 0 {
							for k := 0; k < ext; k++ {
								idx[d] = append(idx[d], k)
							}
							continue
						}
						a := r.Intn(ext)
						b := a + 1 + r.Intn(ext-a+1)
						st := 1 + r.Intn(3)
						sel[d] = []int{a, b, st}
						for k := a; k < b && k < ext; k += st {
							idx[d] = append(idx[d], k)
						}
					}
					got, err := owio.H5RefFloat64{Filename: fn, Dataset: "/ro", Slice: sel}.Load()
					bad := ""
					if err != nil {
						bad = "error: " + err.Error()
					} else if sh := got.Shape(); len(sh) != 2 || sh[0] != len(idx[0]) || sh[1] != len(idx[1]) {
						bad = fmt.Sprintf("shape %v, the selection has %d x %d elements", sh, len(idx[0]), len(idx[1]))
					} else {
						for i, ri := range idx[0] {
							for j, cj := range idx[1] {
								if v := got.Get([]int{i, j}); v != float64(100*ri+cj) {
									bad = fmt.Sprintf("element [%d,%d] = %v, the selection addresses dataset element [%d,%d] = %d", i, j, v, ri, cj, 100*ri+cj)
								}
							}
						}
					}
					if bad != "" {
						lfMu.Lock()
						loadFails = append(loadFails, map[string]interface{}{"kind": "concurrent-load", "detail": fmt.Sprintf("Load(/ro, %v) while other goroutines call the package: %s", sel, bad)})
						lfMu.Unlock()
					}
				case 2:
					name = "Write"
					_, a := f64.New([]int{3, 4}, init, nil)
					ref.Write(a.(*adFloat64).a)
				case 3:
					name = "WriteSlice"
					_, a := f64.New([]int{1, 2}, init[:2], nil)
					owio.H5RefFloat64{Filename: file, Dataset: "/a"}.WriteSlice(a.(*adFloat64).a, []int{1, 1})
				case 4:
					name = "Create"
					ref.Create([]int{3, 4}, 0, false)
				case 5:
					name = "Exists"
					ref.Exists()
				case 6:
					name = "Shape"
					ref.Shape()
				case 7:
					name = "GetDatasets/GetGroups"
					owio.H5RefFloat64{Filename: file, Dataset: "/"}.GetDatasets()
					owio.H5RefFloat64{Filename: file, Dataset: "/"}.GetGroups()
				case 8:
					name = "LoadText"
					owio.H5RefFloat64{Filename: file, Dataset: "/txt"}.LoadText()
				}
				ocMu.Lock()
				opCount[name]++
				ocMu.Unlock()
			}
		}(g)
	}
	wg.Wait()
	mu.Lock()
	tracing = false
	w.Flush()
	fh.Close()
	mu.Unlock()
	hdf5.SetTracer(nil)
	hdf5.SetDelay(0)
	s := &summary{Engine: "h5lock", Evaluations: events, Distinct: ng * nops}
	for _, lf := range loadFails {
		s.mismatch(lf)
	}
	s.Extra = map[string]interface{}{"goroutines": ng, "ops": opCount, "events": events}
	s.emit()
	return nil
}
