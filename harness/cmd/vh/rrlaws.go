package main

import (
	"bufio"
	"encoding/json"
	"fmt"
	"math"
	"math/rand"
	"os"
	"sort"

	"github.com/flowmatters/openwater-core/data"
	"github.com/flowmatters/openwater-core/sim"
)

// rrlaws engine (C10): the five rainfall-runoff models are run on seeded cases -- parameters from the
// physically meaningful ranges, non-negative rainfall / PET series with long dry spells and extreme storms,
// initial states as the model itself produces them -- and one observation per timestep is logged for
// spec/TraceRunoff.tla, RANK-encoded among the floats of the case (order-isomorphic; TLC does no arithmetic).
// Stores at timestep t are the final states of a run over the first t+1 timesteps (prefix runs; no hooks).
// The sums the statement talks about (components, cumulative budgets, their round-off allowances) are
// evaluated here in float64 and logged as values to be COMPARED by the specification.
//
//   vh rrlaws <trace.ndjson> <cases per model> <timesteps>
func init() { register("rrlaws", rrlawsEngine) }

type rrStore struct {
	idx int
	cap string // parameter name of the capacity ("" = unbounded above; "a+b" = sum of two)
}

var rrStores = map[string][]rrStore{
	"GR4J":       {{0, "X1"}, {1, "X3"}},
	"Simhyd":     {{0, "soilMoistureStoreCapacity"}, {1, ""}},
	"Surm":       {{0, "smax"}, {1, ""}},
	"Sacramento": {{0, "uztwm"}, {1, "uzfwm"}, {2, "lztwm"}, {3, "lzfpm"}, {4, "lzfsm"}, {5, "uztwm+lztwm"}},
}

// outputs that add up: total = a + b
var rrComponents = map[string][3]string{
	"Simhyd":     {"runoff", "quickflow", "baseflow"},
	"Surm":       {"runoff", "quickflow", "baseflow"},
	"Sacramento": {"runoff", "surfaceRunoff", "baseflow"},
}

func len5(T int) int { return 5 * T }

var forceDrought = false

func rrSeries(r *rand.Rand, T int) (rain, pet []float64, style string) {
	rain, pet = make([]float64, T), make([]float64, T)
	style = []string{"mixed", "dry-spells", "storms", "drizzle", "no-pet", "wet", "wet-then-drought", "storm-pairs"}[r.Intn(8)]
	if forceDrought {
		style = "wet-then-drought"
	}
	if style == "wet-then-drought" {
		// a long period: a wet season that fills every store, then a drought several times as long (hardly any rain,
		// steady evaporative demand) during which the stores feed each other and the evapotranspiration
		T = len5(T)
		rain, pet = make([]float64, T), make([]float64, T)
	}
	dry := 0
	for t := 0; t < T; t++ {
		switch style {
		case "dry-spells":
			if dry > 0 {
				dry--
			} else if r.Intn(6) == 0 {
				dry = 10 + r.Intn(40)
			} else {
				rain[t] = r.ExpFloat64() * 12
			}
		case "storms":
			if r.Intn(8) == 0 {
				rain[t] = 100 + r.Float64()*400
			} else if r.Intn(2) == 0 {
				rain[t] = r.ExpFloat64() * 5
			}
		case "storm-pairs": // two extreme days in a row (the second falls on saturated ground), then a dry spell
			if dry > 0 {
				dry--
				if dry == 12 {
					rain[t] = 90 + r.Float64()*150
				}
			} else if r.Intn(4) == 0 {
				rain[t] = 90 + r.Float64()*150
				dry = 13
			} else if r.Intn(3) == 0 {
				rain[t] = r.ExpFloat64() * 4
			}
		case "drizzle":
			rain[t] = r.Float64() * 2
		case "wet-then-drought":
			if t < T/4 {
				rain[t] = 4 + r.Float64()*30
			} else if r.Intn(25) == 0 {
				rain[t] = r.Float64() * 3
			}
		case "wet": // sustained rain with next to no evaporation: nearly everything must come out again, and no more
			rain[t] = 6 + r.Float64()*34
		default:
			if r.Intn(2) == 0 {
				rain[t] = r.ExpFloat64() * 10
			}
		}
		if style == "wet" {
			pet[t] = r.Float64() * 0.3
		} else if style != "no-pet" {
			pet[t] = r.Float64() * 12
		}
	}
	return
}

func rrlawsEngine(args []string) error {
	if len(args) < 3 {
		return fmt.Errorf("usage: rrlaws <trace> <cases per model> <timesteps>")
	}
	var nCases, T int
	fmt.Sscan(args[1], &nCases)
	fmt.Sscan(args[2], &T)
	fh, err := os.Create(args[0])
	if err != nil {
		return err
	}
	w := bufio.NewWriterSize(fh, 1<<20)
	enc := json.NewEncoder(w)
	s := &summary{Engine: "rrlaws"}
	r := rand.New(rand.NewSource(seed()))
	physicalOnly = true
	models := []string{"GR4J", "Sacramento", "Simhyd", "Surm", "RunoffCoefficient"}
	for _, name := range models {
		for c := 0; c < nCases; c++ {
			mc := genCase(r, name, 1, 1, 1, T)
			desc := mc.Desc
			pidx := map[string]int{}
			for i, p := range desc.Parameters {
				pidx[p.Name] = i
			}
			par := func(n string) float64 { return mc.PVals[pidx[n]][0][0] }
			setPar := func(n string, v float64) { mc.PVals[pidx[n]][0][0] = v }
			forceDrought = name == "Sacramento" && c%3 == 0
			rain, pet, style := rrSeries(r, T)
			forceDrought = false
			T := len(rain)
			variant := "drawn"
			// corners of the parameter box: every scalar parameter sits in the lowest or the highest tenth of its range
			// with probability 1/3 each (regimes such as "fast supplementary recession, huge slow primary store, hardly
			// any reserved water" are practically never met by independent uniform draws)
			for pi, p := range desc.Parameters {
				if len(p.Dimensions) > 0 || (name == "GR4J" && p.Name == "X4") {
					continue
				}
				rg := paramRange(name, p)
				switch r.Intn(3) {
				case 0:
					mc.PVals[pi][0][0] = rg.lo + (rg.hi-rg.lo)*0.1*r.Float64()
				case 1:
					mc.PVals[pi][0][0] = rg.hi - (rg.hi-rg.lo)*0.1*r.Float64()
				}
			}
			// the far corners: every capacity-like parameter in the lowest tenth of its range and every fraction in the highest
			// tenth (even cases) or at either end (odd cases) -- "nearly everything moves on, hardly any room", the regime in
			// which a share computed from the wrong base takes more water than there is
			if c%5 == 3 && name != "GR4J" {
				variant = "far-corner"
				for pi, p := range desc.Parameters {
					if len(p.Dimensions) > 0 {
						continue
					}
					rg := paramRange(name, p)
					hi := rg.hi - (rg.hi-rg.lo)*0.1*r.Float64()
					lo := rg.lo + (rg.hi-rg.lo)*0.1*r.Float64()
					if rg.lo >= 0 && rg.hi <= 1 {
						if (c/5)%2 == 0 || r.Intn(2) == 0 {
							mc.PVals[pi][0][0] = hi
						} else {
							mc.PVals[pi][0][0] = lo
						}
					} else {
						mc.PVals[pi][0][0] = lo
					}
				}
			}
			// rate constants and fractions whose default is small (recession ratios, percolation shares): log-uniform over
			// [default/20, 1] in half of the cases -- a uniform draw over [0,1] hardly ever gives a slow store
			if c%2 == 0 && variant != "far-corner" {
				for pi, p := range desc.Parameters {
					if len(p.Dimensions) == 0 && p.Range[0] == 0 && p.Range[1] == 1 && p.Default > 0 && p.Default <= 0.1 {
						if _, cur := curated[name][p.Name]; !cur {
							mc.PVals[pi][0][0] = math.Exp(uni(r, math.Log(p.Default/20), 0))
						}
					}
				}
			}
			if name == "GR4J" && c%2 == 1 {
				// the documented ranges, capacities log-uniform (production stores of a few mm under extreme storms)
				setPar("X1", math.Exp(uni(r, 0, math.Log(1500))))
				setPar("X3", math.Exp(uni(r, 0, math.Log(500))))
			}
			if name == "GR4J" {
				switch c % 3 {
				case 0: // the exact-closure clause: no exchange, no evaporation
					setPar("X2", 0)
					for t := range pet {
						pet[t] = 0
					}
					variant = "closure"
				case 1:
					setPar("X2", -math.Abs(par("X2")))
					variant = "losing"
				default:
					variant = "any-exchange"
				}
			}
			if name == "RunoffCoefficient" {
				setPar("coeff", r.Float64())
			}
			if name == "Sacramento" {
				// the area fractions are fractions of ONE catchment and the unit hydrograph distributes ALL the runoff
				setPar("pctim", r.Float64()*0.2)
				setPar("adimp", r.Float64()*0.3)
				setPar("sarva", r.Float64()*par("pctim"))
				u := []float64{0.4 + r.Float64()*0.6, r.Float64() * 0.4, r.Float64() * 0.2, r.Float64() * 0.1, r.Float64() * 0.05}
				if c%4 == 0 {
					u = []float64{1, 0, 0, 0, 0}
				}
				tot := u[0] + u[1] + u[2] + u[3] + u[4]
				rest := 1.0
				for k, n := range []string{"uh1", "uh2", "uh3", "uh4"} {
					setPar(n, u[k]/tot)
					rest -= u[k] / tot
				}
				setPar("uh5", math.Max(rest, 0))
				setPar("side", r.Float64()*0.3)
				setPar("ssout", 0)
			}
			mc.layout()
			if os.Getenv("RR_DUMP") == fmt.Sprintf("%s:%d", name, c) {
				dj, _ := json.Marshal(map[string]interface{}{"model": name, "case": c, "params": mc.Params, "rain": rain, "pet": pet})
				os.WriteFile(os.Getenv("RR_DUMP_TO"), dj, 0644)
			}
			run := func(n int) (out [][]float64, st []float64, pm string) {
				m := sim.Catalog[name]()
				pm = protect(func() {
					pArr := mc.paramsArray()
					m.ApplyParameters(pArr)
					states := m.InitialiseStates(1)
					in := data.NewArray3DFloat64(1, len(desc.Inputs), n)
					for t := 0; t < n; t++ {
						in.Set3(0, 0, t, rain[t])
						if len(desc.Inputs) > 1 {
							in.Set3(0, 1, t, pet[t])
						}
					}
					o := data.NewArray3DFloat64(1, len(desc.Outputs), n)
					m.Run(in, states, o)
					out = make([][]float64, len(desc.Outputs))
					for k := range out {
						out[k] = make([]float64, n)
						for t := 0; t < n; t++ {
							out[k][t] = o.Get3(0, k, t)
						}
					}
					st = make([]float64, states.Len(1))
					for k := range st {
						st[k] = states.Get2(0, k)
					}
				})
				return
			}
			full, _, pm := run(T)
			if pm != "" {
				s.NMismatch++
				s.Mismatches = append(s.Mismatches, map[string]interface{}{"kind": "panic", "model": name, "detail": pm})
				continue
			}
			oidx := map[string]int{}
			for i, o := range desc.Outputs {
				oidx[o] = i
			}
			stores := rrStores[name]
			type stepObs struct {
				finite                           bool
				minout                           float64
				st, cap                          []float64
				compTotal, compSum, compTol      float64
				cumOut, cumIn                    float64
				closeChecked                     bool
				closeResid, closeTol             float64
				budgetChecked                    bool
			}
			obs := make([]stepObs, T)
			cumRain, cumRun, cumET := 0.0, 0.0, 0.0
			for t := 0; t < T; t++ {
				_, st, pm2 := run(t + 1)
				if pm2 != "" {
					s.NMismatch++
					s.Mismatches = append(s.Mismatches, map[string]interface{}{"kind": "panic", "model": name, "detail": pm2})
					break
				}
				o := &obs[t]
				o.finite, o.minout = true, math.Inf(1)
				for k := range full {
					v := full[k][t]
					if math.IsNaN(v) || math.IsInf(v, 0) {
						o.finite = false
					}
					if v < o.minout {
						o.minout = v
					}
				}
				for _, x := range st {
					if math.IsNaN(x) || math.IsInf(x, 0) {
						o.finite = false
					}
				}
				for _, sd := range stores {
					o.st = append(o.st, st[sd.idx])
					switch sd.cap {
					case "":
						o.cap = append(o.cap, math.MaxFloat64)
					// capacities carry one part in 1e12: stores are rescaled on entry and exit ((1+side) in Sacramento)
					// and sums are formed in the model's own order
					case "uztwm+lztwm":
						o.cap = append(o.cap, (par("uztwm")+par("lztwm"))*(1+1e-12))
					default:
						o.cap = append(o.cap, par(sd.cap)*(1+1e-12))
					}
				}
				if cn, ok := rrComponents[name]; ok {
					a, b := full[oidx[cn[1]]][t], full[oidx[cn[2]]][t]
					o.compTotal, o.compSum = full[oidx[cn[0]]][t], a+b
					o.compTol = 1e-12 * (math.Abs(a) + math.Abs(b))
				}
				cumRain += rain[t]
				cumRun += full[oidx["runoff"]][t]
				if i, ok := oidx["actualET"]; ok {
					cumET += full[i][t]
				}
				// budget: what left the catchment so far against what entered it (initial storage is what
				// InitialiseStates produced: all stores empty); allowance: round-off of the running sums
				o.budgetChecked = !(name == "GR4J" && variant == "any-exchange")
				o.cumOut = cumRun + cumET
				o.cumIn = cumRain + 1e-9*(cumRain+1)
				if name == "GR4J" && variant == "closure" {
					stored := st[0] + st[1]
					for k := 4; k < len(st); k++ {
						stored += st[k]
					}
					o.closeChecked = true
					o.closeResid = math.Abs(cumRain - cumRun - stored)
					o.closeTol = 1e-9 * (cumRain + 1)
				}
			}
			// rank-encode the case
			vals := map[float64]bool{0: true}
			add := func(x float64) {
				if !math.IsNaN(x) && !math.IsInf(x, 0) {
					vals[x] = true
				}
			}
			for t := range obs {
				o := &obs[t]
				add(o.minout)
				for k := range o.st {
					add(o.st[k])
					add(o.cap[k])
				}
				add(o.compTotal)
				add(o.compSum)
				add(o.compTol)
				add(math.Abs(o.compTotal - o.compSum))
				add(o.cumOut)
				add(o.cumIn)
				add(o.closeResid)
				add(o.closeTol)
			}
			var sorted []float64
			for v := range vals {
				sorted = append(sorted, v)
			}
			sort.Float64s(sorted)
			rank := func(x float64) int {
				if math.IsNaN(x) || math.IsInf(x, 0) {
					return -1
				}
				return sort.SearchFloat64s(sorted, x)
			}
			var rawP []float64
			for i := range desc.Parameters {
				rawP = append(rawP, mc.PVals[i][0][0])
			}
			enc.Encode(map[string]interface{}{"ev": "case", "model": name, "variant": variant, "style": style, "zero": rank(0), "params": rawP, "case": c})
			for t := range obs {
				o := &obs[t]
				var sr, cr []int
				for k := range o.st {
					sr = append(sr, rank(o.st[k]))
					cr = append(cr, rank(o.cap[k]))
				}
				if sr == nil {
					sr, cr = []int{}, []int{}
				}
				_, hasComp := rrComponents[name]
				enc.Encode(map[string]interface{}{"ev": "step", "t": t, "finite": o.finite, "minout": rank(o.minout),
					"stores": sr, "caps": cr,
					"compchecked": hasComp, "compresid": rank(math.Abs(o.compTotal - o.compSum)), "comptol": rank(o.compTol),
					"budgetchecked": o.budgetChecked, "cumout": rank(o.cumOut), "cumin": rank(o.cumIn),
					"closechecked": o.closeChecked, "closeresid": rank(o.closeResid), "closetol": rank(o.closeTol),
					"raw": map[string]interface{}{"rain": rain[t], "pet": pet[t], "minout": jsonable(o.minout), "stores": jsonableS(o.st), "caps": jsonableS(o.cap),
						"cumout": jsonable(o.cumOut), "cumin": jsonable(o.cumIn), "closeresid": jsonable(o.closeResid), "comp": []float64{jsonable(o.compTotal), jsonable(o.compSum)}}})
				s.Evaluations++
			}
			s.Distinct++
		}
	}
	w.Flush()
	fh.Close()
	s.Extra = map[string]interface{}{"models": models, "cases_per_model": nCases, "timesteps": T}
	s.sample(map[string]interface{}{"models": models, "timesteps": T})
	s.emit()
	return nil
}

func jsonableS(xs []float64) []float64 {
	r := make([]float64, len(xs))
	for i, x := range xs {
		r[i] = jsonable(x)
		if x == math.MaxFloat64 {
			r[i] = -1
		}
	}
	return r
}
