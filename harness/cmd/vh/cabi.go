package main

import (
	"bufio"
	"encoding/json"
	"fmt"
	"math"
	"math/rand"
	"os"
	"strings"

	"github.com/flowmatters/openwater-core/data"
	"github.com/flowmatters/openwater-core/sim"
)

// cabi engine (C-ABI half of C03).
//
//	vh cabi gen   <configs> <casefile> [-draws n] [-models ..]   write cases for cabi/driver.c
//	vh cabi check <casefile> <resultfile>                        compare the C run with the Go API
//
// Every RunWrapper.tla configuration x model x draw x {states given, initStates with buffer,
// initStates with NULL states}. The Go-side expectation runs the public Go API on Go-backed arrays.
func init() { register("cabi", cabiEngine) }

func hexf(v float64) string { return fmt.Sprintf("%x", math.Float64bits(v)) }

func cabiEngine(args []string) error {
	if len(args) < 3 {
		return fmt.Errorf("usage: cabi gen|check ...")
	}
	switch args[0] {
	case "gen":
		return cabiGen(args[1:])
	case "check":
		return cabiCheck(args[1:])
	}
	return fmt.Errorf("cabi: unknown mode")
}

func cabiGen(args []string) error {
	cfgs, err := readRWConfigs(args[0])
	if err != nil {
		return err
	}
	draws := 1
	models := modelNames()
	for i := 2; i < len(args); i++ {
		switch args[i] {
		case "-draws":
			i++
			fmt.Sscan(args[i], &draws)
		case "-models":
			i++
			models = strings.Split(args[i], ",")
		}
	}
	fh, err := os.Create(args[1])
	if err != nil {
		return err
	}
	w := bufio.NewWriterSize(fh, 1<<20)
	id := 0
	for _, name := range models {
		for ci, cfg := range cfgs {
			for d := 0; d < draws; d++ {
				caseSeed := seed()*1000003 + int64(ci)*131 + int64(d)*7 + int64(len(name))
				r := rand.New(rand.NewSource(caseSeed))
				for zeroT := 0; zeroT < 2; zeroT++ {
					T := cfg.T
					if zeroT == 1 {
						// a run over NO timesteps (a caller that only wants the library's initial states): outputs untouched,
						// states as the Go API leaves them.  Only for kernels whose direct Run accepts an empty series.
						if !(name == "GR4J" || name == "Lag" || name == "Muskingum") || (ci+d)%4 != 0 {
							continue
						}
						T = 0
					}
					mc := genCase(r, name, cfg.NP, cfg.NC, cfg.NB, T)
					ns := len(mc.States[0])
					for variant := 0; variant < 3; variant++ { // 0: states given; 1: initStates + buffer; 2: initStates + NULL
						if variant > 0 && (ci+d+variant)%3 != 0 && zeroT == 0 {
							continue // a third of the cases also exercise the initStates variants
						}
						init, snull := 0, 0
						if variant >= 1 {
							init = 1
						}
						if variant == 2 {
							snull = 1
						}
						id++
						fmt.Fprintf(w, "CASE %d %s %d %d %d %d %d %d %d %d %d %d %d %d\n", id, name, mc.NBlocks, len(mc.Desc.Inputs), mc.T,
							len(mc.Params), mc.NSets, mc.NCells, ns, cfg.OC, len(mc.Desc.Outputs), cfg.OT, init, snull)
						for b := range mc.Inputs {
							for k := range mc.Inputs[b] {
								for _, v := range mc.Inputs[b][k] {
									w.WriteString(hexf(v) + " ")
								}
							}
						}
						w.WriteString("\n")
						for _, row := range mc.Params {
							for _, v := range row {
								w.WriteString(hexf(v) + " ")
							}
						}
						w.WriteString("\n")
						if snull == 0 {
							for _, row := range mc.States {
								for _, v := range row {
									w.WriteString(hexf(v) + " ")
								}
							}
							w.WriteString("\n")
						}
						no := len(mc.Desc.Outputs)
						for c := 0; c < cfg.OC; c++ {
							for k := 0; k < no; k++ {
								for t := 0; t < cfg.OT; t++ {
									if c >= mc.NCells || t >= mc.T {
										w.WriteString(hexf(slackFill) + " ")
									} else {
										w.WriteString("0 ")
									}
								}
							}
						}
						w.WriteString("\n")
					}
				}
			}
		}
	}
	w.Flush()
	fh.Close()
	s := &summary{Engine: "cabi-gen", Evaluations: id, Distinct: id}
	s.emit()
	return nil
}

type tokReader struct {
	sc *bufio.Scanner
}

func newTok(path string) (*tokReader, *os.File, error) {
	fh, err := os.Open(path)
	if err != nil {
		return nil, nil, err
	}
	sc := bufio.NewScanner(bufio.NewReaderSize(fh, 1<<20))
	sc.Buffer(make([]byte, 1<<20), 1<<20)
	sc.Split(bufio.ScanWords)
	return &tokReader{sc}, fh, nil
}
func (t *tokReader) next() (string, bool) {
	if t.sc.Scan() {
		return t.sc.Text(), true
	}
	return "", false
}
func (t *tokReader) ints(n int) []int {
	r := make([]int, n)
	for i := range r {
		s, _ := t.next()
		fmt.Sscan(s, &r[i])
	}
	return r
}
func (t *tokReader) floats(n int) []float64 {
	r := make([]float64, n)
	for i := range r {
		s, _ := t.next()
		var u uint64
		fmt.Sscanf(s, "%x", &u)
		r[i] = math.Float64frombits(u)
	}
	return r
}

func cabiCheck(args []string) error {
	ct, cf, err := newTok(args[0])
	if err != nil {
		return err
	}
	defer cf.Close()
	rt, rf, err := newTok(args[1])
	if err != nil {
		return err
	}
	defer rf.Close()
	s := &summary{Engine: "cabi-check"}
	perKey := map[string]int{}
	kinds := map[string]int{}
	for {
		tag, ok := ct.next()
		if !ok {
			break
		}
		if tag != "CASE" {
			return fmt.Errorf("case file out of sync at %q", tag)
		}
		idv := ct.ints(1)[0]
		name, _ := ct.next()
		h := ct.ints(12)
		nis, ni, T, npar, nsets, nc, ns, oc, no, ot, init, snull := h[0], h[1], h[2], h[3], h[4], h[5], h[6], h[7], h[8], h[9], h[10], h[11]
		I := ct.floats(nis * ni * T)
		P := ct.floats(npar * nsets)
		var S []float64
		if snull == 0 {
			S = ct.floats(nc * ns)
		}
		O := ct.floats(oc * no * ot)
		// result of the C run
		rtag, ok := rt.next()
		fail := func(kind, detail string) {
			key := kind + "/" + name
			kinds[key]++
			perKey[key]++
			s.NMismatch++
			if perKey[key] <= 2 && len(s.Mismatches) < 60 {
				s.Mismatches = append(s.Mismatches, map[string]interface{}{"kind": kind, "model": name, "case_id": idv,
					"dims":   map[string]int{"inputSets": nis, "T": T, "paramSets": nsets, "cells": nc, "states": ns, "outCells": oc, "outT": ot, "initStates": init, "statesNull": snull},
					"detail": detail})
			}
		}
		if !ok || rtag != "RESULT" {
			fail("missing-result", "the C driver produced no result for this case (crash?)")
			break
		}
		rh := rt.ints(2)
		if rh[0] != idv {
			return fmt.Errorf("result file out of sync: %d vs %d", rh[0], idv)
		}
		cO := rt.floats(oc * no * ot)
		var cS []float64
		if snull == 0 {
			cS = rt.floats(nc * ns)
		}
		cI := rt.floats(nis * ni * T)
		cP := rt.floats(npar * nsets)
		s.Evaluations++
		if rh[1] != 1 {
			fail("canary", "memory outside a caller buffer was modified by RunSingleModel")
		}
		// expectation. States given: the Go API on Go-backed arrays (one vectorised Run). initStates: each cell ALONE
		// (its own parameter column i % sets, its own InitialiseStates(1), its own input block i % blocks) -- the
		// specification's term for a cell whose states the library initialises itself -- so that a defect of the
		// vectorised InitialiseStates cannot hide behind both sides using it.
		m := sim.Catalog[name]()
		pArr := data.ArrayFromSliceFloat64(append([]float64{}, P...), []int{npar, nsets}).(data.ND2Float64)
		iArr := data.ArrayFromSliceFloat64(append([]float64{}, I...), []int{nis, ni, T}).(data.ND3Float64)
		eO := append([]float64{}, O...)
		oArr := data.ArrayFromSliceFloat64(eO, []int{oc, no, ot}).(data.ND3Float64)
		var sArr data.ND2Float64
		var eS []float64
		pm := protect(func() {
			if init == 1 {
				full := sim.Catalog[name]()
				fd := full.FindDimensions(pArr)
				sArr = data.NewArray2DFloat64(nc, ns)
				for c := 0; c < nc; c++ {
					col, blk := c%nsets, c%nis
					pc := data.NewArray2DFloat64(npar, 1)
					for r := 0; r < npar; r++ {
						pc.Set2(r, 0, P[r*nsets+col])
					}
					ic := data.NewArray3DFloat64(1, ni, T)
					for k := 0; k < ni; k++ {
						for t := 0; t < T; t++ {
							ic.Set3(0, k, t, I[(blk*ni+k)*T+t])
						}
					}
					mc := sim.Catalog[name]()
					if len(fd) > 0 {
						// table parameters are laid out for the longest table of ALL sets
						mc.InitialiseDimensions(fd)
					}
					mc.ApplyParameters(pc)
					st := mc.InitialiseStates(1)
					oc1 := data.NewArray3DFloat64(1, no, T)
					mc.Run(ic, st, oc1)
					for k := 0; k < no; k++ {
						for t := 0; t < T; t++ {
							oArr.Set3(c, k, t, oc1.Get3(0, k, t))
						}
					}
					for k := 0; k < ns && k < st.Len(1); k++ {
						sArr.Set2(c, k, st.Get2(0, k))
					}
				}
				return
			}
			dims := m.FindDimensions(pArr)
			if len(dims) > 0 {
				m.InitialiseDimensions(dims)
			}
			m.ApplyParameters(pArr)
			eS = append([]float64{}, S...)
			sArr = data.ArrayFromSliceFloat64(eS, []int{nc, ns}).(data.ND2Float64)
			m.Run(iArr, sArr, oArr)
		})
		if pm != "" {
			fail("go-api-panic", pm)
			continue
		}
		for i := range eO {
			if !bitsEq(eO[i], cO[i]) {
				fail("outputs", fmt.Sprintf("outputs[%d] (flat index of [%d,%d,%d]): C entry point %s, Go API %s", i, oc, no, ot, fmtF(cO[i]), fmtF(eO[i])))
				break
			}
		}
		if snull == 0 {
			for c := 0; c < nc; c++ {
				for k := 0; k < ns; k++ {
					want := sArr.Get2(c, k)
					if !bitsEq(cS[c*ns+k], want) {
						fail("states", fmt.Sprintf("final state [%d,%d]: C entry point %s, Go API %s", c, k, fmtF(cS[c*ns+k]), fmtF(want)))
						c = nc
						break
					}
				}
			}
		}
		for i := range I {
			if !bitsEq(I[i], cI[i]) {
				fail("inputs-modified", "RunSingleModel modified the inputs buffer")
				break
			}
		}
		for i := range P {
			if !bitsEq(P[i], cP[i]) {
				fail("params-modified", "RunSingleModel modified the parameters buffer")
				break
			}
		}
		if s.Evaluations%2000 == 1 {
			s.sample(map[string]interface{}{"model": name, "inputSets": nis, "T": T, "paramSets": nsets, "cells": nc, "outCells": oc, "outT": ot, "initStates": init, "statesNull": snull})
		}
	}
	s.Distinct = s.Evaluations
	s.Extra = map[string]interface{}{"fail_kinds": kinds}
	b, _ := json.Marshal(s)
	_ = b
	s.emit()
	return nil
}
