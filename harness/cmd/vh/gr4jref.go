package main

import (
	"bufio"
	"encoding/json"
	"fmt"
	"math"
	"math/rand"
	"os"
	"strings"

	"github.com/flowmatters/openwater-core/data"
	"github.com/flowmatters/openwater-core/sim"
)

// gr4jref engine (C15): the one-day transition function of the published GR4J model, emitted by TLC from
// spec/GR4JRef.tla as symbolic expressions per class (n1, n2) = (ceil(x4), ceil(2 x4)), is interpreted here in
// float64 and iterated over seeded cases (x1..x4 in the documented ranges with x4 inside the class, non-negative
// rainfall / PET series, arbitrary initial stores and delay-line contents); runoff, both stores and every
// delay-line cell are compared with the real model after EVERY timestep (the real model is advanced one
// timestep per Run call on its own state vector).
//
//   vh gr4jref <classes> <cases per class> <timesteps>
func init() { register("gr4jref", gr4jrefEngine) }

type symExpr = []interface{}

func evalSym(e interface{}, env map[string]float64) float64 {
	x := e.([]interface{})
	op := x[0].(string)
	switch op {
	case "num":
		return x[1].(float64) / x[2].(float64)
	case "sym":
		v, ok := env[x[1].(string)]
		if !ok {
			panic("unbound symbol " + x[1].(string))
		}
		return v
	case "add":
		return evalSym(x[1], env) + evalSym(x[2], env)
	case "sub":
		return evalSym(x[1], env) - evalSym(x[2], env)
	case "mul":
		return evalSym(x[1], env) * evalSym(x[2], env)
	case "div":
		return evalSym(x[1], env) / evalSym(x[2], env)
	case "min":
		return math.Min(evalSym(x[1], env), evalSym(x[2], env))
	case "max":
		return math.Max(evalSym(x[1], env), evalSym(x[2], env))
	case "tanh":
		return math.Tanh(evalSym(x[1], env))
	case "pow":
		return math.Pow(evalSym(x[1], env), x[2].(float64)/x[3].(float64))
	case "ifge":
		if evalSym(x[1], env) >= evalSym(x[2], env) {
			return evalSym(x[3], env)
		}
		return evalSym(x[4], env)
	case "ifgt":
		if evalSym(x[1], env) > evalSym(x[2], env) {
			return evalSym(x[3], env)
		}
		return evalSym(x[4], env)
	}
	panic("unknown constructor " + op)
}

type gr4jClass struct {
	Class struct {
		N1 int `json:"n1"`
		N2 int `json:"n2"`
	} `json:"gr4jclass"`
	Step struct {
		S  interface{}   `json:"S"`
		R  interface{}   `json:"R"`
		Q  interface{}   `json:"Q"`
		Q9 []interface{} `json:"q9"`
		Q1 []interface{} `json:"q1"`
	} `json:"step"`
}

func gr4jrefEngine(args []string) error {
	if len(args) < 3 {
		return fmt.Errorf("usage: gr4jref <classes> <cases per class> <timesteps>")
	}
	var nCases, T int
	fmt.Sscan(args[1], &nCases)
	fmt.Sscan(args[2], &T)
	fh, err := os.Open(args[0])
	if err != nil {
		return err
	}
	defer fh.Close()
	s := &summary{Engine: "gr4jref"}
	kinds := map[string]int{}
	r := rand.New(rand.NewSource(seed()))
	sc := bufio.NewScanner(fh)
	sc.Buffer(make([]byte, 1<<20), 1<<26)
	near := func(a, b, scale float64) bool {
		if a == b {
			return true
		}
		if math.IsNaN(a) || math.IsNaN(b) {
			return false
		}
		return math.Abs(a-b) <= 1e-9*math.Max(scale, math.Max(math.Abs(a), math.Abs(b)))+1e-12
	}
	for sc.Scan() {
		line := mustCaseJSON(sc.Text())
		if !strings.HasPrefix(line, "{\"gr4jclass\"") {
			continue
		}
		var c gr4jClass
		if err := json.Unmarshal([]byte(line), &c); err != nil {
			return err
		}
		n1, n2 := c.Class.N1, c.Class.N2
		// x4 with ceil(x4) = n1 and ceil(2 x4) = n2, inside the documented range [0.5, 4]
		lo := math.Max(float64(n1-1), float64(n2-1)/2)
		hi := math.Min(float64(n1), float64(n2)/2)
		lo = math.Max(lo, 0.5-1e-12)
		if !(lo < hi) {
			continue
		}
		for k := 0; k < nCases; k++ {
			x4 := lo + (hi-lo)*(0.001+0.999*r.Float64())
			if k%7 == 0 {
				x4 = hi // the upper end of the class: a whole or half number of days
			}
			if math.Ceil(x4) != float64(n1) || math.Ceil(2*x4) != float64(n2) || x4 < 0.5 {
				continue
			}
			// the documented ranges: X1 [1,1500], X2 [-10,5], X3 [1,500]; capacities log-uniform so that small
			// stores (where the tanh cap and the routing floor bite) are as likely as large ones
			x1, x2, x3 := math.Exp(uni(r, 0, math.Log(1500))), uni(r, -10, 5), math.Exp(uni(r, 0, math.Log(500)))
			if k%5 == 0 {
				x2 = 0
			}
			m := sim.Catalog["GR4J"]()
			p := data.NewArray2DFloat64(4, 1)
			for i, v := range []float64{x1, x2, x3, x4} {
				p.Set2(i, 0, v)
			}
			m.ApplyParameters(p)
			st := m.InitialiseStates(1)
			if st.Len(1) != 4+n1+n2 {
				kinds["state-length"]++
				s.NMismatch++
				if len(s.Mismatches) < 20 {
					s.Mismatches = append(s.Mismatches, map[string]interface{}{"kind": "state-length", "detail": fmt.Sprintf("x4=%v: the model keeps %d state values, the class (n1=%d, n2=%d) has %d", x4, st.Len(1), n1, n2, 4+n1+n2)})
				}
				continue
			}
			env := map[string]float64{"x1": x1, "x2": x2, "x3": x3, "x4": x4}
			// initial stores: empty (the model's own) or arbitrary
			if k%3 != 0 {
				st.Set2(0, 0, r.Float64()*x1)
				st.Set2(0, 1, r.Float64()*x3)
				for j := 0; j < n1+n2; j++ {
					st.Set2(0, 4+j, r.Float64()*3)
				}
			}
			init0 := make([]float64, st.Len(1))
			for j := range init0 {
				init0[j] = st.Get2(0, j)
			}
			var serP, serE, specQ []float64
			env["S"], env["R"] = st.Get2(0, 0), st.Get2(0, 1)
			for j := 1; j <= n2; j++ {
				env[fmt.Sprintf("q1_%d", j)] = st.Get2(0, 4+j-1)
			}
			for j := 1; j <= n1; j++ {
				env[fmt.Sprintf("q9_%d", j)] = st.Get2(0, 4+n2+j-1)
			}
			style := r.Intn(4)
			bad := false
			for t := 0; t < T && !bad; t++ {
				P, E := 0.0, r.Float64()*10
				switch style {
				case 0:
					if r.Intn(2) == 0 {
						P = r.ExpFloat64() * 10
					}
				case 1:
					P = r.Float64() * 40
					E = r.Float64() * 0.5
				case 2:
					if r.Intn(10) == 0 {
						P = 100 + r.Float64()*300
					}
				default:
					P, E = r.Float64()*3, r.Float64()*3
					if r.Intn(4) == 0 {
						E = P // the boundary between the wet and the dry branch
					}
				}
				env["P"], env["E"] = P, E
				// the specification's step
				next := map[string]float64{"S": evalSym(c.Step.S, env), "R": evalSym(c.Step.R, env)}
				for j := 1; j <= n1; j++ {
					next[fmt.Sprintf("q9_%d", j)] = evalSym(c.Step.Q9[j-1], env)
				}
				for j := 1; j <= n2; j++ {
					next[fmt.Sprintf("q1_%d", j)] = evalSym(c.Step.Q1[j-1], env)
				}
				q := evalSym(c.Step.Q, env)
				serP, serE, specQ = append(serP, P), append(serE, E), append(specQ, q)
				// the model's step
				in := data.NewArray3DFloat64(1, 2, 1)
				in.Set3(0, 0, 0, P)
				in.Set3(0, 1, 0, E)
				out := data.NewArray3DFloat64(1, 1, 1)
				if pm := protect(func() { m.Run(in, st, out) }); pm != "" {
					kinds["panic"]++
					s.NMismatch++
					break
				}
				s.Evaluations++
				scale := math.Max(P, 1)
				fail := func(what string, got, want float64) {
					bad = true
					kinds[what]++
					s.NMismatch++
					if len(s.Mismatches) < 30 {
						s.Mismatches = append(s.Mismatches, map[string]interface{}{"kind": what, "n1": n1, "n2": n2,
							"detail": fmt.Sprintf("timestep %d (P=%v, E=%v; x1=%v x2=%v x3=%v x4=%v): %s is %v in the model, %v by the published equations", t, P, E, x1, x2, x3, x4, what, got, want)})
					}
				}
				if !near(out.Get3(0, 0, 0), q, scale) {
					fail("runoff", out.Get3(0, 0, 0), q)
				}
				if !near(st.Get2(0, 0), next["S"], x1) {
					fail("production-store", st.Get2(0, 0), next["S"])
				}
				if !near(st.Get2(0, 1), next["R"], x3) {
					fail("routing-store", st.Get2(0, 1), next["R"])
				}
				for j := 1; j <= n2; j++ {
					if !near(st.Get2(0, 4+j-1), next[fmt.Sprintf("q1_%d", j)], scale) {
						fail(fmt.Sprintf("uh2-line"), st.Get2(0, 4+j-1), next[fmt.Sprintf("q1_%d", j)])
						break
					}
				}
				for j := 1; j <= n1; j++ {
					if !near(st.Get2(0, 4+n2+j-1), next[fmt.Sprintf("q9_%d", j)], scale) {
						fail(fmt.Sprintf("uh1-line"), st.Get2(0, 4+n2+j-1), next[fmt.Sprintf("q9_%d", j)])
						break
					}
				}
				for kk, v := range next {
					env[kk] = v
				}
			}
			// the same days in ONE call (what a timestep leaves behind in the kernel's local variables for the next one
			// is invisible in one-day calls): the runoff series must be the one the published equations give day by day
			if !bad && len(specQ) == T {
				m2 := sim.Catalog["GR4J"]()
				m2.ApplyParameters(p)
				st2 := m2.InitialiseStates(1)
				for j := range init0 {
					st2.Set2(0, j, init0[j])
				}
				in := data.NewArray3DFloat64(1, 2, T)
				for t := 0; t < T; t++ {
					in.Set3(0, 0, t, serP[t])
					in.Set3(0, 1, t, serE[t])
				}
				out := data.NewArray3DFloat64(1, 1, T)
				if pm := protect(func() { m2.Run(in, st2, out) }); pm == "" {
					for t := 0; t < T; t++ {
						if !near(out.Get3(0, 0, t), specQ[t], math.Max(serP[t], 1)) {
							kinds["runoff-one-call"]++
							s.NMismatch++
							if len(s.Mismatches) < 30 {
								s.Mismatches = append(s.Mismatches, map[string]interface{}{"kind": "runoff-one-call", "n1": n1, "n2": n2,
									"detail": fmt.Sprintf("all %d days in one call: runoff of day %d (P=%v, E=%v; previous day P=%v, E=%v; x1=%v x2=%v x3=%v x4=%v) is %v in the model, %v by the published equations (day by day the model agrees)",
										T, t, serP[t], serE[t], serP[maxInt(t-1, 0)], serE[maxInt(t-1, 0)], x1, x2, x3, x4, out.Get3(0, 0, t), specQ[t])})
							}
							break
						}
					}
					s.Evaluations += T
				}
			}
			s.Distinct++
		}
	}
	s.Extra = map[string]interface{}{"cases_per_class": nCases, "timesteps": T, "fail_kinds": kinds}
	s.sample(map[string]interface{}{"timesteps": T})
	s.emit()
	return nil
}
