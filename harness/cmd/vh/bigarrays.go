package main

import (
	"fmt"
	"math"
	"unsafe"

	"github.com/flowmatters/openwater-core/data"
	"github.com/flowmatters/openwater-core/data/cdata"
)

// bigarrays engine (C01, C02, C03): the whole-array operations of NdArray.tla on stores of tens of thousands of elements.
// TLC explores stores of at most a few dozen cells; the DEFINITIONS it checks there (a write changes exactly the addressed
// offsets; bulk operations are the row-major element-by-element pass) do not mention sizes, so the engine evaluates the same
// definitions element by element (through Get/Set only) on big stores and compares: element counts above 2^15 and 2^16
// that are odd / not a multiple of 4, targets that are planes, stepped blocks or whole arrays, Go- and C-backed.
//
//	vh bigarrays
func init() { register("bigarrays", bigarraysEngine) }

type bigFail struct {
	Kind   string `json:"kind"`
	Op     string `json:"op"`
	Detail string `json:"detail"`
}

func bigarraysEngine(args []string) error {
	s := &summary{Engine: "bigarrays"}
	fail := func(kind, op, detail string) {
		s.NMismatch++
		if len(s.Mismatches) < 30 {
			s.Mismatches = append(s.Mismatches, bigFail{Kind: kind, Op: op, Detail: detail})
		}
	}
	var keepC [][]float64 // C-backed stores are harness-owned Go memory that must stay alive
	mk3 := func(backend string, shape []int) data.ND3Float64 {
		if backend == "c" {
			buf := make([]float64, shape[0]*shape[1]*shape[2])
			keepC = append(keepC, buf)
			return cdata.NewFloat64CArray(unsafe.Pointer(&buf[0]), shape).(data.ND3Float64)
		}
		return data.NewArray3DFloat64(shape[0], shape[1], shape[2])
	}
	mk2 := func(backend string, shape []int) data.ND2Float64 {
		if backend == "c" {
			buf := make([]float64, shape[0]*shape[1])
			keepC = append(keepC, buf)
			return cdata.NewFloat64CArray(unsafe.Pointer(&buf[0]), shape).(data.ND2Float64)
		}
		return data.NewArray2DFloat64(shape[0], shape[1])
	}
	for _, be := range []string{"go", "c"} {
		for _, sbe := range []string{"go", "c"} {
			// (1) CopyFrom onto one plane of a 3-d table (the layout of ow-sim's inputs[:, v, :]): 101 x 1 x 365 = 36 865
			// elements, odd; the other plane must stay as it was
			op := fmt.Sprintf("CopyFrom onto plane [:,1,:] of a %s-backed 101x2x365 array from a %s-backed 101x1x365 array", be, sbe)
			parent := mk3(be, []int{101, 2, 365})
			for i := 0; i < 101; i++ {
				for t := 0; t < 365; t++ {
					parent.Set3(i, 0, t, -1)
					parent.Set3(i, 1, t, -2)
				}
			}
			src := mk3(sbe, []int{101, 1, 365})
			for i := 0; i < 101; i++ {
				for t := 0; t < 365; t++ {
					src.Set3(i, 0, t, float64(i*365+t+1))
				}
			}
			view := parent.Slice([]int{0, 1, 0}, []int{101, 1, 365}, nil).(data.ND3Float64)
			if pm := protect(func() { view.CopyFrom(src) }); pm != "" {
				fail("panic", op, pm)
			} else {
				bad := 0
				for i := 0; i < 101 && bad < 3; i++ {
					for t := 0; t < 365 && bad < 3; t++ {
						s.Evaluations += 2
						if got := parent.Get3(i, 1, t); got != float64(i*365+t+1) {
							bad++
							fail("footprint", op, fmt.Sprintf("element [%d,1,%d] is %v after the copy, the source holds %v", i, t, got, float64(i*365+t+1)))
						}
						if got := parent.Get3(i, 0, t); got != -1 {
							bad++
							fail("footprint", op, fmt.Sprintf("element [%d,0,%d] (not addressed) changed from -1 to %v", i, t, got))
						}
					}
				}
			}
			// (2) ApplySlice of a block onto a stepped 2-d target: 181 x 183 = 33 123 elements (odd), every second row / column
			op = fmt.Sprintf("ApplySlice onto the stepped block [1::2, 1::2] (181x183) of a %s-backed 364x368 array from a %s-backed array", be, sbe)
			p2 := mk2(be, []int{364, 368})
			for i := 0; i < 364; i++ {
				for j := 0; j < 368; j++ {
					p2.Set2(i, j, -1)
				}
			}
			s2 := mk2(sbe, []int{181, 183})
			for i := 0; i < 181; i++ {
				for j := 0; j < 183; j++ {
					s2.Set2(i, j, float64(i*183+j+1))
				}
			}
			if pm := protect(func() { p2.ApplySlice([]int{1, 1}, []int{2, 2}, s2) }); pm != "" {
				fail("panic", op, pm)
			} else {
				bad := 0
				for i := 0; i < 364 && bad < 3; i++ {
					for j := 0; j < 368 && bad < 3; j++ {
						s.Evaluations++
						want := -1.0
						if i%2 == 1 && j%2 == 1 && (i-1)/2 < 181 && (j-1)/2 < 183 {
							want = float64(((i-1)/2)*183 + (j-1)/2 + 1)
						}
						if got := p2.Get2(i, j); got != want {
							bad++
							fail("footprint", op, fmt.Sprintf("element [%d,%d] is %v, row-major element-by-element definition gives %v", i, j, got, want))
						}
					}
				}
			}
			// (3) the whole-array helpers on 3 x 21 851 = 65 553 elements (not a multiple of 4), contiguous and as the
			// 1 x 1 x n views ow-sim hands to AddTo
			for _, n := range []int{65553, 70001, 131075} {
				dest := mk2(be, []int{3, n / 3})
				srcA := mk2(sbe, []int{3, n / 3})
				cols := n / 3
				for i := 0; i < 3; i++ {
					for j := 0; j < cols; j++ {
						dest.Set2(i, j, float64((i*cols+j)%97))
						srcA.Set2(i, j, float64((i*cols+j)%89+1))
					}
				}
				chk := func(op string, want func(d0, sv float64) float64) {
					bad := 0
					for i := 0; i < 3 && bad < 3; i++ {
						for j := 0; j < cols && bad < 3; j++ {
							s.Evaluations++
							d0, sv := float64((i*cols+j)%97), float64((i*cols+j)%89+1)
							if got := dest.Get2(i, j); got != want(d0, sv) {
								bad++
								fail("bulk", op, fmt.Sprintf("element [%d,%d] (row-major position %d of %d) is %v, element-by-element definition gives %v", i, j, i*cols+j, 3*cols, got, want(d0, sv)))
							}
						}
					}
				}
				opn := fmt.Sprintf("AddToFloat64Array(%s-backed 3x%d, %s-backed 3x%d)", be, cols, sbe, cols)
				if pm := protect(func() { data.AddToFloat64Array(dest, srcA) }); pm != "" {
					fail("panic", opn, pm)
				} else {
					chk(opn, func(d0, sv float64) float64 { return d0 + sv })
				}
				opn = fmt.Sprintf("ScaleFloat64Array(%s-backed 3x%d, %s-backed 3x%d, 2)", be, cols, sbe, cols)
				if pm := protect(func() { data.ScaleFloat64Array(dest, srcA, 2) }); pm != "" {
					fail("panic", opn, pm)
				} else {
					chk(opn, func(d0, sv float64) float64 { return 2 * sv })
				}
				opn = fmt.Sprintf("CopyFrom(%s-backed 3x%d <- %s-backed)", be, cols, sbe)
				if pm := protect(func() { dest.CopyFrom(srcA) }); pm != "" {
					fail("panic", opn, pm)
				} else {
					chk(opn, func(d0, sv float64) float64 { return sv })
				}
				// Unroll / Maximum / Minimum with the extreme values in the last two positions
				dest.Set2(2, cols-1, 1e9)
				dest.Set2(2, cols-2, -1e9)
				var u []float64
				var mx, mn float64
				if pm := protect(func() { u = dest.Unroll(); mx = dest.Maximum(); mn = dest.Minimum() }); pm != "" {
					fail("panic", "Unroll/Maximum/Minimum of a "+be+"-backed 3x"+fmt.Sprint(cols), pm)
				} else {
					s.Evaluations += 3
					if len(u) != 3*cols || u[len(u)-1] != 1e9 || u[len(u)-2] != -1e9 || u[0] != dest.Get2(0, 0) {
						fail("bulk", "Unroll of a "+be+"-backed 3x"+fmt.Sprint(cols), fmt.Sprintf("length %d, last elements %v; row-major definition: length %d, last elements [-1e9 1e9]", len(u), u[max0(len(u)-2):], 3*cols))
					}
					if mx != 1e9 || mn != -1e9 {
						fail("bulk", "Maximum/Minimum of a "+be+"-backed 3x"+fmt.Sprint(cols), fmt.Sprintf("Maximum %v, Minimum %v; the largest element (last position) is 1e9, the smallest (last but one) -1e9", mx, mn))
					}
				}
			}
		}
		// (4) a 1 x 1 x n series view of a table row (what ow-sim's link pass adds onto), n = 70 001
		tab := mk3(be, []int{2, 2, 70001})
		for t := 0; t < 70001; t++ {
			tab.Set3(1, 0, t, float64(t%13))
			tab.Set3(0, 1, t, float64(t%7+1))
		}
		destRow := tab.Slice([]int{1, 0, 0}, []int{1, 1, 70001}, []int{1, 1, 1})
		srcRow := tab.Slice([]int{0, 1, 0}, []int{1, 1, 70001}, []int{1, 1, 1})
		opn := "AddToFloat64Array on two 1x1x70001 rows of one " + be + "-backed 2x2x70001 table"
		if pm := protect(func() { data.AddToFloat64Array(destRow, srcRow) }); pm != "" {
			fail("panic", opn, pm)
		} else {
			bad := 0
			for t := 0; t < 70001 && bad < 3; t++ {
				s.Evaluations++
				if got, want := tab.Get3(1, 0, t), float64(t%13)+float64(t%7+1); got != want {
					bad++
					fail("bulk", opn, fmt.Sprintf("element %d of the destination row is %v, element-by-element definition gives %v", t, got, want))
				}
				if got := tab.Get3(0, 0, t); got != 0 {
					bad++
					fail("footprint", opn, fmt.Sprintf("element [0,0,%d] (not addressed) changed to %v", t, got))
				}
			}
		}
	}
	valueDomain(s, fail)
	s.Distinct = 2*2*5 + 6
	s.emit()
	_ = keepC
	return nil
}

func max0(a int) int {
	if a < 0 {
		return 0
	}
	return a
}

// valueDomain: NdArray.tla's values are opaque tokens -- a write stores the value it is given, a read returns the value
// stored, a copy moves values unchanged, the maximum is the largest element.  TLC (and the replay of its behaviours)
// uses small non-negative integers that are exact in all eight element types; here the same statements are evaluated on
// the values at the edges of the 64-bit types: float64 by BIT PATTERN (signed zeros, infinities, the smallest denormal,
// the largest finite), int64 / uint64 beyond 2^53 where neighbouring integers have no float64 of their own.
func valueDomain(s *summary, fail func(kind, op, detail string)) {
	fvals := []float64{math.Copysign(0, -1), 0, math.Inf(1), math.Inf(-1), math.SmallestNonzeroFloat64, -math.SmallestNonzeroFloat64,
		math.MaxFloat64, -math.MaxFloat64, 1, math.Copysign(0, -1), 0, -1}
	for _, be := range []string{"go", "c"} {
		mkF := func(n int) data.ND1Float64 {
			if be == "c" {
				buf := make([]float64, n)
				return cdata.NewFloat64CArray(unsafe.Pointer(&buf[0]), []int{n}).(data.ND1Float64)
			}
			return data.NewArray1DFloat64(n)
		}
		n := len(fvals)
		src := mkF(n)
		for i, v := range fvals {
			src.Set1(i, v)
		}
		bitsOf := func(a data.ND1Float64) []uint64 {
			r := make([]uint64, a.Len1())
			for i := range r {
				r[i] = math.Float64bits(a.Get1(i))
			}
			return r
		}
		want := make([]uint64, n)
		for i, v := range fvals {
			want[i] = math.Float64bits(v)
		}
		same := func(op string, got []uint64, w []uint64) {
			s.Evaluations++
			for i := range w {
				if i >= len(got) || got[i] != w[i] {
					fail("value", op+" ("+be+"-backed float64)", fmt.Sprintf("element %d has bit pattern %#x, the value written has %#x (all: %x, written %x)", i, got[min2(i, len(got)-1)], w[i], got, w))
					return
				}
			}
		}
		same("Set1/Get1", bitsOf(src), want)
		// copies onto a destination that holds the OTHER zero / other values everywhere
		for _, other := range []string{"go", "c"} {
			mkO := func(n int) data.ND1Float64 {
				if other == "c" {
					buf := make([]float64, n)
					return cdata.NewFloat64CArray(unsafe.Pointer(&buf[0]), []int{n}).(data.ND1Float64)
				}
				return data.NewArray1DFloat64(n)
			}
			for _, fill := range []float64{0, math.Copysign(0, -1), 1} {
				d := mkO(n)
				for i := 0; i < n; i++ {
					d.Set1(i, fill)
				}
				d.CopyFrom(src)
				same(fmt.Sprintf("CopyFrom onto a %s-backed array holding %v", other, fill), bitsOf(d), want)
				d2 := mkO(2 * n)
				for i := 0; i < 2*n; i++ {
					d2.Set1(i, fill)
				}
				d2.ApplySlice([]int{0}, []int{2}, src)
				got := make([]uint64, n)
				for i := 0; i < n; i++ {
					got[i] = math.Float64bits(d2.Get1(2 * i))
				}
				same(fmt.Sprintf("ApplySlice (step 2) onto a %s-backed array holding %v", other, fill), got, want)
				d3 := mkO(n)
				for i := 0; i < n; i++ {
					d3.Set1(i, fill)
				}
				d3.Apply1(0, 1, src.Unroll())
				same(fmt.Sprintf("Apply1 onto a %s-backed array holding %v", other, fill), bitsOf(d3), want)
			}
		}
		u := src.Unroll()
		gu := make([]uint64, len(u))
		for i, v := range u {
			gu[i] = math.Float64bits(v)
		}
		same("Unroll", gu, want)
		// 64-bit integers beyond 2^53: neighbours that differ by one
		big := int64(1) << 53
		ivals := []int64{big + 1, big + 2, big + 3, big, math.MaxInt64 - 1, math.MaxInt64, math.MinInt64 + 1, math.MinInt64, -big - 1, -big - 2}
		var ia data.ND1Int64
		if be == "c" {
			buf := make([]int64, len(ivals))
			ia = cdata.NewInt64CArray(unsafe.Pointer(&buf[0]), []int{len(ivals)}).(data.ND1Int64)
		} else {
			ia = data.NewArray1DInt64(len(ivals))
		}
		for i, v := range ivals {
			ia.Set1(i, v)
		}
		s.Evaluations += 4
		for i, v := range ivals {
			if ia.Get1(i) != v {
				fail("value", "Set1/Get1 ("+be+"-backed int64)", fmt.Sprintf("element %d reads %d, written %d", i, ia.Get1(i), v))
			}
		}
		if mx, mn := ia.Maximum(), ia.Minimum(); mx != math.MaxInt64 || mn != math.MinInt64 {
			fail("bulk", "Maximum/Minimum ("+be+"-backed int64)", fmt.Sprintf("Maximum %d, Minimum %d; the largest element is %d, the smallest %d", mx, mn, int64(math.MaxInt64), int64(math.MinInt64)))
		}
		head := ia.Slice([]int{0}, []int{4}, nil).(data.ND1Int64)
		if mx, mn := head.Maximum(), head.Minimum(); mx != big+3 || mn != big {
			fail("bulk", "Maximum/Minimum ("+be+"-backed int64)", fmt.Sprintf("of [2^53+1, 2^53+2, 2^53+3, 2^53]: Maximum %d, Minimum %d; element-by-element: %d and %d", mx, mn, big+3, big))
		}
		uvals := []uint64{1<<53 + 1, 1<<53 + 2, 1<<63 + 1, 1<<63 + 2, math.MaxUint64 - 1, math.MaxUint64, 1 << 53}
		var ua data.ND1Uint64
		if be == "c" {
			buf := make([]uint64, len(uvals))
			ua = cdata.NewUint64CArray(unsafe.Pointer(&buf[0]), []int{len(uvals)}).(data.ND1Uint64)
		} else {
			ua = data.NewArray1DUint64(len(uvals))
		}
		for i, v := range uvals {
			ua.Set1(i, v)
		}
		for i, v := range uvals {
			if ua.Get1(i) != v {
				fail("value", "Set1/Get1 ("+be+"-backed uint64)", fmt.Sprintf("element %d reads %d, written %d", i, ua.Get1(i), v))
			}
		}
		if mx, mn := ua.Maximum(), ua.Minimum(); mx != math.MaxUint64 || mn != 1<<53 {
			fail("bulk", "Maximum/Minimum ("+be+"-backed uint64)", fmt.Sprintf("Maximum %d, Minimum %d; the largest element is %d, the smallest %d", mx, mn, uint64(math.MaxUint64), uint64(1<<53)))
		}
		mid := ua.Slice([]int{2}, []int{3}, nil).(data.ND1Uint64)
		if mx, mn := mid.Maximum(), mid.Minimum(); mx != math.MaxUint64-1 || mn != 1<<63+1 {
			fail("bulk", "Maximum/Minimum ("+be+"-backed uint64)", fmt.Sprintf("of [2^63+1, 2^63+2, 2^64-2]: Maximum %d, Minimum %d; element-by-element: %d and %d", mx, mn, uint64(math.MaxUint64-1), uint64(1<<63+1)))
		}
	}
}

func min2(a, b int) int {
	if a < b {
		return a
	}
	return b
}
