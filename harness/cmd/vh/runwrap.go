package main

import (
	"bufio"
	"encoding/json"
	"fmt"
	"math/rand"
	"os"
	"strings"
)

// runwrap engine (C04; footprint half of C05): every configuration of spec/RunWrapper.tla
// (cells, parameter sets, input blocks, timesteps, output slack; per cell the column/block the
// specification assigns) is run on every catalogued model with seeded valid content; the uninterpreted
// kernel of the specification is interpreted by the REAL kernel: each cell alone, on a fresh model
// object, with exactly the column / row / block the specification names. Bit-identical results required;
// everything the specification leaves untouched must be untouched.
//
//   vh runwrap <configs-file> [-models a,b] [-draws n] [-backends go,c] [-progress file]
func init() { register("runwrap", runwrapEngine) }

type rwCell struct {
	Cell int `json:"cell"`
	PCol int `json:"pcol"`
	Blk  int `json:"blk"`
}
type rwConfig struct {
	NC    int      `json:"nc"`
	NP    int      `json:"np"`
	NB    int      `json:"nb"`
	T     int      `json:"t"`
	OC    int      `json:"oc"`
	OT    int      `json:"ot"`
	Mode  string   `json:"mode"`
	Cells []rwCell `json:"cells"`
}

func readRWConfigs(path string) ([]rwConfig, error) {
	fh, err := os.Open(path)
	if err != nil {
		return nil, err
	}
	defer fh.Close()
	var out []rwConfig
	seen := map[string]bool{}
	sc := bufio.NewScanner(fh)
	sc.Buffer(make([]byte, 1<<20), 1<<24)
	for sc.Scan() {
		line := mustCaseJSON(sc.Text())
		if !strings.HasPrefix(line, "{\"run\"") {
			continue
		}
		var w struct {
			Run rwConfig `json:"run"`
		}
		if err := json.Unmarshal([]byte(line), &w); err != nil {
			return nil, err
		}
		k := fmt.Sprint(w.Run.NC, w.Run.NP, w.Run.NB, w.Run.T, w.Run.OC, w.Run.OT)
		if !seen[k] {
			seen[k] = true
			out = append(out, w.Run)
		}
	}
	return out, sc.Err()
}

type rwFail struct {
	Kind    string   `json:"kind"`
	Model   string   `json:"model"`
	Backend string   `json:"backend"`
	Config  rwConfig `json:"config"`
	Seed    int64    `json:"seed"`
	Detail  string   `json:"detail"`
}

// checkVector compares one vectorised run with per-cell single runs. Returns failures.
func checkVector(mc *modelCase, cfg rwConfig, backend string, caseSeed int64) (fails []rwFail, evals int) {
	fail := func(kind, detail string) {
		fails = append(fails, rwFail{Kind: kind, Model: mc.Name, Backend: backend, Config: cfg, Seed: caseSeed, Detail: detail})
	}
	res, pm := mc.runVector(backend, cfg.OC, cfg.OT, nil)
	evals++
	if pm != "" {
		fail("panic", "vectorised Run panicked: "+pm)
		return
	}
	if !res.Intact {
		fail("stray-write", "bytes outside a caller buffer were modified")
	}
	if res.ArgsChanged != "" {
		fail("arguments-modified", res.ArgsChanged)
	}
	// frame: parameters and inputs unchanged
	k := 0
	for i := range mc.Params {
		for s := 0; s < mc.NSets; s++ {
			if !bitsEq(res.ParamsAfter[k], mc.Params[i][s]) {
				fail("params-modified", fmt.Sprintf("parameter row %d set %d changed from %v to %v", i, s, mc.Params[i][s], res.ParamsAfter[k]))
			}
			k++
		}
	}
	k = 0
	for b := range mc.Inputs {
		for in := range mc.Inputs[b] {
			for t := 0; t < mc.T; t++ {
				if !bitsEq(res.InputsAfter[k], mc.Inputs[b][in][t]) {
					fail("inputs-modified", fmt.Sprintf("input block %d series %d t=%d changed from %v to %v", b, in, t, mc.Inputs[b][in][t], res.InputsAfter[k]))
				}
				k++
			}
		}
	}
	// slack of the output array untouched
	for c := 0; c < res.OC; c++ {
		for o := 0; o < res.NO; o++ {
			for t := 0; t < res.OT; t++ {
				if c >= mc.NCells || t >= mc.T {
					if v := res.Out[(c*res.NO+o)*res.OT+t]; !bitsEq(v, slackFill) {
						fail("slack-written", fmt.Sprintf("output[%d,%d,%d] lies outside the cells/timesteps run but was changed to %v", c, o, t, v))
					}
				}
			}
		}
	}
	if len(fails) > 0 {
		return
	}
	// per cell: the specification's term K(column pcol, row i, block blk) interpreted by the real kernel
	for _, cell := range cfg.Cells {
		sc := mc.single(cell.Cell, cell.PCol, cell.Blk)
		sres, spm := sc.runVector("go", 1, mc.T, nil)
		evals++
		if spm != "" {
			fail("panic", fmt.Sprintf("single-cell run of cell %d panicked: %s", cell.Cell, spm))
			continue
		}
		for o := 0; o < res.NO; o++ {
			for t := 0; t < mc.T; t++ {
				got := res.Out[(cell.Cell*res.NO+o)*res.OT+t]
				want := sres.Out[o*mc.T+t]
				if !bitsEq(got, want) {
					fail("cell-output", fmt.Sprintf("cell %d output %s t=%d: vectorised run %s, the cell alone (column %d, block %d) %s",
						cell.Cell, mc.Desc.Outputs[o], t, fmtF(got), cell.PCol, cell.Blk, fmtF(want)))
					o, t = res.NO, mc.T
				}
			}
		}
		for s := 0; s < res.NS; s++ {
			got := res.States[cell.Cell*res.NS+s]
			want := sres.States[s]
			if !bitsEq(got, want) {
				fail("cell-state", fmt.Sprintf("cell %d final state %d: vectorised run %s, the cell alone %s", cell.Cell, s, fmtF(got), fmtF(want)))
				break
			}
		}
	}
	// dimensioned models: the unused rows of shorter tables are in no cell's term
	if mc.TableLen != nil && len(fails) == 0 {
		alt := *mc
		alt.Pad = 98765.4321
		alt.layout()
		ares, apm := alt.runVector(backend, cfg.OC, cfg.OT, nil)
		evals++
		if apm != "" {
			fail("panic", "vectorised Run with different padding in unused table rows panicked: "+apm)
		} else {
			for i := range res.Out {
				if !bitsEq(res.Out[i], ares.Out[i]) {
					fail("table-padding-read", "outputs depend on table rows beyond the cell's declared table length")
					break
				}
			}
			for i := range res.States {
				if !bitsEq(res.States[i], ares.States[i]) {
					fail("table-padding-read", "final states depend on table rows beyond the cell's declared table length")
					break
				}
			}
		}
	}
	return
}

// initialStatesOf: the rows of the model's own InitialiseStates(NCells) for the case's parameters
func initialStatesOf(mc *modelCase) [][]float64 {
	mm := mc.newModel(mc.paramsArray())
	st := mm.InitialiseStates(mc.NCells)
	rows := make([][]float64, mc.NCells)
	for c := range rows {
		rows[c] = make([]float64, st.Len(1))
		for k := range rows[c] {
			rows[c][k] = st.Get2(c, k)
		}
	}
	return rows
}

func runwrapEngine(args []string) error {
	if len(args) < 1 {
		return fmt.Errorf("usage: runwrap <configs> [-models ..] [-draws n] [-backends go,c] [-progress f]")
	}
	cfgs, err := readRWConfigs(args[0])
	if err != nil {
		return err
	}
	if len(cfgs) == 0 {
		return fmt.Errorf("no configurations in %s", args[0])
	}
	models := modelNames()
	draws := 1
	backends := []string{"go", "c"}
	progress := ""
	minCells := 1
	for i := 1; i < len(args); i++ {
		switch args[i] {
		case "-mincells":
			i++
			fmt.Sscan(args[i], &minCells)
		case "-models":
			i++
			models = strings.Split(args[i], ",")
		case "-draws":
			i++
			fmt.Sscan(args[i], &draws)
		case "-backends":
			i++
			backends = strings.Split(args[i], ",")
		case "-progress":
			i++
			progress = args[i]
		}
	}
	s := &summary{Engine: "runwrap"}
	kinds := map[string]int{}
	perKey := map[string]int{}
	for _, name := range models {
		for ci, cfg := range cfgs {
			if cfg.NC < minCells {
				continue
			}
			for d := 0; d < draws; d++ {
				caseSeed := seed()*1000003 + int64(ci)*131 + int64(d)*7 + int64(len(name))
				for _, b := range backends {
					if progress != "" {
						pj, _ := json.Marshal(map[string]interface{}{"model": name, "config": cfg, "seed": caseSeed, "backend": b})
						os.WriteFile(progress, pj, 0644)
					}
					r := rand.New(rand.NewSource(caseSeed))
					mc := genCase(r, name, cfg.NP, cfg.NC, cfg.NB, cfg.T)
					fails, ev := checkVector(mc, cfg, b, caseSeed)
					if len(fails) == 0 && b == "go" && len(mc.States) > 0 && len(mc.States[0]) > 0 {
						// the same case on the state array the model itself hands out for NC cells
						own := *mc
						own.OwnStates = true
						own.States = initialStatesOf(&own)
						f2, ev2 := checkVector(&own, cfg, "go", caseSeed)
						for i := range f2 {
							f2[i].Kind += "/own-states"
						}
						fails, ev = append(fails, f2...), ev+ev2
					}
					s.Evaluations += ev
					s.Distinct++
					for _, f := range fails {
						kinds[f.Kind+"/"+f.Model]++
						key := f.Kind + "/" + f.Model + "/" + f.Backend
						perKey[key]++
						s.NMismatch++
						if perKey[key] <= 2 && len(s.Mismatches) < 80 {
							s.Mismatches = append(s.Mismatches, f)
						}
					}
					if ci == 0 && d == 0 && b == "go" && len(s.Samples) < 3 {
						s.sample(map[string]interface{}{"model": name, "config": cfg, "params_row0": mc.Params[0:min(1, len(mc.Params))]})
					}
				}
			}
		}
	}
	s.Extra = map[string]interface{}{"models": len(models), "configs": len(cfgs), "draws": draws, "backends": backends, "fail_kinds": kinds}
	s.emit()
	return nil
}
