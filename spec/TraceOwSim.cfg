SPECIFICATION TraceSpec
CONSTANTS
  NGen <- TNGen
  Models <- TModels
  HasNodes <- THasNodes
  Links <- TLinks
  Output <- TOutput
  FIFO = TRUE
INVARIANTS NothingBad WrittenAtMostOnce WritesSerialised PurgeSafe ExitSeen
CONSTRAINT HW
POSTCONDITION TraceAccepted
CHECK_DEADLOCK FALSE
