SPECIFICATION Spec
CONSTANTS
  MaxN1 = 4
  Emit = TRUE
INVARIANTS Closed LinesKeepLength ProductionIndependent
CHECK_DEADLOCK FALSE
