------------------------- MODULE RunFootprintProof -------------------------
(***************************************************************************)
(* TLAPS proof, for ANY number of cells, parameter sets, input blocks and  *)
(* timesteps, of what TLC checks on RunWrapper.tla for <= 3 cells: cells   *)
(* that stay inside their footprints never conflict (NoRace).              *)
(*                                                                         *)
(* The design is restated at the level of SETS of locations: cell i may    *)
(* read   R(i) = { <<"P", i % NP>>, <<"S", i>> }                           *)
(*               \cup { <<"I", i % NB, t>> : t \in 0..T-1 } \cup W(i)      *)
(* and write W(i) = { <<"S", i>> } \cup { <<"O", i, t>> : t \in 0..T-1 },  *)
(* one location per step, in any order and any interleaving.  That these   *)
(* sets are exactly the footprints of Program(i) of RunWrapper.tla is      *)
(* checked by TLC for every configuration in the bounds (invariant         *)
(* FootprintsAreSets of RunWrapper.tla); that the REAL wrappers stay       *)
(* inside them is what TraceRunWrapper.tla establishes on recorded         *)
(* executions.  Here: Inv (every cell has only touched its own footprint)  *)
(* is inductive, footprints of different cells are disjoint in the sense   *)
(* NoRace needs, hence Spec => []NoRace for all NC, NP, NB, T.             *)
(***************************************************************************)
EXTENDS Integers, TLAPS

CONSTANTS NC, NP, NB, T
ASSUME Pos == NC \in Nat /\ NP \in Nat \ {0} /\ NB \in Nat \ {0} /\ T \in Nat

Cells == 0..(NC - 1)
W(i) == {<<"S", i>>} \cup {<<"O", i, t>> : t \in 0..(T - 1)}
R(i) == {<<"P", i % NP>>, <<"S", i>>} \cup {<<"I", i % NB, t>> : t \in 0..(T - 1)} \cup W(i)

VARIABLES reads, writes
vars == <<reads, writes>>

Init == /\ reads = [i \in Cells |-> {}]
        /\ writes = [i \in Cells |-> {}]
Read(i) == \E l \in R(i) : /\ reads' = [reads EXCEPT ![i] = @ \cup {l}]
                           /\ UNCHANGED writes
Write(i) == \E l \in W(i) : /\ writes' = [writes EXCEPT ![i] = @ \cup {l}]
                            /\ UNCHANGED reads
Next == \E i \in Cells : Read(i) \/ Write(i)
Spec == Init /\ [][Next]_vars

NoRace == \A i, j \in Cells : i # j => writes[i] \cap (reads[j] \cup writes[j]) = {}

Inv == /\ reads \in [Cells -> SUBSET (UNION {R(i) : i \in Cells})]
       /\ writes \in [Cells -> SUBSET (UNION {W(i) : i \in Cells})]
       /\ \A i \in Cells : reads[i] \subseteq R(i) /\ writes[i] \subseteq W(i)

\* what a cell writes, no other cell reads or writes
LEMMA Disjoint == \A i, j \in Cells : i # j => W(i) \cap R(j) = {}
  BY Pos DEF Cells, W, R

THEOREM InitInv == Init => Inv
  BY DEF Init, Inv

THEOREM NextInv == Inv /\ [Next]_vars => Inv'
<1> SUFFICES ASSUME Inv, [Next]_vars PROVE Inv'
  OBVIOUS
<1>1. CASE UNCHANGED vars
  BY <1>1 DEF Inv, vars
<1>2. ASSUME NEW i \in Cells, Read(i) PROVE Inv'
  BY <1>2 DEF Inv, Read
<1>3. ASSUME NEW i \in Cells, Write(i) PROVE Inv'
  BY <1>3 DEF Inv, Write
<1> QED
  BY <1>1, <1>2, <1>3 DEF Next

THEOREM InvNoRace == Inv => NoRace
<1> SUFFICES ASSUME Inv, NEW i \in Cells, NEW j \in Cells, i # j
             PROVE writes[i] \cap (reads[j] \cup writes[j]) = {}
  BY DEF NoRace
<1>1. writes[i] \subseteq W(i) /\ reads[j] \subseteq R(j) /\ writes[j] \subseteq W(j)
  BY DEF Inv
<1>2. W(j) \subseteq R(j)
  BY DEF R
<1>3. W(i) \cap R(j) = {}
  BY Disjoint
<1> QED
  BY <1>1, <1>2, <1>3

THEOREM Safety == Spec => []NoRace
<1>1. Spec => []Inv
  BY InitInv, NextInv, PTL DEF Spec
<1> QED
  BY <1>1, InvNoRace, PTL
=============================================================================
