SPECIFICATION Spec
CONSTANTS
  Callers = {c1, c2, c3}
  MaxCalls = 2
INVARIANTS NoWriteOverlap CallsUnderLock WriterExclusive
CHECK_DEADLOCK FALSE
