\* the selection / round-trip laws of the operators, on every dataset reachable with one write
SPECIFICATION Spec
CONSTANTS
  Paths <- PathsQ
  Shapes <- ShapesQ
  Layouts = {"contig"}
  MaxOps = 2
  MaxStep = 2
  Fills = {0}
  ValKinds = {"fresh"}
  Emit = FALSE
INVARIANTS TypeOK RoundTrip SelectionIsSlice
CHECK_DEADLOCK FALSE
