\* many cells, cells run atomically, explored by random simulation (tlc -simulate): one behaviour per drawn configuration
SPECIFICATION Spec
CONSTANTS
  MaxNC = 3
  MaxNP = 3
  MaxNB = 3
  MaxT = 2
  MaxSlackC = 1
  MaxSlackT = 1
  Atomic = TRUE
  Bug = "none"
  Emit = TRUE
  Configs <- ManyConfigs
INVARIANTS FootprintsAreSets JoinBeforeReturn PerCellAndFrame FrameAlways
CHECK_DEADLOCK FALSE
