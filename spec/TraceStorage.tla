----------------------------- MODULE TraceStorage -----------------------------
(***************************************************************************)
(* The reservoir model Storage (C13) as laws over observed solver steps.   *)
(* The engine runs the real model on seeded cases (monotone level/volume/  *)
(* area tables and release curves of 2..5 points; series that fill to      *)
(* spill, draw down towards empty, or mix both).  Through the solver's     *)
(* verif hook it sees every TRIAL evaluation of the release rule (demand,  *)
(* volume, release -- twice per trial), every SPILL and every accepted     *)
(* SUB-TIMESTEP; from the outputs every TIMESTEP.  All floats are RANK-    *)
(* encoded per case after merging floats equal to 1e-12, so equal ranks    *)
(* mean "equal to 1e-12"; no arithmetic is done on ranks.                  *)
(*   trial     dem (the demand handed to the release rule), demin (the     *)
(*             demand input of the timestep); r1, lo1, hi1: release, minimum- and maximum-release    *)
(*             curve at the volume before the sub-timestep; r2, lo2, hi2:  *)
(*             the same at the trial end volume (curves looked up by the   *)
(*             engine in the case's own tables)                            *)
(*   spill     v: volume, excess: spilled volume, room: v - full supply    *)
(*   substep   v: volume after the accepted sub-timestep                   *)
(*   step      vol; balresid = | dV - ((inflow - outflow) dt + (rainfall   *)
(*             volume - evaporation volume) dt) | with allowance baltol;   *)
(*             conresid = | outflow dt - (releases of the accepted sub-    *)
(*             timesteps + spills) | with allowance contol                 *)
(*   final     distance of the final level / area from the table values of *)
(*             the final volume                                            *)
(* Laws (C13): the release rule -- demand clamped between the two curves   *)
(* at the volume at hand -- holds at every volume the solver traversed;    *)
(* spill only above full supply and never more than the excess; volume     *)
(* never negative; the reported outflow is exactly what was released and   *)
(* spilled; the balance closes; final level and area are table values.     *)
(* Failures are collected, not blocking.                                   *)
(***************************************************************************)
EXTENDS Integers, Sequences, TLC, Json

Trace == ndJsonDeserialize("trace.ndjson")
VARIABLES l, zero, full, viol, reported
vars == <<l, zero, full, viol, reported>>
E == Trace[l]

Init == l = 1 /\ zero = 0 /\ full = 0 /\ viol = {} /\ reported = FALSE
Case == /\ l <= Len(Trace) /\ E.ev = "case" /\ zero' = E.zero /\ full' = E.full /\ l' = l + 1 /\ UNCHANGED <<viol, reported>>

\* the release rule: the demand, raised to the minimum-release curve and capped by the maximum-release curve
ReleaseRule(d, lo, hi, r) == IF d < lo THEN r = lo ELSE IF d > hi THEN r = hi ELSE r = d
Trial == /\ l <= Len(Trace) /\ E.ev = "trial"
         /\ viol' = viol \cup (IF ReleaseRule(E.dem, E.lo1, E.hi1, E.r1) /\ ReleaseRule(E.dem, E.lo2, E.hi2, E.r2) THEN {} ELSE {<<l, "release">>})
                         \* the demand the rule is applied to is the demand input of the timestep, nothing else
                         \cup (IF E.dem = E.demin THEN {} ELSE {<<l, "demand">>})
         /\ l' = l + 1 /\ UNCHANGED <<zero, full, reported>>
Spill == /\ l <= Len(Trace) /\ E.ev = "spill"
         /\ viol' = viol \cup (IF (E.excess > zero => E.v > full) /\ E.excess >= zero /\ E.excess <= E.room THEN {} ELSE {<<l, "spill">>})
         /\ l' = l + 1 /\ UNCHANGED <<zero, full, reported>>
Substep == /\ l <= Len(Trace) /\ E.ev = "substep"
           /\ viol' = viol \cup (IF E.v >= zero THEN {} ELSE {<<l, "negative">>})
           /\ l' = l + 1 /\ UNCHANGED <<zero, full, reported>>

Finite(e) == e.finite
BalanceCloses(e) == e.balresid <= e.baltol
VolumeNonNegative(e) == e.vol >= zero
OutflowIsReleasePlusSpill(e) == e.conresid <= e.contol
Step == /\ l <= Len(Trace) /\ E.ev = "step"
        /\ viol' = viol \cup (IF Finite(E) THEN {} ELSE {<<l, "finite">>})
                        \cup (IF ~Finite(E) \/ BalanceCloses(E) THEN {} ELSE {<<l, "balance">>})
                        \cup (IF ~Finite(E) \/ VolumeNonNegative(E) THEN {} ELSE {<<l, "negative">>})
                        \cup (IF ~Finite(E) \/ OutflowIsReleasePlusSpill(E) THEN {} ELSE {<<l, "outflow">>})
        /\ l' = l + 1 /\ UNCHANGED <<zero, full, reported>>
Final == /\ l <= Len(Trace) /\ E.ev = "final"
         /\ viol' = viol \cup (IF E.lvresid <= E.lvtol /\ E.arresid <= E.artol /\ E.stateisvol THEN {} ELSE {<<l, "tablevalues">>})
         /\ l' = l + 1 /\ UNCHANGED <<zero, full, reported>>
Report == /\ l = Len(Trace) + 1 /\ ~reported /\ reported' = TRUE
          /\ PrintT(<<"LAW_VIOLATIONS", viol>>)
          /\ UNCHANGED <<l, zero, full, viol>>
Next == Case \/ Trial \/ Spill \/ Substep \/ Step \/ Final \/ Report
Spec == Init /\ [][Next]_vars
TraceAccepted ==
    LET n == TLCGet("stats").diameter - 2 IN
    /\ PrintT(<<"TRACE_CONSUMED", n, Len(Trace)>>)
    /\ n = Len(Trace)
=============================================================================
