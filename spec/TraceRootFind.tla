---------------------------- MODULE TraceRootFind ----------------------------
(* B2 for C18: every call the real FindRoot makes to the caller's function (and derivative) is logged by   *)
(* instrumented closures.  Floats are replaced by their RANK among all floats of the same kind in the      *)
(* trace (x-values; function values together with 0, the tolerance and all absolute values): order-        *)
(* isomorphic, so every comparison below is faithful and no arithmetic is ever done on a rank.             *)
(* The log must be explained by the bracket discipline of RootFind.tla:                                    *)
(*   start, eval(init), eval(max), eval(min), then iterations: deriv, eval(trial)+ ..., finally return.    *)
EXTENDS Integers, Sequences, FiniteSets, TLC, Json

Trace == ndJsonDeserialize("trace.ndjson")
VARIABLES l, cfg, phase, lo, hi, tlo, thi, evals, iters, fmin, fmax, xcur, trials
vars == <<l, cfg, phase, lo, hi, tlo, thi, evals, iters, fmin, fmax, xcur, trials>>
E == Trace[l]
Is(k) == l <= Len(Trace) /\ E.ev = k
Adv == l' = l + 1

Init == /\ l = 1 /\ cfg = [zero |-> 0] /\ phase = "idle" /\ lo = 0 /\ hi = 0 /\ tlo = 0 /\ thi = 0
        /\ evals = {} /\ iters = 0 /\ fmin = 0 /\ fmax = 0 /\ xcur = 0 /\ trials = {}

Start == /\ Is("start") /\ phase \in {"idle", "returned"}
         /\ E.min <= E.init /\ E.init <= E.max                 \* the driver's precondition
         /\ cfg' = E /\ phase' = "init1" /\ lo' = E.min /\ hi' = E.max /\ tlo' = E.min /\ thi' = E.max
         /\ evals' = {} /\ iters' = 0 /\ fmin' = 0 /\ fmax' = 0 /\ xcur' = E.init /\ trials' = {} /\ Adv

\* the three evaluations before the loop: initial guess, upper end, lower end
EvalInit ==
    /\ Is("eval") /\ phase \in {"init1", "init2", "init3"}
    /\ E.x = (CASE phase = "init1" -> cfg.init [] phase = "init2" -> cfg.max [] phase = "init3" -> cfg.min)
    /\ evals' = evals \cup {<<E.x, E.fx, E.afx>>}
    /\ fmax' = IF phase = "init2" THEN E.fx ELSE fmax
    /\ fmin' = IF phase = "init3" THEN E.fx ELSE fmin
    /\ phase' = (CASE phase = "init1" -> "init2" [] phase = "init2" -> "init3" [] phase = "init3" -> "loop")
    \* bracketed root (the driver's precondition): f(min) <= 0 <= f(max)
    /\ (phase = "init3" => (E.fx <= cfg.zero /\ fmax >= cfg.zero))
    /\ UNCHANGED <<cfg, lo, hi, tlo, thi, iters, xcur, trials>> /\ Adv

\* the end of the bracket the search continues from: the lower end unless the upper end's value is smaller
\* in magnitude (|f(lo)| <= f(hi) keeps lo)
EvalAt(x) == CHOOSE e \in evals : e[1] = x
BetterEnd(a, b) == IF EvalAt(a)[3] <= EvalAt(b)[2] THEN a ELSE b

\* an iteration starts (the derivative is asked once per iteration): the trial bracket becomes the bracket
Deriv == /\ Is("deriv") /\ phase = "loop"
         /\ lo' = tlo /\ hi' = thi /\ iters' = iters + 1
         \* the search continues from the better end of the bracket the previous iteration left
         /\ xcur' = IF iters = 0 THEN xcur ELSE BetterEnd(tlo, thi)
         /\ E.x = xcur'                      \* ... and that is where the derivative is asked
         /\ trials' = {}
         /\ iters < cfg.maxiter              \* never more iterations than the budget
         /\ UNCHANGED <<cfg, phase, tlo, thi, evals, fmin, fmax>> /\ Adv

\* a trial evaluation: inside the bracket of this iteration; the trial bracket tightens by the sign rule
EvalTrial ==
    /\ Is("eval") /\ phase = "loop"
    /\ (IF cfg.hasdx THEN lo <= E.x /\ E.x <= hi ELSE cfg.min <= E.x /\ E.x <= cfg.max)
    /\ evals' = evals \cup {<<E.x, E.fx, E.afx>>}
    /\ trials' = trials \cup {E.x}
    /\ IF E.fx < cfg.zero
       THEN /\ tlo' = (IF E.x > tlo /\ E.x <= thi THEN E.x ELSE tlo) /\ thi' = thi
       ELSE /\ thi' = (IF E.x < thi /\ E.x >= tlo THEN E.x ELSE thi) /\ tlo' = tlo
    /\ UNCHANGED <<cfg, phase, lo, hi, iters, fmin, fmax, xcur>> /\ Adv

Near(a, b) == a = b \/ \E i \in 1..Len(cfg.near) : cfg.near[i] = <<a, b>> \/ cfg.near[i] = <<b, a>>     \* |a - b| < convergence limit
Return ==
    /\ Is("return") /\ phase = "loop"
    /\ <<E.x, E.fx, E.afx>> \in evals                   \* an evaluated point together with ITS value
    \* why the search may stop (only checkable when iterations are delimited by derivative requests):
    \* the value is below the tolerance, or the iteration budget is used up, or every trial point of the
    \* last iteration lies within the convergence limit of the point the iteration started from
    /\ (cfg.hasdx => (E.afx < cfg.tol \/ iters = cfg.maxiter \/ (iters >= 1 /\ \A t \in trials : Near(xcur, t))))
    /\ (cfg.hasdx => (E.afx < cfg.tol \/ iters = 0 \/ E.x = BetterEnd(tlo, thi)))
    /\ cfg.min <= E.x /\ E.x <= cfg.max
    \* the quantitative clause (non-decreasing f): when halving the initial bracket cfg.bisect times makes it so narrow
    \* that every point of such a bracket around the root meets the tolerance (counted by the driver), a search that
    \* used up a budget of at least that many iterations has met it too
    /\ ((cfg.hasdx /\ cfg.mono /\ iters = cfg.maxiter /\ cfg.bisect > 0 /\ cfg.bisect <= cfg.maxiter) => E.afx < cfg.tol)
    \* non-decreasing f, at least one iteration: no worse than the better end of the initial bracket
    \* (or already below the tolerance)
    /\ ((cfg.mono /\ iters >= 1) => (E.afx < cfg.tol \/ (E.afx <= E.amin /\ E.afx <= E.amax)))
    /\ phase' = "returned"
    /\ UNCHANGED <<cfg, lo, hi, tlo, thi, evals, iters, fmin, fmax, xcur, trials>> /\ Adv

TraceNext == Start \/ EvalInit \/ Deriv \/ EvalTrial \/ Return
TraceSpec == Init /\ [][TraceNext]_vars

\* the trial bracket always brackets a sign change and never leaves the initial interval
BracketOK == phase = "loop" => (cfg.min <= tlo /\ tlo <= thi /\ thi <= cfg.max)
TraceAccepted ==
    LET n == TLCGet("stats").diameter - 1 IN
    /\ PrintT(<<"TRACE_CONSUMED", n, Len(Trace)>>)
    /\ n = Len(Trace)
=============================================================================
