SPECIFICATION Spec
CONSTANTS
  Models = {"LumpedConstituentRouting"}
  Grid = "small"
  Emit = TRUE
INVARIANTS MassConserved ConstituentNonNegative FlushOnlyWhenEmpty FineStoreBounds FineFlushOnlyWhenDry
CHECK_DEADLOCK FALSE
