SPECIFICATION Spec
CONSTANTS
  N = 4
  V = 2
  MaxIter = 3
  Monotone = TRUE
INVARIANTS EvalInside SignChange Paired NoWorseThanEnds
CHECK_DEADLOCK FALSE
