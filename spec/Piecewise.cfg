SPECIFICATION Spec
CONSTANTS
  MaxLen = 4
  MaxKnot = 5
  YVals = {0, 3, 4}
  Emit = TRUE
INVARIANTS AtKnots Between ErrorOutside
CHECK_DEADLOCK FALSE
