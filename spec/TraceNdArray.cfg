SPECIFICATION TraceSpec
CONSTANTS
  Shapes = {}
  StepVals = {}
  Broadcast = FALSE
  MaxSlices = 0
  MaxWrites = 0
  MaxReshapes = 0
  WriteOps = {}
  AllowNil = FALSE
  ChainOnly = FALSE
  WriteNewest = FALSE
  AllowReduce = FALSE
  AllowCopy = FALSE
  EarlyStop = FALSE
  Emit = FALSE
INVARIANTS ViewsOK Compose
POSTCONDITION TraceAccepted
CHECK_DEADLOCK FALSE
