SPECIFICATION Spec
CONSTANTS
  Models = {"Lag", "Muskingum"}
  Grid = "small"
  Emit = TRUE
INVARIANTS LagConserves LagDelays MuskWeights MuskSteady MuskBalance
CHECK_DEADLOCK FALSE
