\* all chains of <= 3 slices over shapes with <= 8 cells; no writes
SPECIFICATION Spec
CONSTANTS
  Shapes <- ShapesV3
  StepVals <- Steps12
  Broadcast = FALSE
  MaxSlices = 3
  MaxWrites = 0
  MaxReshapes = 0
  WriteOps <- AllWrites
  AllowNil = TRUE
  ChainOnly = TRUE
  WriteNewest = TRUE
  AllowReduce = FALSE
  AllowCopy = FALSE
  EarlyStop = FALSE
  Emit = TRUE
INVARIANTS ViewsOK Compose ContigIsRun
PROPERTIES ViewOpsPure
CHECK_DEADLOCK FALSE
