SPECIFICATION Spec
CONSTANTS
  StartYears = {2000}
  SpanYears = 400
  Emit = TRUE
INVARIANTS TypeOK DoyDef DoyOneIffNewYear DoyLastIffNYE CycleLaw
PROPERTIES StepLaw
CHECK_DEADLOCK FALSE
