SPECIFICATION Spec
CONSTANTS
  MaxNC = 3
  MaxNP = 3
  MaxNB = 3
  MaxT = 2
  MaxSlackC = 1
  MaxSlackT = 1
  Atomic = FALSE
  Bug = "none"
  Emit = TRUE
INVARIANTS FootprintsAreSets NoRace JoinBeforeReturn ScheduleIndependent PerCellAndFrame FrameAlways
CHECK_DEADLOCK FALSE
