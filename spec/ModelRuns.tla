------------------------------ MODULE ModelRuns ------------------------------
(***************************************************************************)
(* Histories of  New / ApplyParameters / Run  over model objects and       *)
(* caller arrays (C06 hot-start continuity, C14 purity and causality).     *)
(*                                                                         *)
(* The kernel is uninterpreted.  Every value the code can produce gets a   *)
(* LABEL saying what it may depend on:                                     *)
(*    out(t)   = <<"out", model, P, S0, Prefix(I, t+1)>>                   *)
(*    state(b) = <<"st",  model, P, S0, Prefix(I, b)>>                     *)
(* i.e. only the parameter CONTENT P, the initial-state CONTENT S0 and the *)
(* input series up to and including t -- not the object, not its past, not *)
(* other objects or globals, not later inputs (C14) -- and a run resumed   *)
(* from state(a) continues the same labels as the uninterrupted run (C06:  *)
(* K*(K*(s,x),y) = K*(s, x o y), an axiom of the specification and hence   *)
(* an obligation on every real kernel, discharged by the replay engine:    *)
(* all observations with equal labels must be equal).                      *)
(*                                                                         *)
(* Input variants: variant 1 is the base series of length T; variant       *)
(* <<"sfx", c>> agrees with it on [0, c) and differs afterwards;           *)
(* <<"cut", c>> is the base series truncated to length c.  Prefix(I, n)    *)
(* is canonical: two variants that agree on [0, n) give the same value.    *)
(***************************************************************************)
EXTENDS Integers, Sequences, FiniteSets, TLC, Json

CONSTANTS T,            \* length of the base input series
          Objs,         \* model objects, e.g. {1, 2}
          PVars,        \* parameter content variants, e.g. {1, 2}
          CutPoints,    \* subset of 1..T-1 used for "sfx"/"cut" input variants
          MaxOps,       \* bound on the number of actions in a history
          Splits,       \* BOOLEAN: Run may cover a proper segment [a,b) and resume (C06)
          S0Kinds,      \* where a whole run takes its initial states from: "given" (a caller array with fixed
                        \* content) and/or "init" (obj.InitialiseStates(1) of the object being run)
          HandOvers,    \* hand-over modes at a resume: subset of {"inplace", "copygo", "copyc"}
          OutKinds,     \* what the caller's OUTPUT array holds when a whole run starts: "zero" (a fresh array) and/or "used"
                        \* (whatever an earlier run, or malloc, left there).  It appears in the record of a run and in NO
                        \* label: results are a function of parameters, initial states and inputs only (OutputContentIrrelevant)
          Emit

VARIABLES obj,      \* Objs -> [params: 0 | p]  (0 = ApplyParameters not called yet); DOMAIN = created objects
          chain,    \* the split run in progress: [o, p, iv, pos] or <<>>  (C06)
          hist, nops, done
vars == <<obj, chain, hist, nops, done>>

IVars == {<<"base", T>>} \cup {<<"sfx", c>> : c \in CutPoints} \cup {<<"cut", c>> : c \in CutPoints}
LenOf(iv) == IF iv[1] = "cut" THEN iv[2] ELSE T
\* canonical name of the first n timesteps of variant iv
Prefix(iv, n) == IF iv[1] = "base" \/ n <= iv[2] THEN <<"base", n>> ELSE <<iv[1], iv[2], n>>

OutLabel(p, s0, iv, t) == <<"out", p, s0, Prefix(iv, t + 1)>>
StLabel(p, s0, iv, b) == <<"st", p, s0, Prefix(iv, b)>>

Init == /\ obj = <<>> /\ chain = <<>> /\ hist = <<>> /\ nops = 0 /\ done = FALSE

\* in split mode a history ends with one completed chain
ChainJustCompleted == Splits /\ hist # <<>> /\ hist[Len(hist)].op = "run" /\ hist[Len(hist)].a > 0 /\ hist[Len(hist)].b = T

Log(rec) == /\ hist' = Append(hist, rec) /\ nops' = nops + 1

\* In split mode the preamble is canonical (new 1, apply 1 [, new 2, apply 2]): the order of set-up
\* actions is explored by the history configuration, not again for every split schedule.
New == /\ ~done /\ nops < MaxOps /\ chain = <<>> /\ ~ChainJustCompleted
       /\ (Splits => \A x \in DOMAIN obj : obj[x].params # 0)
       /\ \E o \in Objs \ DOMAIN obj :
            /\ o = Cardinality(DOMAIN obj) + 1          \* symmetry: objects are created in order
            /\ obj' = [x \in DOMAIN obj \cup {o} |-> IF x = o THEN [params |-> 0] ELSE obj[x]]
            /\ Log([op |-> "new", o |-> o])
       /\ UNCHANGED <<chain, done>>

Apply == /\ ~done /\ nops < MaxOps /\ chain = <<>> /\ ~ChainJustCompleted
         /\ \E o \in DOMAIN obj, p \in PVars :
              /\ (Splits => obj[o].params = 0)
              /\ obj' = [obj EXCEPT ![o].params = p]
              /\ Log([op |-> "apply", o |-> o, p |-> p])
         /\ UNCHANGED <<chain, done>>

\* a whole run [0, len) from the initial states: every output and the final state are observed
RunWhole ==
    /\ ~done /\ nops < MaxOps /\ chain = <<>> /\ ~Splits
    /\ \E o \in DOMAIN obj, iv \in IVars, s0 \in S0Kinds, o0 \in OutKinds :
         /\ obj[o].params # 0
         /\ Log([op |-> "run", o |-> o, iv |-> iv, a |-> 0, b |-> LenOf(iv), handover |-> "none", s0 |-> s0, o0 |-> o0,
                 outs |-> [t \in 1..LenOf(iv) |-> OutLabel(obj[o].params, s0, iv, t - 1)],
                 st |-> StLabel(obj[o].params, s0, iv, LenOf(iv))])
    /\ UNCHANGED <<obj, chain, done>>

\* a split run (C06): segment [a, b) resumed from the states returned by the previous segment,
\* handed over in one of the modes; the object may be the same or another one with the same parameters
RunSegment ==
    /\ Splits /\ ~done /\ nops < MaxOps /\ ~ChainJustCompleted
    /\ \E o \in DOMAIN obj :
         /\ obj[o].params # 0
         /\ \/ /\ chain = <<>>                       \* first segment: from the initial states
               /\ \E b \in 1..(T - 1) :
                    /\ chain' = [p |-> obj[o].params, pos |-> b]
                    /\ Log([op |-> "run", o |-> o, iv |-> <<"base", T>>, a |-> 0, b |-> b, handover |-> "none", s0 |-> "given", o0 |-> "zero",
                            outs |-> [t \in 1..b |-> OutLabel(obj[o].params, "given", <<"base", T>>, t - 1)],
                            st |-> StLabel(obj[o].params, "given", <<"base", T>>, b)])
            \/ /\ chain # <<>> /\ chain.p = obj[o].params
               /\ \E b \in (chain.pos + 1)..T, h \in HandOvers :
                    /\ chain' = IF b = T THEN <<>> ELSE [chain EXCEPT !.pos = b]
                    /\ Log([op |-> "run", o |-> o, iv |-> <<"base", T>>, a |-> chain.pos, b |-> b, handover |-> h, s0 |-> "given", o0 |-> "zero",
                            outs |-> [t \in 1..(b - chain.pos) |-> OutLabel(obj[o].params, "given", <<"base", T>>, chain.pos + t - 1)],
                            st |-> StLabel(obj[o].params, "given", <<"base", T>>, b)])
    /\ UNCHANGED <<obj, done>>

\* some other catalogued model is run in between (it must leave no trace: no label mentions it)
Other == /\ ~done /\ nops < MaxOps /\ chain = <<>> /\ ~Splits
         /\ hist # <<>> /\ hist[Len(hist)].op # "other"
         /\ Log([op |-> "other"])
         /\ UNCHANGED <<obj, chain, done>>

Finish == /\ ~done /\ chain = <<>> /\ (nops = MaxOps \/ ChainJustCompleted)
          /\ done' = TRUE
          /\ (Emit => PrintT(ToJson([history |-> hist])))
          /\ UNCHANGED <<obj, chain, hist, nops>>

Next == New \/ Apply \/ RunWhole \/ RunSegment \/ Other \/ Finish
Spec == Init /\ [][Next]_vars

---------------------------------------------------------------------------
(* What TLC decides on the specification (sanity of the labelling and of the segmentation) *)

Runs == {k \in 1..Len(hist) : hist[k].op = "run"}

\* C14 causality: outputs up to the cut point of a changed/truncated series carry the labels of the base series
Causal == \A k \in Runs : \A t \in 1..Len(hist[k].outs) :
             LET iv == hist[k].iv IN
             (iv[1] # "base" /\ hist[k].a + t <= iv[2]) =>
                 hist[k].outs[t] = OutLabel(hist[k].outs[t][2], hist[k].s0, <<"base", T>>, hist[k].a + t - 1)

\* C14 purity: a label never mentions an object or a position in the history
\* two whole runs that agree on parameter content, initial-state source and input variant carry the same labels whatever
\* their output arrays held before
OutputContentIrrelevant == \A k, l \in Runs :
    (hist[k].a = 0 /\ hist[l].a = 0 /\ hist[k].b = LenOf(hist[k].iv) /\ hist[l].b = LenOf(hist[l].iv)
       /\ hist[k].iv = hist[l].iv /\ hist[k].s0 = hist[l].s0 /\ hist[k].outs[1][2] = hist[l].outs[1][2])
    => (hist[k].outs = hist[l].outs /\ hist[k].st = hist[l].st)

PureLabels == \A k \in Runs : \A t \in 1..Len(hist[k].outs) : Len(hist[k].outs[t]) = 4 /\ hist[k].outs[t][1] = "out"

\* C06: consecutive segments tile the period: every timestep's output is produced exactly once, in order,
\* and a completed chain ends with the state label of the uninterrupted run
RECURSIVE SegmentsFrom(_, _)
SegmentsFrom(k, pos) ==   \* positions covered by the chain of split runs that starts at history index k
    IF k > Len(hist) \/ hist[k].op # "run" \/ hist[k].a # pos THEN pos
    ELSE IF hist[k].b = T THEN T ELSE SegmentsFrom(k + 1, hist[k].b)
Tiling == \A k \in Runs :
             (hist[k].a = 0 /\ hist[k].b < T /\ hist[k].iv = <<"base", T>> /\ chain = <<>> /\ Splits) =>
                 SegmentsFrom(k, 0) = T
SegmentLabels == \A k \in Runs : \A t \in 1..Len(hist[k].outs) :
                    hist[k].outs[t][4] = Prefix(hist[k].iv, hist[k].a + t)
=============================================================================
