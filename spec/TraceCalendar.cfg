SPECIFICATION TraceSpec
INVARIANTS TypeOK DoyDef
POSTCONDITION TraceAccepted
CHECK_DEADLOCK FALSE
