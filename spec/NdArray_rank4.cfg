\* four-dimensional stores (explored by random simulation: the exhaustive tree has 4 million leaves): one or two nested slices (steps 1, 2), then one Set through any view
SPECIFICATION Spec
CONSTANTS
  Shapes <- ShapesR4
  StepVals <- Steps12
  Broadcast = FALSE
  MaxSlices = 2
  MaxWrites = 1
  MaxReshapes = 0
  WriteOps = {"set"}
  AllowNil = FALSE
  ChainOnly = TRUE
  WriteNewest = FALSE
  AllowReduce = FALSE
  AllowCopy = FALSE
  EarlyStop = FALSE
  Emit = TRUE
INVARIANTS ViewsOK Compose ContigIsRun Live
PROPERTIES ViewOpsPure FootprintExact
CHECK_DEADLOCK FALSE
