SPECIFICATION Spec
CONSTANTS
  Models = {"InstreamFineSediment"}
  Grid = "small"
  Emit = TRUE
INVARIANTS MassConserved ConstituentNonNegative FlushOnlyWhenEmpty FineStoreBounds FineFlushOnlyWhenDry
CHECK_DEADLOCK FALSE
