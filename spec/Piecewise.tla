------------------------------ MODULE Piecewise ------------------------------
(***************************************************************************)
(* Piecewise-linear table lookup (util/fn Piecewise, C18): for a strictly  *)
(* increasing knot table xs with values ys, the result at x is the table   *)
(* value at a knot, the linear interpolant between neighbouring knots, and *)
(* an ERROR -- never a number -- outside the table or for not-a-number.    *)
(* Knots and values are integers, queries are multiples of 1/2 (plus the   *)
(* special query "nan"); results are exact rationals <<num, den>>.         *)
(***************************************************************************)
EXTENDS Integers, Sequences, FiniteSets, TLC, Json

CONSTANTS MaxLen, MaxKnot, YVals, Emit
VARIABLES xs, ys, q, emitted
vars == <<xs, ys, q, emitted>>

Increasing(s) == \A i \in 1..(Len(s) - 1) : s[i] < s[i + 1]
Tables == UNION {{s \in [1..n -> 0..MaxKnot] : Increasing(s)} : n \in 2..MaxLen}
\* queries in half units: q = 2*x, from one below the first knot to one above the last; or "nan"
Queries(s) == (2 * s[1] - 2)..(2 * s[Len(s)] + 2)

RECURSIVE Bracket(_, _, _)
Bracket(x2, s, j) == IF x2 <= 2 * s[j] THEN j ELSE Bracket(x2, s, j + 1)
Inside(x2, s) == 2 * s[1] <= x2 /\ x2 <= 2 * s[Len(s)]
\* value at x = x2/2: y0 + (x - x0)/(x1 - x0) * (y1 - y0) = (2 y0 (x1-x0) + (x2 - 2 x0)(y1 - y0)) / (2 (x1 - x0))
Value(x2, s, y) == LET j == Bracket(x2, s, 2) IN
                   << 2 * y[j - 1] * (s[j] - s[j - 1]) + (x2 - 2 * s[j - 1]) * (y[j] - y[j - 1]), 2 * (s[j] - s[j - 1]) >>
Error == <<0, 0>>        \* denominator 0 encodes "an error, not a number"
Result(x2, s, y) == IF Inside(x2, s) THEN Value(x2, s, y) ELSE Error
NaNResult == Error       \* a not-a-number argument is outside every table

Init == /\ xs \in Tables /\ ys \in [1..Len(xs) -> YVals] /\ q = 0 /\ emitted = FALSE
Step == /\ ~emitted /\ emitted' = TRUE /\ UNCHANGED <<xs, ys, q>>
        /\ (Emit => PrintT(ToJson([piecewise |-> [xs |-> xs, ys |-> ys,
                              queries |-> [x2 \in Queries(xs) |-> Result(x2, xs, ys)],
                              first |-> 2 * xs[1] - 2, nan |-> NaNResult]])))
Spec == Init /\ [][Step]_vars

\* laws
AtKnots == \A j \in 1..Len(xs) : LET v == Value(2 * xs[j], xs, ys) IN v[1] = ys[j] * v[2]
Between == \A x2 \in Queries(xs) : Inside(x2, xs) =>
              LET j == Bracket(x2, xs, 2)  v == Value(x2, xs, ys)
                  lo == IF ys[j - 1] <= ys[j] THEN ys[j - 1] ELSE ys[j]
                  hi == IF ys[j - 1] <= ys[j] THEN ys[j] ELSE ys[j - 1]
              IN lo * v[2] <= v[1] /\ v[1] <= hi * v[2]
ErrorOutside == \A x2 \in Queries(xs) : (~Inside(x2, xs) <=> Result(x2, xs, ys)[2] = 0)
=============================================================================
