\* all graphs: <= 2 model types out of 4 kinds, <= 2 generations, <= 2 nodes per (model, generation), <= 2 links
SPECIFICATION Spec
CONSTANTS
  Kinds = {"Sum", "FixedPartition", "Muskingum"}
  MaxModels = 2
  MaxGen = 2
  MaxPerGen = 2
  MaxLinks = 2
  T = 3
  Emit = TRUE
INVARIANTS LinkOrderIrrelevant
CHECK_DEADLOCK FALSE
