----------------------------- MODULE TraceRunoff -----------------------------
(***************************************************************************)
(* Rainfall-runoff models (GR4J, Sacramento, Simhyd, Surm,                 *)
(* RunoffCoefficient; C10) as laws over observed timesteps.                *)
(* The engine runs the real models on seeded cases (parameters in the      *)
(* physically meaningful ranges, non-negative rainfall / PET with long dry *)
(* spells and extreme storms, initial states as produced by the model) and *)
(* logs per timestep, RANK-encoded among the floats of the case (order-    *)
(* isomorphic; no arithmetic is done on ranks):                            *)
(*   minout       the smallest output of the timestep;  zero: rank of 0.0  *)
(*   stores, caps the stores that have a capacity and the capacity of each *)
(*                (the largest float where a store has no upper bound)     *)
(*   compresid    | total - (quick/surface flow + baseflow) |, comptol its *)
(*                round-off allowance                                      *)
(*   cumout       cumulative runoff (+ reported actual ET) so far          *)
(*   cumin        cumulative rainfall (+ initial storage = 0: the model's  *)
(*                own initial states are empty stores) + round-off         *)
(*   closeresid   GR4J, no exchange, no PET: | rain - runoff - stored |    *)
(* Laws (C10): outputs finite and non-negative; every store within         *)
(* [0, capacity]; components add up to the total; no water is created;     *)
(* the GR4J balance closes.  Failures are collected, not blocking.         *)
(***************************************************************************)
EXTENDS Integers, Sequences, TLC, Json

Trace == ndJsonDeserialize("trace.ndjson")
VARIABLES l, zero, viol, reported
vars == <<l, zero, viol, reported>>
E == Trace[l]

Init == l = 1 /\ zero = 0 /\ viol = {} /\ reported = FALSE
Case == /\ l <= Len(Trace) /\ E.ev = "case" /\ zero' = E.zero /\ l' = l + 1 /\ UNCHANGED <<viol, reported>>

Finite(e) == e.finite
NonNegative(e) == e.minout >= zero
StoresBounded(e) == \A k \in 1..Len(e.stores) : e.stores[k] >= zero /\ e.stores[k] <= e.caps[k]
ComponentsAddUp(e) == e.compchecked => e.compresid <= e.comptol
NoWaterCreated(e) == e.budgetchecked => e.cumout <= e.cumin
BalanceCloses(e) == e.closechecked => e.closeresid <= e.closetol

Step == /\ l <= Len(Trace) /\ E.ev = "step"
        /\ viol' = viol \cup (IF Finite(E) THEN {} ELSE {<<l, "finite">>})
                        \cup (IF ~Finite(E) \/ NonNegative(E) THEN {} ELSE {<<l, "negative">>})
                        \cup (IF ~Finite(E) \/ StoresBounded(E) THEN {} ELSE {<<l, "stores">>})
                        \cup (IF ~Finite(E) \/ ComponentsAddUp(E) THEN {} ELSE {<<l, "components">>})
                        \cup (IF ~Finite(E) \/ NoWaterCreated(E) THEN {} ELSE {<<l, "watercreated">>})
                        \cup (IF ~Finite(E) \/ BalanceCloses(E) THEN {} ELSE {<<l, "closure">>})
        /\ l' = l + 1 /\ UNCHANGED <<zero, reported>>
Report == /\ l = Len(Trace) + 1 /\ ~reported /\ reported' = TRUE
          /\ PrintT(<<"LAW_VIOLATIONS", viol>>)
          /\ UNCHANGED <<l, zero, viol>>
Next == Case \/ Step \/ Report
Spec == Init /\ [][Next]_vars
TraceAccepted ==
    LET n == TLCGet("stats").diameter - 2 IN
    /\ PrintT(<<"TRACE_CONSUMED", n, Len(Trace)>>)
    /\ n = Len(Trace)
=============================================================================
