SPECIFICATION Spec
CONSTANTS
  StartYears = {1, 4, 100, 400, 1582, 1600, 1900, 2100, 9999}
  SpanYears = 1
  Emit = TRUE
INVARIANTS TypeOK DoyDef DoyOneIffNewYear DoyLastIffNYE
PROPERTIES StepLaw
CHECK_DEADLOCK FALSE
