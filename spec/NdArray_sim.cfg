\* random deep behaviours (tlc -simulate): larger stores, 3 views, reshapes, several writes
SPECIFICATION Spec
CONSTANTS
  Shapes <- ShapesS
  StepVals <- Steps12
  Broadcast = FALSE
  MaxSlices = 3
  MaxWrites = 4
  MaxReshapes = 1
  WriteOps <- AllWrites
  AllowNil = TRUE
  ChainOnly = FALSE
  WriteNewest = FALSE
  AllowReduce = FALSE
  AllowCopy = FALSE
  EarlyStop = TRUE
  Emit = TRUE
INVARIANTS ViewsOK Compose ContigIsRun Live
PROPERTIES ViewOpsPure FootprintExact
CHECK_DEADLOCK FALSE
