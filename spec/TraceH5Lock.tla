----------------------------- MODULE TraceH5Lock -----------------------------
(* B2 for the locking half of C08: events recorded from the REAL package io under concurrent callers --  *)
(* lock hooks (fired inside the critical section: after acquire, before release) and enter/exit of every *)
(* call into the (fake) HDF5 library, each with the goroutine that made it, in one total order -- must    *)
(* be a behaviour of H5Lock.  A library call outside the lock, a write-class call under the read lock, or *)
(* lock states no RW mutex can produce make the trace unexplainable.                                     *)
EXTENDS H5Lock, Sequences, Json

Trace == ndJsonDeserialize("trace.ndjson")
VARIABLE l
E == Trace[l]
Is(k) == l <= Len(Trace) /\ E.ev = k
Adv == l' = l + 1

TraceInit == Init /\ l = 1
TraceNext ==
    \/ (Is("rlock") /\ RLock(E.g) /\ Adv)
    \/ (Is("lock") /\ Lock(E.g) /\ Adv)
    \/ (Is("runlock") /\ RUnlock(E.g) /\ Adv)
    \/ (Is("unlock") /\ Unlock(E.g) /\ Adv)
    \/ (Is("enter") /\ Enter(E.g, E.class) /\ Adv)
    \/ (Is("exit") /\ Exit(E.g) /\ Adv)
    \* configuration calls made before any goroutine exists are exempt by name
    \/ (Is("config") /\ UNCHANGED vars /\ Adv)
TraceSpec == TraceInit /\ [][TraceNext]_<<vars, l>>

TraceAccepted ==
    LET n == TLCGet("stats").diameter - 1 IN
    /\ PrintT(<<"TRACE_CONSUMED", n, Len(Trace)>>)
    /\ n = Len(Trace)
=============================================================================
