------------------------------ MODULE Calendar ------------------------------
(***************************************************************************)
(* The proleptic Gregorian calendar as a state machine: one state per day, *)
(* one step per timestep of the DateGenerator model (C19).                 *)
(* Written from the calendar rules, not from models/functions/dates.go.    *)
(*                                                                         *)
(*  - Calendar.cfg       : exhaustive over a full 400-year cycle           *)
(*                         (146 097 days + the first day after), checks    *)
(*                         the invariants and cycle-length facts, and      *)
(*                         emits the successor table that is replayed into *)
(*                         the real model (binding B1).                    *)
(*  - Calendar_edge.cfg  : boundary years 1, 4, 100, 400, 1600, 1900,      *)
(*                         2100, 9999 (one year each).                     *)
(*  - TraceCalendar.tla  : validates recorded runs of the real model       *)
(*                         against Next (binding B2).                      *)
(***************************************************************************)
EXTENDS Integers, Sequences, TLC

CONSTANTS StartYears,   \* set of years y: the behaviour starts on 1 Jan y
          SpanYears,    \* number of years generated from each start
          Emit          \* BOOLEAN: print the successor table

VARIABLES d, m, y, doy, y0   \* y0: start year of this behaviour (bounds it)
vars == <<d, m, y, doy, y0>>

Leap(yy) == (yy % 4 = 0) /\ ((yy % 100 # 0) \/ (yy % 400 = 0))

DaysIn(mm, yy) ==
    IF mm = 2 THEN (IF Leap(yy) THEN 29 ELSE 28)
    ELSE IF mm \in {4, 6, 9, 11} THEN 30 ELSE 31

RECURSIVE DaysBefore(_, _)
DaysBefore(mm, yy) == IF mm = 1 THEN 0 ELSE DaysBefore(mm - 1, yy) + DaysIn(mm - 1, yy)

YearLen(yy) == IF Leap(yy) THEN 366 ELSE 365

\* every century year of the four-digit range (for Calendar_centuries.cfg): the rule has period 400, nothing else
CenturyYears == {yy \in 1..9999 : yy % 100 = 0} \cup {yy \in 1..9999 : yy % 1000 \in {1, 999}}

Init == /\ y0 \in StartYears
        /\ y = y0 /\ m = 1 /\ d = 1 /\ doy = 1

\* The Gregorian successor, as an operator so that the trace spec can reuse it.
SuccDay(dd, mm, yy) ==
    IF dd < DaysIn(mm, yy) THEN <<dd + 1, mm, yy>>
    ELSE IF mm < 12 THEN <<1, mm + 1, yy>>
    ELSE <<1, 1, yy + 1>>

Step ==
    LET s == SuccDay(d, m, y) IN
    /\ d' = s[1] /\ m' = s[2] /\ y' = s[3]
    /\ doy' = DaysBefore(s[2], s[3]) + s[1]
    /\ y0' = y0

Next == /\ y < y0 + SpanYears
        /\ Step
        /\ (Emit => PrintT(<<"SUCC", y, m, d, doy, y', m', d', doy'>>))

Spec == Init /\ [][Next]_vars

---------------------------------------------------------------------------
TypeOK == /\ m \in 1..12 /\ d \in 1..DaysIn(m, y) /\ doy \in 1..YearLen(y)

DoyDef == doy = DaysBefore(m, y) + d
DoyOneIffNewYear == (doy = 1) <=> (d = 1 /\ m = 1)
DoyLastIffNYE == (doy = YearLen(y)) <=> (d = 31 /\ m = 12)

\* 31 Dec is followed by 1 Jan of y+1; doy increases by one inside a year.
StepLaw == [][ /\ ((d = 31 /\ m = 12) => (d' = 1 /\ m' = 1 /\ y' = y + 1 /\ doy' = 1))
               /\ (~(d = 31 /\ m = 12) => (y' = y /\ doy' = doy + 1))
               /\ ((d' = 1) \/ (d' = d + 1 /\ m' = m)) ]_vars

\* number of days since 1 Jan y0, computed independently of the walk (closed form):
\* used to check the cycle length 146 097 = 400*365 + 97.
LeapsBefore(yy) == (yy - 1) \div 4 - (yy - 1) \div 100 + (yy - 1) \div 400
DayNumber(dd, mm, yy) == 365 * (yy - 1) + LeapsBefore(yy) + DaysBefore(mm, yy) + dd
CycleLaw == (y = y0 + 400 /\ m = 1 /\ d = 1) =>
               DayNumber(d, m, y) - DayNumber(1, 1, y0) = 146097
=============================================================================
