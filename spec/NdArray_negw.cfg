\* one view with NEGATIVE steps, then every kind of write through it (single element, 1-D run with negative step, sub-array, whole-array copy, two-array helpers)
SPECIFICATION Spec
CONSTANTS
  Shapes <- ShapesN
  StepVals <- StepsNeg
  Broadcast = FALSE
  MaxSlices = 1
  MaxWrites = 1
  MaxReshapes = 0
  WriteOps <- AllWrites
  AllowNil = FALSE
  ChainOnly = TRUE
  WriteNewest = TRUE
  AllowReduce = FALSE
  AllowCopy = FALSE
  EarlyStop = FALSE
  Emit = TRUE
INVARIANTS ViewsOK Compose ContigIsRun Live
PROPERTIES ViewOpsPure FootprintExact
CHECK_DEADLOCK FALSE
