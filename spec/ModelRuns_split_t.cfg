\* C06: every composition of T=5 into consecutive segments, every hand-over mode at every boundary,
\* same object or a second object with the same parameters
SPECIFICATION Spec
CONSTANTS
  T = 7
  Objs = {1}
  PVars = {1}
  CutPoints = {}
  MaxOps = 11
  Splits = TRUE
  S0Kinds = {"given"}
  HandOvers = {"inplace", "copygo", "copyc"}
  OutKinds = {"zero"}
  Emit = TRUE
INVARIANTS Causal PureLabels Tiling SegmentLabels
CHECK_DEADLOCK FALSE
