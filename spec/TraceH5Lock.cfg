SPECIFICATION TraceSpec
CONSTANTS
  Callers = {"g1", "g2", "g3", "g4", "g5", "g6", "g7", "g8"}
  MaxCalls = 1000000
INVARIANTS NoWriteOverlap CallsUnderLock WriterExclusive
POSTCONDITION TraceAccepted
CHECK_DEADLOCK FALSE
