------------------------------ MODULE MCNdArray ------------------------------
(* Model-checking / case-generation instances of NdArray (constants as operators). *)
EXTENDS NdArray

AllShapes(maxRank, maxExt, maxCells) ==
    {s \in UNION {[1..r -> 1..maxExt] : r \in 1..maxRank} : Prod(s) <= maxCells}

\* quick: every shape of rank 1-3 with extents <= 3 and at most 12 cells
ShapesQ  == AllShapes(3, 3, 12)
\* write-heavy configurations: smaller stores, every rank still present
ShapesW  == {s \in AllShapes(3, 3, 8) : Prod(s) >= 2}
\* thorough: extents up to 4, up to 36 cells
ShapesT  == AllShapes(3, 4, 16)
ShapesTW == {s \in AllShapes(3, 3, 9) : Prod(s) >= 2}
ShapesV3 == AllShapes(3, 3, 8)
\* simulation: large
ShapesS  == {s \in AllShapes(3, 4, 16) : Prod(s) >= 4}
\* representative small stores for exhaustive write enumeration (every rank, a 1-wide dimension,
\* an extent of 3 so that a stepped parent has a child at a non-zero location)
ShapesW1 == {<<3>>, <<2, 3>>, <<3, 1>>, <<2, 1, 2>>}
ShapesW2 == {<<4>>, <<3, 2>>}
ShapesA  == {<<4>>, <<2, 2>>, <<3, 2>>, <<2, 1, 2>>}
ShapesR  == {<<2, 3>>, <<2, 2, 2>>}
Steps12  == {1, 2}
Steps123 == {1, 2, 3}
Steps01  == {0, 1}
StepsNeg == {-2, -1, 1}
ShapesN  == {<<4>>, <<2, 3>>}
ShapesB  == {<<2, 2>>, <<3, 1>>}
ShapesZ  == {<<2, 3>>, <<3, 1>>, <<2, 1, 2>>}
\* sibling views of one store as source and destination of a whole-array operation (same origin and shape but
\* different steps, rows against columns, overlapping blocks): needs an extent of 3 in two dimensions
ShapesSib == {<<5>>, <<3, 3>>}
\* two consecutive writes through the same view objects (whatever an object remembers from its first use)
ShapesTwo == {<<4>>, <<2, 2>>, <<2, 3>>}
\* arrays of FOUR dimensions (the statement says "1-3+ dims"; index arithmetic written out for ranks 1-3 with a generic
\* tail is only reached here): a stepped fourth axis needs an extent of 3 there
ShapesR4 == {<<2, 1, 2, 3>>, <<1, 2, 2, 4>>}
AllWrites == {"set", "apply", "applyslice", "copyfrom", "twoarray"}
=============================================================================
