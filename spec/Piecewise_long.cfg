SPECIFICATION LongSpec
CONSTANTS
  MaxLen = 2
  MaxKnot = 1
  YVals = {0, 1, 2, 3, 7}
  Emit = TRUE
INVARIANTS AtKnots Between ErrorOutside
CHECK_DEADLOCK FALSE
