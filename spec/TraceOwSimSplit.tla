--------------------------- MODULE TraceOwSimSplit ---------------------------
(* B2 for the split-output path of ow-sim (C07, ow-sim half of C05): the hand-over events that the hooks of the REAL   *)
(* simulation process and of its REAL `-writer` child process append to ONE shared log (each line one write on a       *)
(* descriptor opened O_APPEND, so the file order is a total order of both processes' events that respects causality)   *)
(* must be a behaviour of OwSimSplit with WaitAtExit = TRUE.  Line 1 is a config record written by the harness: the    *)
(* generations, how many cells of the split model each has, and the row each generation's block starts at.             *)
(*                                                                                                                      *)
(* Grain of atomicity.  Logged: psendbegin g (before the two Writes of a frame) = PNext for a generation with cells;    *)
(* psendend g (both Writes have returned) = PMsgDone; pclose = PClose; pwaitend = PWait; mainexit = PExit; cframe loc   *)
(* (the child has read and decoded a whole frame) = the ChReadMsg step that completes the frame; cwritten loc = ChWrite; *)
(* cexit = ChEof (trunc 0) or ChTrunc (trunc 1).  Not loggable (no hook can sit in os/exec's copier, inside a blocked   *)
(* Write or ReadFull): PNext for a generation without cells, PHdrDone, PDrained, CRead, CWrite, CEof, ChReadHdr and the *)
(* ChReadMsg steps that leave a frame incomplete -- taken silently.  Frame sizes are abstracted to one message unit and *)
(* the OS pipe is given room for every frame (how much the kernel buffers is not ow-sim's business).                    *)
EXTENDS OwSimSplit, Json

Trace == ndJsonDeserialize("trace.ndjson")
Cfg == Trace[1]
TNGen == Cfg.ngen
TSizeChoices == {[g \in 0..(TNGen - 1) |-> IF Cfg.counts[g + 1] > 0 THEN 1 ELSE 0]}
TCap == 2 * TNGen + 2
Loc(g) == Cfg.locs[g + 1]

VARIABLE l
tvars == <<vars, l>>
E == Trace[l]
Is(k) == l <= Len(Trace) /\ E.ev = k
Adv == l' = l + 1

TraceInit == Init /\ l = 2 /\ TLCSet(1, 0)

Logged ==
    \/ (Is("psendbegin") /\ pg = E.gen /\ size[pg] > 0 /\ PNext)
    \/ (Is("psendend") /\ pg = E.gen /\ PMsgDone)
    \/ (Is("pclose") /\ PClose)
    \/ (Is("pwaitend") /\ PWait)
    \/ (Is("mainexit") /\ PExit)
    \/ (Is("cframe") /\ ChReadMsg /\ cpc' = "write" /\ Loc(cgen) = E.loc)
    \/ (Is("cwritten") /\ ChWrite /\ Loc(cgen) = E.loc)
    \/ (Is("cexit") /\ E.trunc = 0 /\ ChEof)
    \/ (Is("cexit") /\ E.trunc = 1 /\ ChTrunc)
Silent ==
    \/ (pg < NGen /\ size[pg] = 0 /\ PNext)
    \/ PHdrDone \/ PDrained
    \/ CRead \/ CWrite \/ CEof
    \/ ChReadHdr
    \/ (ChReadMsg /\ cpc' = "msg")
TraceNext == (Logged /\ Adv) \/ (Silent /\ UNCHANGED l)
TraceSpec == TraceInit /\ [][TraceNext]_tvars

HW == TLCSet(1, IF l > TLCGet(1) THEN l ELSE TLCGet(1))
TraceAccepted ==
    /\ PrintT(<<"TRACE_CONSUMED", TLCGet(1) - 1, Len(Trace)>>)
    /\ TLCGet(1) - 1 = Len(Trace)
\* at the end of the log both processes are gone and everything that has cells was written
EndSeen == (l = Len(Trace) + 1) => (Done /\ Range(written) = NonEmpty)
=============================================================================
