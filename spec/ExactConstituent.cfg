SPECIFICATION Spec
CONSTANTS
  Models = {"ConstituentDecay", "StorageDissolvedDecay", "StorageTrapAll", "InstreamCoarseSediment", "InstreamParticulateNutrient", "StorageParticulateTrapping"}
  Grid = "small"
  Emit = TRUE
INVARIANTS MassConserved ConstituentNonNegative FlushOnlyWhenEmpty FineStoreBounds FineFlushOnlyWhenDry
CHECK_DEADLOCK FALSE
