SPECIFICATION Spec
CONSTANTS
  Models = {"LumpedConstituentRouting", "ConstituentDecay", "StorageDissolvedDecay", "StorageTrapAll", "InstreamCoarseSediment", "InstreamParticulateNutrient"}
  Grid = "small"
  Emit = TRUE
INVARIANTS MassConserved ConstituentNonNegative FlushOnlyWhenEmpty
CHECK_DEADLOCK FALSE
