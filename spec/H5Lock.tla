------------------------------- MODULE H5Lock -------------------------------
(***************************************************************************)
(* The locking discipline around the (non-thread-safe) HDF5 library in     *)
(* package io (C08): one package-level readers/writer lock; every library  *)
(* call is made while holding it, write-class calls (create / open for     *)
(* writing / write) exclusively.                                           *)
(*                                                                         *)
(* Callers are goroutines executing H5Ref entry points.  An entry point is *)
(* either a READ operation (Load, LoadText, Shape, GetDatasets, GetGroups, *)
(* Exists = several of those) or a WRITE operation (Write, WriteSlice,     *)
(* Create): acquire the lock in the corresponding mode, perform library    *)
(* calls (each an enter/exit pair; read operations only make read-class    *)
(* calls), release.  The lock is a Go sync.RWMutex: any number of readers  *)
(* or one writer.                                                          *)
(***************************************************************************)
EXTENDS Integers, FiniteSets, TLC

CONSTANTS Callers, MaxCalls   \* library calls per entry point (bound)

VARIABLES held,     \* caller -> "none" | "r" | "w"
          incall,   \* caller -> "none" | "read" | "write"   (class of the library call in progress)
          ncalls    \* caller -> library calls made in the current entry point
vars == <<held, incall, ncalls>>

Init == /\ held = [c \in Callers |-> "none"]
        /\ incall = [c \in Callers |-> "none"]
        /\ ncalls = [c \in Callers |-> 0]

RLock(c) == /\ held[c] = "none"
            /\ \A d \in Callers : held[d] # "w"
            /\ held' = [held EXCEPT ![c] = "r"]
            /\ UNCHANGED <<incall, ncalls>>
Lock(c) == /\ held[c] = "none"
           /\ \A d \in Callers : held[d] = "none"
           /\ held' = [held EXCEPT ![c] = "w"]
           /\ UNCHANGED <<incall, ncalls>>
RUnlock(c) == /\ held[c] = "r" /\ incall[c] = "none"
              /\ held' = [held EXCEPT ![c] = "none"]
              /\ ncalls' = [ncalls EXCEPT ![c] = 0]
              /\ UNCHANGED incall
Unlock(c) == /\ held[c] = "w" /\ incall[c] = "none"
             /\ held' = [held EXCEPT ![c] = "none"]
             /\ ncalls' = [ncalls EXCEPT ![c] = 0]
             /\ UNCHANGED incall
\* a library call of class k; the DISCIPLINE: only under the lock, write-class only under the write lock
Enter(c, k) == /\ incall[c] = "none"
               /\ held[c] # "none"
               /\ (k = "write" => held[c] = "w")
               /\ incall' = [incall EXCEPT ![c] = k]
               /\ ncalls' = [ncalls EXCEPT ![c] = @ + 1]
               /\ UNCHANGED held
Exit(c) == /\ incall[c] # "none"
           /\ incall' = [incall EXCEPT ![c] = "none"]
           /\ UNCHANGED <<held, ncalls>>

Next == \E c \in Callers :
           \/ RLock(c) \/ Lock(c) \/ RUnlock(c) \/ Unlock(c) \/ Exit(c)
           \/ (ncalls[c] < MaxCalls /\ \E k \in {"read", "write"} : Enter(c, k))
Spec == Init /\ [][Next]_vars

\* What the discipline buys (C08): a write-class library call never overlaps any other library call,
\* and no library call is ever made outside the lock.
NoWriteOverlap == \A c, d \in Callers : (c # d /\ incall[c] = "write") => incall[d] = "none"
CallsUnderLock == \A c \in Callers : incall[c] # "none" => held[c] # "none"
WriterExclusive == \A c, d \in Callers : (c # d /\ held[c] = "w") => held[d] = "none"
=============================================================================
