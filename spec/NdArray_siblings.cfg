\* two slices (siblings or nested) of one store, then ONE whole-array operation whose source is another live view
SPECIFICATION Spec
CONSTANTS
  Shapes <- ShapesSib
  StepVals <- Steps12
  Broadcast = FALSE
  MaxSlices = 2
  MaxWrites = 1
  MaxReshapes = 0
  WriteOps = {"copyview", "twoview"}
  AllowNil = FALSE
  ChainOnly = FALSE
  WriteNewest = FALSE
  AllowReduce = FALSE
  AllowCopy = FALSE
  EarlyStop = FALSE
  Emit = TRUE
INVARIANTS ViewsOK Compose ContigIsRun Live
PROPERTIES ViewOpsPure FootprintExact
CHECK_DEADLOCK FALSE
