\* a table-parameter model (2- and 3-point tables side by side) feeding a Sum
SPECIFICATION Spec
CONSTANTS
  Kinds = {"Sum", "RatingCurvePartition"}
  MaxModels = 2
  MaxGen = 2
  MaxPerGen = 2
  MaxLinks = 2
  T = 2
  Emit = TRUE
INVARIANTS LinkOrderIrrelevant SelectionLocal
CHECK_DEADLOCK FALSE
