------------------------------- MODULE NdArray -------------------------------
(***************************************************************************)
(* Strided n-dimensional views over shared storage (C01, C02, C03a).       *)
(*                                                                         *)
(* Abstract state, deliberately definitional:                              *)
(*   stores : sequence of stores, a store is a sequence of values          *)
(*   views  : sequence of views, a view is                                 *)
(*              [sid, shape, offs]  where offs is the ROW-MAJOR sequence   *)
(*              of (0-based) storage offsets of the view's elements:       *)
(*              element idx of the view is stores[sid][offs[Pos(idx)]+1].  *)
(* A slice is defined pointwise ("element i of slice(loc,dims,step) is     *)
(* element loc + i*step of its parent"), not through a stride algebra.     *)
(* The stride algebra (start, strides composed along a chain) is carried   *)
(* next to it in `aff` and TLC checks as an invariant that both agree      *)
(* (composition theorem) -- see Compose.                                   *)
(*                                                                         *)
(* Every public array operation of openwater-core's data package that      *)
(* changes what can be observed later is one action; pure observations     *)
(* (Get*, Unroll, Contiguous, Maximum, Minimum, Reshape-to-a-copy, the     *)
(* error cases of Reshape/ReshapeFast, Shape, Len, NDims) are functions of *)
(* (view, store) and are defined as operators below; the replay engine     *)
(* evaluates them against the real code after EVERY step for EVERY view.   *)
(*                                                                         *)
(* `hist` records the behaviour so that TLC can hand it to the real code   *)
(* (binding B1).  It makes every state distinct, i.e. the state graph is   *)
(* the tree of behaviours; the terminal action Finish prints one JSON      *)
(* line per behaviour.                                                     *)
(***************************************************************************)
EXTENDS Integers, Sequences, FiniteSets, TLC, Json

CONSTANTS
    Shapes,       \* set of shapes (sequences of positive extents) for NewArray
    Broadcast,    \* TRUE: zero steps over extents > 1 (broadcast views)
    StepVals,     \* step values offered to Slice/Apply/ApplySlice, e.g. {1,2}
    MaxSlices,    \* bound on Slice actions per behaviour
    MaxWrites,    \* bound on write actions per behaviour
    MaxReshapes,  \* bound on aliasing Reshape actions per behaviour
    WriteOps,     \* subset of {"set","apply","applyslice","copyfrom","twoarray"}
    AllowNil,     \* BOOLEAN: also generate the step = nil variant of unit-step slices
    ChainOnly,    \* BOOLEAN: Slice/Reshape only the newest view (chains instead of trees of views)
    WriteNewest,  \* BOOLEAN: writes go through the newest view only (else through any live view)
    AllowReduce,  \* BOOLEAN: offer rank-reducing slices (trailing dimensions pinned)
    AllowCopy,    \* BOOLEAN: offer ReshapeCopy (detached copy of a non-contiguous view; C03 lock-step only)
    EarlyStop,    \* BOOLEAN: Finish may be taken before the bounds are exhausted (simulation)
    Emit          \* BOOLEAN: Finish prints the behaviour as JSON

VARIABLES stores, views, fresh, nS, nW, nR, hist, done
vars == <<stores, views, fresh, nS, nW, nR, hist, done>>

---------------------------------------------------------------------------
(* index arithmetic, from first principles *)

RECURSIVE Prod(_)
Prod(s) == IF s = <<>> THEN 1 ELSE Head(s) * Prod(Tail(s))

\* product of the extents after dimension d (row-major weight of dimension d)
Weight(shape, d) == Prod(SubSeq(shape, d + 1, Len(shape)))

\* 0-based row-major position of index tuple idx (0-based components)
RECURSIVE SumTo(_, _)
SumTo(f, n) == IF n = 0 THEN 0 ELSE f[n] + SumTo(f, n - 1)
Pos(idx, shape) == SumTo([d \in 1..Len(shape) |-> idx[d] * Weight(shape, d)], Len(shape))

\* index tuple of 0-based row-major position k
Unrank(k, shape) == [d \in 1..Len(shape) |-> (k \div Weight(shape, d)) % shape[d]]

Elem(v, idx) == stores[v.sid][v.offs[Pos(idx, v.shape) + 1] + 1]
Vals(v) == [k \in 1..Len(v.offs) |-> stores[v.sid][v.offs[k] + 1]]

\* "adjacent in storage in row-major order" (C02); single-element views are contiguous
Contig(v) == \A k \in 1..(Len(v.offs) - 1) : v.offs[k + 1] = v.offs[k] + 1

RECURSIVE SeqProd(_)   \* Cartesian product of a sequence of sets, as a set of sequences
SeqProd(ss) == IF ss = <<>> THEN {<<>>}
               ELSE {<<h>> \o t : h \in Head(ss), t \in SeqProd(Tail(ss))}

\* per-dimension selections <<loc, len, step>> that stay inside an extent
\* (a step of 0 is only meaningful for a single element: the generated wrappers write one state row with
\* ApplySlice(loc, step = <<0, 1>>, row); offered when StepVals contains 0)
\* Broadcast = TRUE also offers step 0 over an extent > 1: every index of that dimension addresses element loc
\* Negative steps (StepVals may contain them) walk a dimension backwards: element i is loc + i*step all the same
DimSel(ext) == {<<l, n, s>> \in (0..(ext - 1)) \X (1..ext) \X StepVals : l + (n - 1) * s <= ext - 1 /\ l + (n - 1) * s >= 0 /\ (s = 0 => (n = 1 \/ Broadcast))}

Col(sel, j) == [d \in 1..Len(sel) |-> sel[d][j]]

\* the pointwise definition of a slice
SliceOffs(v, sel) ==
    LET dims == Col(sel, 2) IN
    [k \in 1..Prod(dims) |->
        LET i == Unrank(k - 1, dims)
            p == [d \in 1..Len(dims) |-> sel[d][1] + i[d] * sel[d][3]]
        IN v.offs[Pos(p, v.shape) + 1]]

\* the stride algebra: start and per-dimension stride, composed along a chain
AffSlice(a, sel) ==
    [start |-> a.start + SumTo([d \in 1..Len(sel) |-> sel[d][1] * a.stride[d]], Len(sel)),
     stride |-> [d \in 1..Len(sel) |-> a.stride[d] * sel[d][3]]]
AffOffs(a, shape) ==
    [k \in 1..Prod(shape) |->
        LET i == Unrank(k - 1, shape)
        IN a.start + SumTo([d \in 1..Len(shape) |-> i[d] * a.stride[d]], Len(shape))]

RootView(s, shape) ==
    [sid |-> s, shape |-> shape, offs |-> [k \in 1..Prod(shape) |-> k - 1],
     aff |-> [start |-> 0, stride |-> [d \in 1..Len(shape) |-> Weight(shape, d)]], affine |-> TRUE]

---------------------------------------------------------------------------
Init == /\ stores = <<>> /\ views = <<>> /\ fresh = 100
        /\ nS = 0 /\ nW = 0 /\ nR = 0 /\ hist = <<>> /\ done = FALSE

Log(rec) == hist' = Append(hist, rec)
LogW(rec) == hist' = Append(hist, rec @@ [after |-> stores'])

\* NewArray(shape) filled like ARange: distinct values, value = offset
NewArray ==
    /\ stores = <<>> /\ ~done
    /\ \E shape \in Shapes :
        /\ stores' = <<[k \in 1..Prod(shape) |-> k - 1]>>
        /\ views' = <<RootView(1, shape)>>
        /\ LogW([op |-> "new", shape |-> shape])
    /\ UNCHANGED <<fresh, nS, nW, nR, done>>

ViewChoice == IF ChainOnly THEN {Len(views)} ELSE DOMAIN views
WriteChoice == IF WriteNewest THEN {Len(views)} ELSE DOMAIN views

Slice ==
    /\ stores # <<>> /\ ~done /\ nS < MaxSlices
    /\ (AllowReduce => nS < MaxSlices - 1)       \* with rank-reducing slices on, the last slice is a rank-reducing one
    /\ \E vi \in ViewChoice :
       LET v == views[vi] IN
       \E sel \in SeqProd([d \in 1..Len(v.shape) |-> DimSel(v.shape[d])]) :
       \E nil \in (IF AllowNil /\ (\A d \in 1..Len(sel) : sel[d][3] = 1) THEN BOOLEAN ELSE {FALSE}) :
         LET w == [sid |-> v.sid, shape |-> Col(sel, 2), offs |-> SliceOffs(v, sel),
                   aff |-> IF v.affine THEN AffSlice(v.aff, sel) ELSE v.aff, affine |-> v.affine]
         IN /\ views' = Append(views, w)
            /\ stores' = stores
            /\ Log([op |-> "slice", v |-> vi, loc |-> Col(sel, 1), dims |-> Col(sel, 2),
                    step |-> Col(sel, 3), nil |-> nil, w |-> Len(views) + 1,
                    offs |-> w.offs, contig |-> Contig(w)])
    /\ nS' = nS + 1
    /\ UNCHANGED <<fresh, nW, nR, done>>

\* Rank-reducing slice, the form the generated model wrappers use for table parameters:
\*   v.Slice(loc, dims, nil)  with  Len(dims) < rank(v):  the trailing dimensions are pinned at loc,
\* the result has rank Len(dims) and element i is element (loc[1..k] + i, loc[k+1..]) of v.
PinnedOffs(v, sel, pins) ==
    LET dims == Col(sel, 2) IN
    [k \in 1..Prod(dims) |->
        LET i == Unrank(k - 1, dims)
            p == [d \in 1..Len(v.shape) |-> IF d <= Len(dims) THEN sel[d][1] + i[d] ELSE pins[d - Len(dims)]]
        IN v.offs[Pos(p, v.shape) + 1]]
RankReduce ==
    /\ stores # <<>> /\ ~done /\ nS < MaxSlices /\ AllowReduce
    /\ \E vi \in ViewChoice :
       LET v == views[vi]  r == Len(v.shape) IN
       /\ r >= 2
       /\ \E keep \in 1..(r - 1) :
          \E sel \in SeqProd([d \in 1..keep |-> {x \in DimSel(v.shape[d]) : x[3] = 1}]) :
          \E pins \in SeqProd([d \in 1..(r - keep) |-> 0..(v.shape[keep + d] - 1)]) :
            LET w == [sid |-> v.sid, shape |-> Col(sel, 2), offs |-> PinnedOffs(v, sel, pins),
                      aff |-> [start |-> 0, stride |-> <<>>], affine |-> FALSE]
            IN /\ views' = Append(views, w)
               /\ stores' = stores
               /\ Log([op |-> "rankreduce", v |-> vi, loc |-> Col(sel, 1) \o pins, dims |-> Col(sel, 2),
                       w |-> Len(views) + 1, offs |-> w.offs, contig |-> Contig(w)])
    /\ nS' = MaxSlices
    /\ UNCHANGED <<fresh, nW, nR, done>>

\* Reshape / MustReshape / ReshapeFast of a CONTIGUOUS view aliases the storage (C02):
\* the result is a live view with the same row-major offsets and the new shape.
\* (Reshape of a non-contiguous view is an observation: a copy; see engine.)
ShapesOfSize(n) == {s \in Shapes : Prod(s) = n} \cup {<<n>>, <<1, n>>, <<n, 1>>}   \* reshape targets
Reshape ==
    /\ stores # <<>> /\ ~done /\ nR < MaxReshapes
    /\ \E vi \in ViewChoice :
       LET v == views[vi] IN
       /\ Contig(v)
       /\ \E ns \in ShapesOfSize(Len(v.offs)) :
          /\ ns # v.shape
          /\ LET w == [sid |-> v.sid, shape |-> ns, offs |-> v.offs,
                       aff |-> [start |-> v.offs[1], stride |-> [d \in 1..Len(ns) |-> Weight(ns, d)]],
                       affine |-> TRUE]
             IN /\ views' = Append(views, w)
                /\ stores' = stores
                /\ Log([op |-> "reshape", v |-> vi, shape |-> ns, w |-> Len(views) + 1,
                        offs |-> w.offs, contig |-> TRUE])
    /\ nR' = nR + 1
    /\ UNCHANGED <<fresh, nS, nW, done>>

\* Reshape of a NON-contiguous view: the Go-backed arrays return a detached copy (a new store holding the
\* row-major values).  C02 is silent about aliasing here, so behaviours containing this action are only
\* used for the lock-step comparison of the two back-ends (C03: observational identity).
ReshapeCopy ==
    /\ stores # <<>> /\ ~done /\ nR < MaxReshapes /\ AllowCopy
    /\ \E vi \in ViewChoice :
       LET v == views[vi] IN
       /\ ~Contig(v)
       /\ \E ns \in ShapesOfSize(Len(v.offs)) :
          LET w == RootView(Len(stores) + 1, ns) IN
          /\ stores' = Append(stores, Vals(v))
          /\ views' = Append(views, w)
          /\ hist' = Append(hist, [op |-> "reshapecopy", v |-> vi, shape |-> ns, w |-> Len(views) + 1,
                                    offs |-> w.offs, contig |-> TRUE, after |-> stores'])
    /\ nR' = nR + 1
    /\ UNCHANGED <<fresh, nS, nW, done>>

\* ---- writes.  A write is described by the sequence of (offset, value) pairs it performs in
\* row-major order of the addressed elements; applying them one by one IS the definition.
RECURSIVE ApplyWrites(_, _)
ApplyWrites(st, ws) == IF ws = <<>> THEN st
                       ELSE ApplyWrites([st EXCEPT ![Head(ws)[1] + 1] = Head(ws)[2]], Tail(ws))

FreshVals(n) == [k \in 1..n |-> fresh + k - 1]

DoWrite(vi, ws, rec) ==
    /\ stores' = [stores EXCEPT ![views[vi].sid] = ApplyWrites(@, ws)]
    /\ views' = views
    /\ fresh' = fresh + Len(ws)
    /\ nW' = nW + 1
    /\ LogW(rec @@ [v |-> vi, touched |-> {ws[k][1] : k \in 1..Len(ws)}])
    /\ UNCHANGED <<nS, nR, done>>

\* Set (and Set1/Set2/Set3 according to rank): one element
WSet ==
    /\ "set" \in WriteOps
    /\ \E vi \in WriteChoice : \E k \in 1..Len(views[vi].offs) :
        DoWrite(vi, << <<views[vi].offs[k], fresh>> >>,
                [op |-> "set", idx |-> Unrank(k - 1, views[vi].shape), val |-> fresh])

\* Apply(loc, dim, step, vals) (and Apply1 for rank 1): a 1-D run along dimension dim
WApply ==
    /\ "apply" \in WriteOps
    /\ \E vi \in WriteChoice :
       LET v == views[vi] IN
       \E dim \in 1..Len(v.shape) :
       \E k \in 1..Len(v.offs) : \E n \in 1..v.shape[dim] : \E s \in StepVals :
          LET loc == Unrank(k - 1, v.shape) IN
          /\ loc[dim] + (n - 1) * s <= v.shape[dim] - 1
          /\ loc[dim] + (n - 1) * s >= 0
          /\ (s = 0 => n = 1)
          /\ LET vals == FreshVals(n)
                 ws == [j \in 1..n |->
                          <<v.offs[Pos([loc EXCEPT ![dim] = loc[dim] + (j - 1) * s], v.shape) + 1], vals[j]>>]
             IN DoWrite(vi, ws, [op |-> "apply", loc |-> loc, dim |-> dim - 1, step |-> s, vals |-> vals])

\* Sources of two-array operations: a fresh array laid out in one of four ways, or a live view.
\*   "contig"  : a whole fresh array of the needed shape
\*   "stepped" : every second element (per dimension) of a fresh array of twice the extents
\*   "offset"  : the block at loc = 1 of a fresh array one larger in every dimension (row-gapped)
\*   "tail"    : the trailing block of a fresh array whose FIRST extent is one larger (contiguous, Start > 0)
SrcKinds == {"contig", "stepped", "offset", "tail"}

\* values delivered by a fresh source, in row-major order of the destination selection
SrcVals(n) == FreshVals(n)

\* destination selections of ApplySlice: like Slice
WApplySlice ==
    /\ "applyslice" \in WriteOps
    /\ \E vi \in WriteChoice :
       LET v == views[vi] IN
       \E sel \in SeqProd([d \in 1..Len(v.shape) |-> DimSel(v.shape[d])]) :
       \E nil \in (IF AllowNil /\ (\A d \in 1..Len(sel) : sel[d][3] = 1) THEN BOOLEAN ELSE {FALSE}) :
       \E kind \in SrcKinds :
         LET offs == SliceOffs(v, sel)
             vals == SrcVals(Len(offs))
             ws == [j \in 1..Len(offs) |-> <<offs[j], vals[j]>>]
         IN DoWrite(vi, ws, [op |-> "applyslice", loc |-> Col(sel, 1), dims |-> Col(sel, 2),
                             step |-> Col(sel, 3), nil |-> nil, src |-> kind, vals |-> vals])

\* CopyFrom(other): whole-array copy into view v from a fresh source or from a live view of equal shape
\* whose copy is insensitive to the order of element transfers (so that a memmove-style fast path and
\* the element-by-element definition cannot differ: the property does not say which one wins).
OrderInsensitive(dst, src) ==
    \/ dst.sid # src.sid
    \/ \A j, k \in 1..Len(dst.offs) : (dst.offs[j] = src.offs[k]) => (j = k)

WCopyFrom ==
    /\ ("copyfrom" \in WriteOps \/ "copyview" \in WriteOps)     \* "copyview": only the live-view sources
    /\ \E vi \in WriteChoice :
       LET v == views[vi] IN
       \/ \E kind \in SrcKinds :
            /\ "copyfrom" \in WriteOps
            /\ LET vals == SrcVals(Len(v.offs))
                   ws == [j \in 1..Len(v.offs) |-> <<v.offs[j], vals[j]>>]
               IN DoWrite(vi, ws, [op |-> "copyfrom", src |-> kind, vals |-> vals])
       \* a source SMALLER than the view (same rank) fills the leading corner: CopyFrom is ApplySlice at the origin
       \/ \E kind \in SrcKinds : \E ss \in SeqProd([d \in 1..Len(v.shape) |-> 1..v.shape[d]]) :
            /\ "copyfrom" \in WriteOps
            /\ ss # v.shape
            /\ LET offs == SliceOffs(v, [d \in 1..Len(ss) |-> <<0, ss[d], 1>>])
                   vals == SrcVals(Len(offs))
                   ws == [j \in 1..Len(offs) |-> <<offs[j], vals[j]>>]
               IN DoWrite(vi, ws, [op |-> "copyfrom", src |-> kind, vals |-> vals, dims |-> ss])
       \/ \E ui \in DOMAIN views :
            LET u == views[ui] IN
            /\ ui # vi /\ u.shape = v.shape /\ OrderInsensitive(v, u)
            /\ LET ws == [j \in 1..Len(v.offs) |-> <<v.offs[j], stores[u.sid][u.offs[j] + 1]>>]
               IN DoWrite(vi, ws, [op |-> "copyview", u |-> ui])

\* whole-array helpers ScaleXArray / AddToXArray / ApplyFunc1X (dest, source):
\*   scale:  dest[i] = source[i] * 2 ; addto: dest[i] = dest[i] + source[i] ; func: dest[i] = source[i] + 1
\*   scale1 / scale0: the factors 1 (dest becomes a copy of source) and 0 (dest becomes zero) -- factors at which an
\*   implementation may be tempted to skip the pass
TwoArrayFn(f, dv, sv) == CASE f = "scale" -> sv * 2 [] f = "scale1" -> sv [] f = "scale0" -> 0
                           [] f = "addto" -> dv + sv [] f = "func" -> sv + 1
TwoArrayFns == {"scale", "scale1", "scale0", "addto", "func"}
RECURSIVE SeqWrites(_, _, _, _, _)
SeqWrites(st, v, u, f, j) ==
    IF j > Len(v.offs) THEN <<>>
    ELSE LET sv == IF u.sid = v.sid THEN st[u.offs[j] + 1] ELSE stores[u.sid][u.offs[j] + 1]
             val == TwoArrayFn(f, st[v.offs[j] + 1], sv)
         IN << <<v.offs[j], val>> >> \o SeqWrites([st EXCEPT ![v.offs[j] + 1] = val], v, u, f, j + 1)
WTwoArray ==
    /\ ("twoarray" \in WriteOps \/ "twoview" \in WriteOps)     \* "twoview": only the live-view sources
    /\ \E vi \in WriteChoice : \E f \in TwoArrayFns :
       LET v == views[vi] IN
       \/ \E kind \in SrcKinds :
            /\ "twoarray" \in WriteOps
            /\ LET sv == SrcVals(Len(v.offs))
                   ws == [j \in 1..Len(v.offs) |->
                            <<v.offs[j], TwoArrayFn(f, stores[v.sid][v.offs[j] + 1], sv[j])>>]
               IN DoWrite(vi, ws, [op |-> "twoarray", fn |-> f, src |-> kind, vals |-> sv])
       \* source = another live view (or the view itself), overlapping the destination in ANY way: the helpers are
       \* DEFINED as the row-major element-by-element pass dest[i] := fn(dest[i], source[i]), so an element of the
       \* source that the pass has already overwritten is read with its new value (SeqWrites) -- a snapshot of the
       \* source taken beforehand gives a different answer exactly for the order-sensitive overlaps
       \/ \E ui \in DOMAIN views :
            LET u == views[ui] IN
            /\ u.shape = v.shape
            /\ DoWrite(vi, SeqWrites(stores[v.sid], v, u, f, 1), [op |-> "twoview", fn |-> f, u |-> ui])

Write == /\ stores # <<>> /\ ~done /\ nW < MaxWrites
         /\ (WSet \/ WApply \/ WApplySlice \/ WCopyFrom \/ WTwoArray)

Exhausted == stores # <<>> /\ nW = MaxWrites /\ nS = MaxSlices /\ nR = MaxReshapes

\* In exhaustive mode only maximal behaviours are emitted (shorter ones are their prefixes);
\* with EarlyStop, Finish is also offered earlier so that random simulation may stop anywhere.
Finish == /\ stores # <<>> /\ ~done
          /\ (Exhausted \/ EarlyStop)
          /\ done' = TRUE
          /\ (Emit => PrintT(ToJson([case |-> hist])))
          /\ UNCHANGED <<stores, views, fresh, nS, nW, nR, hist>>

Next == NewArray \/ Slice \/ RankReduce \/ Reshape \/ ReshapeCopy \/ Write \/ Finish
Spec == Init /\ [][Next]_vars

---------------------------------------------------------------------------
(* What TLC decides on the specification *)

\* every view addresses cells of its store, injectively
\* (stated for the newest view: older views were the newest view of a predecessor state and
\* views never change)
Newest == IF views = <<>> THEN {} ELSE {Len(views)}
ViewsOK == \A vi \in Newest :
              LET v == views[vi] IN
              /\ Len(v.offs) = Prod(v.shape)
              /\ \A k \in 1..Len(v.offs) : v.offs[k] \in 0..(Len(stores[v.sid]) - 1)
              \* distinct indices address distinct cells -- unless a zero step folds a whole dimension onto one element
              /\ (Broadcast \/ \A j, k \in 1..Len(v.offs) : v.offs[j] = v.offs[k] => j = k)

\* Composition theorem (C01): the pointwise definition of nested slices coincides with the single
\* affine map loc = a.loc + b.loc*a.step, step = a.step*b.step.
Compose == \A vi \in Newest :
              views[vi].affine => views[vi].offs = AffOffs(views[vi].aff, views[vi].shape)

\* Contiguity (C02): contiguous iff Unroll is a contiguous run of the store
ContigIsRun == \A vi \in Newest :
                 LET v == views[vi] IN
                 Contig(v) <=> (\A k \in 1..Len(v.offs) : v.offs[k] = v.offs[1] + k - 1)

\* Exact write footprint (C01): a write changes at most the cells it addresses, in its own store only
FootprintExact ==
    [][ (nW' = nW + 1) =>
          LET rec == hist'[Len(hist')]
              sid == views[rec.v].sid
          IN /\ \A s \in DOMAIN stores : s # sid => stores'[s] = stores[s]
             /\ \A o \in 0..(Len(stores[sid]) - 1) :
                   (stores'[sid][o + 1] # stores[sid][o + 1]) => o \in rec.touched ]_vars

\* Liveness of views (C01): two views of one store that share a cell read the same value there
Live == \A ui, vi \in DOMAIN views :
          LET u == views[ui] v == views[vi] IN
          u.sid = v.sid =>
            \A j \in 1..Len(u.offs), k \in 1..Len(v.offs) :
               u.offs[j] = v.offs[k] => Vals(u)[j] = Vals(v)[k]

\* slicing and reshaping never change any store
ViewOpsPure == [][ (nS' = nS + 1 \/ nR' = nR + 1) => \A s \in DOMAIN stores : stores'[s] = stores[s] ]_vars
=============================================================================
