---------------------------- MODULE TraceClimate ----------------------------
(***************************************************************************)
(* Derived climate variables (ClimateVariables, C20) as ORDER laws over a   *)
(* grid  elevation x relative humidity x dry-bulb temperature.             *)
(* The engine evaluates the catalogued model at every grid point (grid     *)
(* indices e, h, t increase with the quantity) and logs per point the      *)
(* saturation vapour pressure, dew point, wet bulb and dry bulb RANK-      *)
(* encoded among all floats of the run (order-isomorphic; no arithmetic is *)
(* done on ranks), the rank of 0.0, whether all outputs are finite and     *)
(* whether deltaT is bit for bit dry bulb - wet bulb.                      *)
(* Points arrive ordered by e, then h, then t.  The state keeps the        *)
(* previous point (for monotonicity in temperature) and the dew points of  *)
(* the previous humidity row (for monotonicity in humidity).               *)
(* Laws (the statement of C20):                                            *)
(*   Finite        all outputs finite                                      *)
(*   SvpPositive   saturation vapour pressure > 0                          *)
(*   SvpIncreasing strictly increasing with temperature                    *)
(*   WetBetween    dew point <= wet bulb <= dry bulb                       *)
(*   Depression    deltaT = dry bulb - wet bulb                            *)
(*   DewRises      dew point rises (strictly, until it reaches the dry     *)
(*                 bulb) with humidity                                     *)
(* Failures are collected, not blocking: one run judges the whole grid.    *)
(***************************************************************************)
EXTENDS Integers, Sequences, TLC, Json

Trace == ndJsonDeserialize("trace.ndjson")
VARIABLES l, grid, prev, dewrow, viol, reported
vars == <<l, grid, prev, dewrow, viol, reported>>
E == Trace[l]
NoPoint == [e |-> -1, h |-> -1, t |-> -1, svp |-> -1]

Init == l = 1 /\ grid = [nt |-> 0, zero |-> 0] /\ prev = NoPoint /\ dewrow = <<>> /\ viol = {} /\ reported = FALSE
Grid == /\ l <= Len(Trace) /\ E.ev = "grid"
        /\ grid' = [nt |-> E.nt, zero |-> E.zero]
        /\ dewrow' = [i \in 1..E.nt |-> -1]
        /\ l' = l + 1 /\ UNCHANGED <<prev, viol, reported>>

Finite(p) == p.finite
SvpPositive(p) == p.svp > grid.zero
SvpIncreasing(p) == (prev.e = p.e /\ prev.h = p.h /\ prev.t + 1 = p.t) => prev.svp < p.svp
WetBetween(p) == p.dew <= p.wet /\ p.wet <= p.dry
Depression(p) == p.deltaok
\* dewrow[t+1] holds the dew point at (e, h-1, t) when h > 0.  Strictly rising -- except that a dew point cannot
\* rise above the dry bulb: two humidities close to saturation may both give dew point = dry bulb
DewRises(p) == (p.h > 0) => (dewrow[p.t + 1] < p.dew \/ (dewrow[p.t + 1] = p.dew /\ p.dew = p.dry))

Point == /\ l <= Len(Trace) /\ E.ev = "pt"
         /\ viol' = viol \cup (IF Finite(E) THEN {} ELSE {<<l, "finite">>})
                         \cup (IF ~Finite(E) \/ SvpPositive(E) THEN {} ELSE {<<l, "svppositive">>})
                         \cup (IF ~Finite(E) \/ SvpIncreasing(E) THEN {} ELSE {<<l, "svpincreasing">>})
                         \cup (IF ~Finite(E) \/ WetBetween(E) THEN {} ELSE {<<l, "wetbetween">>})
                         \cup (IF ~Finite(E) \/ Depression(E) THEN {} ELSE {<<l, "depression">>})
                         \cup (IF ~Finite(E) \/ DewRises(E) THEN {} ELSE {<<l, "dewrises">>})
         /\ prev' = [e |-> E.e, h |-> E.h, t |-> E.t, svp |-> E.svp]
         /\ dewrow' = [dewrow EXCEPT ![E.t + 1] = E.dew]
         /\ l' = l + 1 /\ UNCHANGED <<grid, reported>>
Report == /\ l = Len(Trace) + 1 /\ ~reported /\ reported' = TRUE
          /\ PrintT(<<"LAW_VIOLATIONS", viol>>)
          /\ UNCHANGED <<l, grid, prev, dewrow, viol>>
Next == Grid \/ Point \/ Report
Spec == Init /\ [][Next]_vars
TraceAccepted ==
    LET n == TLCGet("stats").diameter - 2 IN
    /\ PrintT(<<"TRACE_CONSUMED", n, Len(Trace)>>)
    /\ n = Len(Trace)
=============================================================================
