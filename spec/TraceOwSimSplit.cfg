SPECIFICATION TraceSpec
CONSTANTS
  NGen <- TNGen
  SizeChoices <- TSizeChoices
  Cap <- TCap
  Chunk = 2
  WaitAtExit = TRUE
INVARIANTS TypeOK StreamInOrder WrittenOnceInOrder ExitOnlyAfterAllWritten NothingLost CloseAfterAll EndSeen
CONSTRAINT HW
POSTCONDITION TraceAccepted
CHECK_DEADLOCK FALSE
