------------------------------ MODULE IndexOps ------------------------------
(***************************************************************************)
(* The integer index helpers of openwater-core's data package (C02):       *)
(* Offsets, IDivMod, Increment, Product, Multiply, Argmax, Maximum, from   *)
(* their arithmetic definitions.  TLC checks the algebraic laws that make  *)
(* them an index algebra (rank/unrank are inverse, the odometer visits     *)
(* every index once in row-major order) and emits (arguments, expected)    *)
(* pairs that are replayed on the exported Go helpers.                     *)
(***************************************************************************)
EXTENDS Integers, Sequences, TLC, Json

CONSTANTS MaxLen, MaxDim, MaxVal, Emit
VARIABLES d, v
vars == <<d, v>>

RECURSIVE Prod(_)
Prod(s) == IF s = <<>> THEN 1 ELSE Head(s) * Prod(Tail(s))
Product(s) == Prod(s)

\* row-major weight of every dimension: the product of the later extents
Offsets(dims) == [i \in 1..Len(dims) |-> Prod(SubSeq(dims, i + 1, Len(dims)))]

IDivMod(n, den, mod) == [i \in 1..Len(den) |-> (n \div den[i]) % mod[i]]

Multiply(a, b) == [i \in 1..Len(a) |-> a[i] * b[i]]

RECURSIVE SumSeq(_)
SumSeq(s) == IF s = <<>> THEN 0 ELSE Head(s) + SumSeq(Tail(s))
Rank(idx, dims) == SumSeq(Multiply(idx, Offsets(dims)))
Unrank(k, dims) == IDivMod(k, Offsets(dims), dims)

InRange(idx, dims) == \A i \in 1..Len(dims) : idx[i] \in 0..(dims[i] - 1)

\* odometer successor in row-major order, wrapping to all-zero after the last index
Increment(idx, wrt) == Unrank((Rank(idx, wrt) + 1) % Prod(wrt), wrt)

Maximum(s) == CHOOSE m \in {s[i] : i \in 1..Len(s)} : \A i \in 1..Len(s) : s[i] <= m
\* 0-based index of the first maximal entry
Argmax(s) == (CHOOSE i \in 1..Len(s) : s[i] = Maximum(s) /\ \A j \in 1..(i - 1) : s[j] < s[i]) - 1

Vecs(n, lo, hi) == [1..n -> lo..hi]

Init == \E n \in 1..MaxLen : d \in Vecs(n, 1, MaxDim) /\ v \in Vecs(n, 0, MaxVal)
Next == UNCHANGED vars
Spec == Init /\ [][Next]_vars

\* ---- laws (TLC decides) ----
RankUnrank == \A k \in 0..(Prod(d) - 1) : InRange(Unrank(k, d), d) /\ Rank(Unrank(k, d), d) = k
UnrankRank == InRange(v, d) => Unrank(Rank(v, d), d) = v
OdometerStep == InRange(v, d) =>
                  /\ InRange(Increment(v, d), d)
                  /\ Rank(Increment(v, d), d) = (Rank(v, d) + 1) % Prod(d)
OffsetsLaw == /\ Offsets(d)[Len(d)] = 1
              /\ \A i \in 1..(Len(d) - 1) : Offsets(d)[i] = Offsets(d)[i + 1] * d[i + 1]
ArgmaxLaw == /\ v[Argmax(v) + 1] = Maximum(v)
             /\ \A j \in 1..Argmax(v) : v[j] < Maximum(v)

EmitCase ==
    Emit => PrintT(ToJson([d |-> d, v |-> v,
                 offsets |-> Offsets(d), product |-> Product(d), productv |-> Product(v),
                 multiply |-> Multiply(v, d), argmax |-> Argmax(v), maximum |-> Maximum(v),
                 inrange |-> InRange(v, d),
                 increment |-> IF InRange(v, d) THEN Increment(v, d) ELSE <<>>,
                 rank |-> IF InRange(v, d) THEN Rank(v, d) ELSE -1,
                 idivmod |-> IDivMod(Rank(v, d) + SumSeq(v), Offsets(d), d),
                 idivmod_n |-> Rank(v, d) + SumSeq(v)]))
=============================================================================
