SPECIFICATION Spec
CONSTANTS
  Paths <- PathsQ
  Shapes <- ShapesQ
  Layouts <- Lay3
  MaxOps = 3
  MaxStep = 2
  Emit = TRUE
INVARIANTS TypeOK
PROPERTIES Stable BlockExact
CHECK_DEADLOCK FALSE
