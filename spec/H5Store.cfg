SPECIFICATION Spec
CONSTANTS
  Paths <- PathsQ
  Shapes <- ShapesQ
  Layouts <- Lay3
  MaxOps = 3
  MaxStep = 2
  Fills = {0, 7}
  ValKinds = {"fresh", "zero"}
  Emit = TRUE
INVARIANTS TypeOK
PROPERTIES Stable BlockExact
CHECK_DEADLOCK FALSE
