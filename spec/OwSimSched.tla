----------------------------- MODULE OwSimSched -----------------------------
(***************************************************************************)
(* B3 for C07 / C05: OwSim behaviours as SCHEDULES for the real binary.    *)
(* Every behaviour of OwSim is turned into the sequence of hook events the *)
(* verif build of ow-sim would log for it (vocabulary of TraceOwSim.tla).  *)
(* The gate in cmd/ow-sim/verif_on.go ($OWSIM_SCHEDULE) then lets each     *)
(* hook return only when its event is the next one of the sequence, so the *)
(* interleaving TLC chose is forced onto the real goroutines.              *)
(*                                                                         *)
(* What the gate cannot hold back are the steps without a hook: a          *)
(* goroutine that is let through a hook runs on until its next hook or     *)
(* until it blocks on the channel (parks in a receive, wakes a partner,    *)
(* sleeps half a second after a pass-back and receives again).  The        *)
(* schedules are therefore generated from the EAGER behaviours of OwSim:   *)
(* those hook-less continuation steps (WRecv, WSleep, DrainRecv,           *)
(* DrainCheck, DrainSleep) take precedence over everything else.  The      *)
(* controller on the other side waits after every released event long      *)
(* enough for the released goroutine to get there (a few ms; 0.6 s where   *)
(* the half-second sleep is involved).                                     *)
(*                                                                         *)
(* Channel operations are logged as send-BEGIN and receive-END (as in the  *)
(* hooks): a send that hands its value to a parked receiver is followed    *)
(* at once by that receiver's receive-END event.                           *)
(*                                                                         *)
(* The protocol constants (generations, models, which model has nodes      *)
(* where, links) are read from config.ndjson -- the same record the        *)
(* harness puts in front of every recorded trace.                          *)
(***************************************************************************)
EXTENDS OwSim, Json

Cfg == ndJsonDeserialize("config.ndjson")[1]
SNGen == Cfg.ngen
SModels == {Cfg.models[i] : i \in 1..Len(Cfg.models)}
SHasNodes == [m \in SModels |-> [g \in 0..(SNGen - 1) |-> Cfg.hasnodes[m][g + 1]]]
SLinks == [k \in 1..Len(Cfg.links) |-> [sg |-> Cfg.links[k].sg, dg |-> Cfg.links[k].dg, sm |-> Cfg.links[k].sm, dm |-> Cfg.links[k].dm]]
SOutput == Cfg.output

VARIABLES sched, emitted
svars == <<vars, sched, emitted>>

SInit == Init /\ sched = <<>> /\ emitted = FALSE

Ev(r) == sched' = Append(sched, r) /\ UNCHANGED emitted
Quiet == UNCHANGED <<sched, emitted>>
\* the receive-END event of process r for value v
RecvEnd(r, v) == IF r = Main THEN [ev |-> "mainrecv", v |-> v] ELSE [ev |-> "wrecv", g |-> r, prev |-> v]
\* a send-BEGIN event; when a receiver is parked (FIFO: the first one) it takes the value and logs its receive-END
SendEv(begin, v) == IF recvq # <<>> THEN sched' = sched \o <<begin, RecvEnd(recvq[1], v)>> /\ UNCHANGED emitted
                    ELSE Ev(begin)

\* ---- steps with a hook ----
Hooked ==
    \/ (RunGen /\ Ev([ev |-> "rungen", gen |-> gi]))
    \/ (\E m \in Models : ModelRun(m) /\ Ev([ev |-> "modelrun", model |-> m, gen |-> gi]))
    \/ (GenDone /\ Ev([ev |-> "gendone", gen |-> gi]))
    \/ (SpawnWriter /\ (IF Output THEN Ev([ev |-> "spawn", gen |-> gi]) ELSE Quiet))
    \/ (ApplyLink /\ Ev([ev |-> "link", k |-> nextLink - 1]))
    \/ (LinksDone /\ Ev([ev |-> "linksdone", gen |-> gi]))
    \/ (DrainSend /\ SendEv([ev |-> "mainpassback", v |-> got[Main]], got[Main]))
    \/ \E g \in Writers :
         \/ (WStart(g) /\ Ev([ev |-> "wstart", g |-> g]))
         \/ (WPurge(g) /\ Ev([ev |-> "wpurged", g |-> g, prev |-> got[g]]))
         \/ (WSendBack(g) /\ SendEv([ev |-> "wpassback", g |-> g, prev |-> got[g]], got[g]))
         \/ (WWriteBegin(g) /\ Ev([ev |-> "wwritebegin", g |-> g]))
         \/ (WWriteEnd(g) /\ Ev([ev |-> "wwriteend", g |-> g]))
         \/ (WSendDone(g) /\ SendEv([ev |-> "wsend", g |-> g], g))

\* ---- hook-less continuation steps: taken as soon as they are enabled ----
\* a receive that finds a parked sender completes at once and logs its receive-END
RecvEv(p) == IF sendq # <<>> THEN Ev(RecvEnd(p, sendq[1][2])) ELSE Quiet
Eager ==
    \/ (DrainRecv /\ RecvEv(Main))
    \/ (DrainCheck /\ Quiet)
    \/ (DrainSleep /\ Quiet)
    \/ \E g \in Writers : (WRecv(g) /\ RecvEv(g)) \/ (WSleep(g) /\ Quiet)
EagerEnabled == \/ mainpc \in {"drain-recv", "drain-check", "drain-sleep"}
                \/ \E g \in Writers : wpc[g] \in {"recv", "sleep"}

Emit == /\ mainpc = "exit" /\ ~emitted
        /\ emitted' = TRUE
        /\ PrintT(ToJson([schedule |-> Append(sched, [ev |-> "mainexit"])]))
        /\ UNCHANGED <<vars, sched>>

SNext == IF mainpc = "exit" THEN Emit
         ELSE IF EagerEnabled THEN Eager ELSE Hooked
SSpec == SInit /\ [][SNext]_svars
=============================================================================
