\* three generations (links may span more than one generation), one node per batch, up to 3 links
SPECIFICATION Spec
CONSTANTS
  Kinds = {"Input", "Sum", "Muskingum"}
  MaxModels = 2
  MaxGen = 3
  MaxPerGen = 1
  MaxLinks = 2
  T = 3
  Emit = TRUE
INVARIANTS LinkOrderIrrelevant SelectionLocal
CHECK_DEADLOCK FALSE
