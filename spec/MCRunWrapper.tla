---------------------------- MODULE MCRunWrapper ----------------------------
(* Model instances of RunWrapper whose configuration set is not a box of small bounds. *)
EXTENDS RunWrapper

\* MANY cells (one goroutine per cell in the generated wrappers; whatever a wrapper does differently above some
\* number of cells -- worker pools, batching -- only shows here): cell counts around powers of two and some odd
\* ones, few parameter sets / input blocks (so that cells wrap around them many times), short series.
ManyConfigs == {c \in [nc : {33, 64, 65, 101, 130, 257}, np : {1, 3, 64}, nb : {1, 2, 65}, t : {1, 2},
                       oc : {33, 64, 65, 66, 101, 130, 257}, ot : {1, 2, 3}, mode : {"stream"}] :
                  /\ c.oc >= c.nc /\ c.oc <= c.nc + 1 /\ c.ot >= c.t /\ c.ot <= c.t + 1
                  /\ c.np <= c.nc /\ c.nb <= c.nc}
=============================================================================
