---------------------------- MODULE H5LockProof ----------------------------
(***************************************************************************)
(* TLAPS proof that the locking discipline of H5Lock.tla excludes          *)
(* overlapping write-class library calls for ANY set of callers and any    *)
(* number of library calls per entry point (TLC checks 3 callers x 2       *)
(* calls).  Inv is inductive; the three properties of C08 follow from it.  *)
(***************************************************************************)
EXTENDS H5Lock, TLAPS

TypeOK == /\ held \in [Callers -> {"none", "r", "w"}]
          /\ incall \in [Callers -> {"none", "read", "write"}]
          /\ ncalls \in [Callers -> Nat]

\* a write-class call is only ever in progress under the write lock
WriteCallsUnderWriteLock == \A c \in Callers : incall[c] = "write" => held[c] = "w"

Inv == TypeOK /\ WriterExclusive /\ CallsUnderLock /\ WriteCallsUnderWriteLock

THEOREM InitInv == Init => Inv
  BY DEF Init, Inv, TypeOK, WriterExclusive, CallsUnderLock, WriteCallsUnderWriteLock

THEOREM NextInv == Inv /\ [Next]_vars => Inv'
<1> SUFFICES ASSUME Inv, [Next]_vars PROVE Inv'
  OBVIOUS
<1>1. CASE UNCHANGED vars
  BY <1>1 DEF Inv, TypeOK, WriterExclusive, CallsUnderLock, WriteCallsUnderWriteLock, vars
<1>2. ASSUME NEW c \in Callers, RLock(c) PROVE Inv'
  BY <1>2 DEF Inv, TypeOK, WriterExclusive, CallsUnderLock, WriteCallsUnderWriteLock, RLock
<1>3. ASSUME NEW c \in Callers, Lock(c) PROVE Inv'
  BY <1>3 DEF Inv, TypeOK, WriterExclusive, CallsUnderLock, WriteCallsUnderWriteLock, Lock
<1>4. ASSUME NEW c \in Callers, RUnlock(c) PROVE Inv'
  BY <1>4 DEF Inv, TypeOK, WriterExclusive, CallsUnderLock, WriteCallsUnderWriteLock, RUnlock
<1>5. ASSUME NEW c \in Callers, Unlock(c) PROVE Inv'
  BY <1>5 DEF Inv, TypeOK, WriterExclusive, CallsUnderLock, WriteCallsUnderWriteLock, Unlock
<1>6. ASSUME NEW c \in Callers, Exit(c) PROVE Inv'
  BY <1>6 DEF Inv, TypeOK, WriterExclusive, CallsUnderLock, WriteCallsUnderWriteLock, Exit
<1>7. ASSUME NEW c \in Callers, NEW k \in {"read", "write"}, Enter(c, k) PROVE Inv'
  BY <1>7 DEF Inv, TypeOK, WriterExclusive, CallsUnderLock, WriteCallsUnderWriteLock, Enter
<1> QED
  BY <1>1, <1>2, <1>3, <1>4, <1>5, <1>6, <1>7 DEF Next

THEOREM InvImplies == Inv => NoWriteOverlap /\ CallsUnderLock /\ WriterExclusive
  BY DEF Inv, TypeOK, NoWriteOverlap, CallsUnderLock, WriterExclusive, WriteCallsUnderWriteLock

THEOREM Safety == Spec => [](NoWriteOverlap /\ CallsUnderLock /\ WriterExclusive)
<1>1. Spec => []Inv
  BY InitInv, NextInv, PTL DEF Spec
<1> QED
  BY <1>1, InvImplies, PTL
=============================================================================
