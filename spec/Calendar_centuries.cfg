\* thorough: every century year 100..9900 and the years around every millennium
SPECIFICATION Spec
CONSTANTS
  StartYears <- CenturyYears
  SpanYears = 1
  Emit = TRUE
INVARIANTS TypeOK DoyDef DoyOneIffNewYear DoyLastIffNYE
PROPERTIES StepLaw
CHECK_DEADLOCK FALSE
