\* broadcast views: zero steps over extents > 1 (every index of the dimension addresses element loc), alone and
\* nested under / over ordinary slices; reads, bulk observations and single-element writes
SPECIFICATION Spec
CONSTANTS
  Shapes <- ShapesB
  StepVals <- Steps01
  Broadcast = TRUE
  MaxSlices = 2
  MaxWrites = 1
  MaxReshapes = 0
  WriteOps = {"set"}
  AllowNil = FALSE
  ChainOnly = TRUE
  WriteNewest = FALSE
  AllowReduce = FALSE
  AllowCopy = FALSE
  EarlyStop = FALSE
  Emit = TRUE
INVARIANTS ViewsOK Compose ContigIsRun Live
PROPERTIES ViewOpsPure FootprintExact
CHECK_DEADLOCK FALSE
