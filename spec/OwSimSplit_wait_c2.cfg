SPECIFICATION Spec
CONSTANTS
  NGen = 3
  SizeChoices <- MCSizeChoices
  Big = 5
  Cap = 2
  Chunk = 1
  WaitAtExit = TRUE
INVARIANTS TypeOK StreamInOrder WrittenOnceInOrder ExitOnlyAfterAllWritten NothingLost AllWrittenAtEnd CloseAfterAll
PROPERTIES Terminates
CHECK_DEADLOCK FALSE
