----------------------------- MODULE ExactModels -----------------------------
(***************************************************************************)
(* Exact executable specifications, in rational arithmetic, of the         *)
(* catalogue models whose kernels are piecewise-linear with rational       *)
(* coefficients (C16: partition / conversion / generation identities;      *)
(* C11: the Lag and Muskingum clauses).                                    *)
(*                                                                         *)
(* A rational is a pair <<num, den>> with den > 0.  A case is              *)
(*    [model, params : Seq(rational), inputs : Seq(Seq(rational)),         *)
(*     states : Seq(rational)]                                             *)
(* (inputs[j][t] = input variable j at timestep t).  Out(c) gives the      *)
(* output series, St(c) the final states.  TLC evaluates the algebraic     *)
(* laws of the statements as invariants over every case of the grids and   *)
(* emits (case, expected outputs) for the replay engine, which runs the    *)
(* real model through the catalogue and compares float64(num)/float64(den) *)
(* with the real output (a few ulp: the unit factors are not dyadic).      *)
(***************************************************************************)
EXTENDS Integers, Sequences, FiniteSets, TLC, Json

CONSTANTS Models,   \* which models to enumerate
          Grid,     \* "small" | "wide"
          Emit

VARIABLES c, emitted
vars == <<c, emitted>>

\* ---- rationals ----
R(n) == <<n, 1>>
Q(n, d) == <<n, d>>
RECURSIVE GCD(_, _)
GCD(a, b) == IF b = 0 THEN a ELSE GCD(b, a % b)
Abs(n) == IF n < 0 THEN -n ELSE n
Norm(a) == LET g == GCD(Abs(a[1]), a[2]) IN IF g = 0 THEN a ELSE <<a[1] \div g, a[2] \div g>>
\* cross-cancel before multiplying (TLC integers are 32-bit)
Mul(a, b) == LET g1 == GCD(Abs(a[1]), b[2])  g2 == GCD(Abs(b[1]), a[2])
                 h1 == IF g1 = 0 THEN 1 ELSE g1  h2 == IF g2 = 0 THEN 1 ELSE g2
             IN Norm(<<(a[1] \div h1) * (b[1] \div h2), (a[2] \div h2) * (b[2] \div h1)>>)
Add(a, b) == LET g == GCD(a[2], b[2]) IN Norm(<<a[1] * (b[2] \div g) + b[1] * (a[2] \div g), (a[2] \div g) * b[2]>>)
Neg(a) == <<-a[1], a[2]>>
Sub(a, b) == Add(a, Neg(b))
Inv(b) == IF b[1] > 0 THEN <<b[2], b[1]>> ELSE <<-b[2], -b[1]>>                                           \* b # 0
Div(a, b) == Mul(a, Inv(b))
\* comparisons through the sign of the (normalised) difference: no cross-multiplication of large terms
Eq(a, b) == Sub(a, b)[1] = 0
Lt(a, b) == Sub(a, b)[1] < 0
Le(a, b) == Sub(a, b)[1] <= 0
MinR(a, b) == IF Le(a, b) THEN a ELSE b
MaxR(a, b) == IF Le(a, b) THEN b ELSE a
Zero == R(0)
One == R(1)
IsZero(a) == a[1] = 0
RECURSIVE SumR(_)
SumR(s) == IF s = <<>> THEN Zero ELSE Add(Head(s), SumR(Tail(s)))
Map1(f(_), s) == [t \in 1..Len(s) |-> f(s[t])]
Map2(f(_, _), s, u) == [t \in 1..Len(s) |-> f(s[t], u[t])]

\* documented unit factors
MG_L_TO_KG_M3 == Q(1, 1000)          \* mg/L -> kg/m^3
MM_TO_M == Q(1, 1000)
SECONDS_PER_DAY == R(86400)
M3_TO_L == R(1000)
MG_TO_KG == Q(1, 1000000)
EFFECTIVELY_ZERO == Q(1, 100000000)  \* threshold of PassLoadIfFlow, 1e-8 (any flow on the grids is 0 or >= 1/2)

\* ---- piecewise-linear table (also spec/Piecewise.tla): knots xs strictly increasing ----
RECURSIVE Bracket(_, _, _)
Bracket(x, xs, j) == IF Le(x, xs[j]) THEN j ELSE Bracket(x, xs, j + 1)     \* least j >= 2 with x <= xs[j]
InTable(x, xs) == Le(xs[1], x) /\ Le(x, xs[Len(xs)])
Interp(x, xs, ys) ==
    LET j == Bracket(x, xs, 2)
        frac == Div(Sub(x, xs[j - 1]), Sub(xs[j], xs[j - 1]))
    IN Add(ys[j - 1], Mul(frac, Sub(ys[j], ys[j - 1])))

\* Muskingum: O_t = a1 (I_t + L_t) + a2 (I_{t-1} + L_{t-1}) + a3 O_{t-1}, weights sum to one
MuskA(p) == LET kx2 == Mul(R(2), Mul(p[1], p[2]))
                den == Add(Mul(R(2), Mul(p[1], Sub(One, p[2]))), p[3])
            IN << Div(Sub(p[3], kx2), den), Div(Add(p[3], kx2), den), Div(Sub(Mul(R(2), Mul(p[1], Sub(One, p[2]))), p[3]), den) >>
RECURSIVE MuskFrom(_, _, _, _)
MuskFrom(cs, t, prevIn, prevOut) ==
    IF t > Len(cs.inputs[1]) THEN <<>>
    ELSE LET a == MuskA(cs.params)
             tot == Add(cs.inputs[1][t], cs.inputs[2][t])
             o == Add(Add(Mul(a[1], tot), Mul(a[2], prevIn)), Mul(a[3], prevOut))
         IN <<o>> \o MuskFrom(cs, t + 1, tot, o)
MuskOut(cs) == MuskFrom(cs, 1, cs.states[2], cs.states[3])

\* ---- constituent transport / trapping models with rational kernels (C12) -------------------------------
\* every model is a step function  (t, state sequence) -> [st : state sequence, outs : sequence, flushed]
\* iterated over the series; `flushed` is the mass discarded by the documented minimum-volume flush
MINIMUM_VOLUME == Q(1, 100)

\* LumpedConstituentRouting: params X, pointInput, DeltaT; inputs inflowLoad, lateralLoad, outflow, storage
LumpedStep(sm, il, ll, q, v, pointInput, dt) ==
    LET wm == Add(sm, Mul(Add(Add(il, ll), pointInput), dt))
        wv == Add(Mul(q, dt), v)
    IN IF Lt(wv, MINIMUM_VOLUME) THEN [st |-> <<Zero>>, outs |-> <<Zero, Zero>>, flushed |-> wm]
       ELSE LET conc == Div(wm, wv) IN [st |-> <<Mul(conc, v)>>, outs |-> <<Mul(conc, q), pointInput>>, flushed |-> Zero]

\* ConstituentDecay: params X, halfLife, DeltaT (DeltaT an integer multiple of halfLife, so 2^-(DeltaT/halfLife)
\* is exact); inputs inflowLoad, lateralLoad, inflow, outflow, storage; outputs decayedLoad, outflowLoad
RECURSIVE Pow2(_)
Pow2(n) == IF n = 0 THEN 1 ELSE 2 * Pow2(n - 1)
DecayFraction(hl, dt) == IF IsZero(hl) THEN One ELSE Q(1, Pow2(Div(dt, hl)[1]))
DecayStep(sm, il, ll, q, v, hl, dt) ==
    LET fr == DecayFraction(hl, dt)
        decayed == IF IsZero(hl) THEN Zero ELSE Mul(Sub(One, fr), sm)
        sm1 == Mul(sm, fr)
        wm == Add(sm1, Add(Mul(il, dt), Mul(ll, dt)))
        wv == Add(Mul(q, dt), v)
    IN IF Lt(wv, MINIMUM_VOLUME) THEN [st |-> <<Zero>>, outs |-> <<Div(decayed, dt), Zero>>, flushed |-> wm]
       ELSE LET ol == Mul(Div(wm, wv), q) IN
            [st |-> <<Sub(wm, Mul(ol, dt))>>, outs |-> <<Div(decayed, dt), ol>>, flushed |-> Zero]

\* InstreamParticulateNutrient: params particulateNutrientConcentration, soilPercentFine, durationInSeconds;
\* inputs incomingMassUpstream, incomingMassLateral, reachVolume, outflow, streambankErosion, lateralSediment,
\* floodplainDepositionFraction, channelDepositionFraction; states instreamStoredMass, channelStoredMass;
\* outputs loadDeposited (a mass), loadFromStreambank, loadDownstream, loadToFloodplain
ParticulateStep(st, up, lat, v, q, sbe, latSed, fpf, chf, conc, pcFine, dt) ==
    LET inUp == Mul(up, dt)
        inLat == Mul(lat, dt)
        sbp == Mul(sbe, conc)
        sbpMass == Mul(sbp, dt)
        total == Add(Add(Add(st[1], inUp), inLat), sbpMass)
        dep0 == Add(st[1], inUp)
        dep1 == IF Lt(Zero, latSed) THEN Add(dep0, inLat) ELSE dep0
        dep2 == Add(MaxR(dep1, Zero), Mul(sbpMass, Div(pcFine, R(100))))
        fp == Mul(MinR(MaxR(fpf, Zero), One), dep2)
        bed == IF Le(Zero, chf) THEN MinR(Mul(chf, dep2), Sub(dep2, fp)) ELSE Neg(Mul(Neg(chf), dep2))
        channel == Add(st[2], bed)
        left == Sub(total, Add(fp, bed))
        wv == Add(Mul(q, dt), v)
    IN IF Lt(wv, MINIMUM_VOLUME)
       THEN [st |-> <<Zero, channel>>, outs |-> <<Zero, sbp, Zero, Div(fp, dt)>>, flushed |-> left]
       ELSE LET c2 == Div(left, wv) IN
            [st |-> <<Mul(c2, v), channel>>, outs |-> <<bed, sbp, Mul(c2, q), Div(fp, dt)>>, flushed |-> Zero]

\* InstreamFineSediment on the rational fragment of its power laws: outflow in {0, 1, 32} (x^1.4 = 0, 1, 128), slope 1,
\* width and Manning's n in {1, 32} (32^0.4 = 4, 32^0.6 = 8), and a floodplain term whose exponent is 0 (no floodplain
\* area: nothing settles) or below -750 (everything carried over the banks settles: exp underflows to exactly 0).
\* params bankFullFlow, fineSedSettVelocityFlood, floodPlainArea, linkWidth, linkLength, linkSlope, bankHeight,
\* propBankHeightForFineDep, sedBulkDensity, manningsN, fineSedSettVelocity, fineSedReMobVelocity, durationInSeconds;
\* inputs upstreamMass, lateralMass, reachLocalMass, reachVolume, outflow; states channelStoreFine, totalStoredMass;
\* outputs loadDownstream, loadToFloodplain, loadToChannelDeposition (a mass), floodplainDepositionFraction, channelDepositionFraction
TONNES_TO_KG == R(1000)
P14(x) == CASE x = R(0) -> R(0) [] x = R(1) -> R(1) [] x = R(32) -> R(128)
P04(x) == CASE x = R(1) -> R(1) [] x = R(32) -> R(4)
P06(x) == CASE x = R(1) -> R(1) [] x = R(32) -> R(8)
FineMaxStorage(p) == Mul(Mul(Mul(p[8], p[7]), Mul(p[4], p[5])), Mul(p[9], TONNES_TO_KG))
\* sediment transport capacity (t/d) for a settling / remobilisation velocity w; slope 1
FineSTC(p, q, w) == Mul(Div(Mul(Q(1, 10), P14(q)), Mul(Mul(w, P04(p[4])), P06(p[10]))), SECONDS_PER_DAY)
\* 1 - exp(-x) on the fragment: x = 0 or x >= 750
OneMinusExpNeg(x) == IF IsZero(x) THEN Zero ELSE One
FineFlood(p, q, total) ==
    IF Le(q, p[1]) THEN Zero                               \* at or below bank-full flow nothing goes over the banks
    ELSE LET qf == Sub(q, p[1]) IN MinR(Mul(Mul(total, Div(qf, q)), OneMinusExpNeg(Div(Mul(p[2], p[3]), qf))), total)
FineChannel(p, q, totalVolume, total, store) ==
    IF Le(totalVolume, Zero) THEN Zero
    ELSE LET loadT == Div(total, TONNES_TO_KG)
             dep == FineSTC(p, q, p[11])
             mob == FineSTC(p, q, p[12])
         IN IF Lt(dep, loadT) THEN MinR(Mul(Sub(loadT, dep), TONNES_TO_KG), Sub(FineMaxStorage(p), store))      \* deposition, limited by the room left
            ELSE IF Lt(loadT, mob) THEN Neg(MinR(Mul(Sub(mob, loadT), TONNES_TO_KG), store))                        \* remobilisation, limited by the store
            ELSE Zero
FineStep(st, up, lat, loc, v, q, p) ==
    LET dt == p[13]
        total0 == Add(st[2], Mul(Add(Add(up, lat), loc), dt))
        tv == Add(v, Mul(q, dt))
        fp == FineFlood(p, q, total0)
        total1 == Sub(total0, fp)
        net == FineChannel(p, q, tv, total1, st[1])
        total2 == Sub(total1, net)
        fr(x) == IF Lt(Zero, total0) THEN Div(x, total0) ELSE Zero
    IN IF Lt(Zero, tv)
       THEN LET conc == Div(total2, tv) IN
            [st |-> <<Add(st[1], net), Mul(conc, v)>>, outs |-> <<Mul(conc, q), Div(fp, dt), net, fr(fp), fr(net)>>, flushed |-> Zero]
       ELSE [st |-> <<Add(st[1], net), Zero>>, outs |-> <<Zero, Div(fp, dt), net, fr(fp), fr(net)>>, flushed |-> total2]
\* a negative initial channel store means "this proportion of the maximum storage"
FineInit(cs) == IF Lt(cs.states[1], Zero) /\ ~IsZero(cs.params[1]) THEN <<Mul(Neg(cs.states[1]), FineMaxStorage(cs.params)), cs.states[2]>> ELSE cs.states

RECURSIVE IPowN(_, _)
IPowN(a, n) == IF n = 0 THEN One ELSE Mul(a, IPowN(a, n - 1))
\* StorageParticulateTrapping for INTEGER lengthDischargePower: params DeltaT, reservoirCapacity, reservoirLength,
\* subtractor, multiplier, lengthDischargeFactor, lengthDischargePower; inputs inflowLoad, inflow, outflow, storage;
\* state storedMass; outputs trappedMass (a mass), outflowLoad.  Trapping efficiency (per cent, clamped to 0..100)
\* = subtractor - multiplier * (capacity^2 / (factor * length * inflow^2)) ^ power; without water nothing leaves.
TrapStep(sm, il, qin, qout, v, p) ==
    LET dt == p[1]
        incoming == Mul(il, dt)
        index == Div(Mul(p[2], p[2]), Mul(Mul(p[6], p[3]), Mul(qin, qin)))
        pc == IF Lt(Zero, qin) /\ Lt(Zero, p[3]) THEN MinR(R(100), MaxR(Zero, Sub(p[4], Mul(p[5], IPowN(index, p[7][1]))))) ELSE Zero
        trapped == Div(Mul(incoming, pc), R(100))
        sm1 == Sub(Add(sm, incoming), trapped)
        wv == Add(Mul(qout, dt), v)
    IN IF Lt(Zero, wv)
       THEN LET rate == Mul(qout, Div(sm1, wv)) IN
            [st |-> <<MaxR(Sub(sm1, Mul(rate, dt)), Zero)>>, outs |-> <<trapped, rate>>, flushed |-> Zero]
       ELSE [st |-> <<sm1>>, outs |-> <<trapped, Zero>>, flushed |-> Zero]

ConstituentStep(cs, t, st) ==
    LET p == cs.params  in == cs.inputs  m == cs.model IN
    CASE m = "LumpedConstituentRouting" -> LumpedStep(st[1], in[1][t], in[2][t], in[3][t], in[4][t], p[2], p[3])
      [] m = "ConstituentDecay" -> DecayStep(st[1], in[1][t], in[2][t], in[4][t], in[5][t], p[2], p[3])
      [] m = "StorageDissolvedDecay" ->      \* decay disabled: lumped transport without lateral load or point source
            LET r == LumpedStep(st[1], in[1][t], Zero, in[3][t], in[4][t], Zero, p[1]) IN
            [st |-> r.st, outs |-> <<Zero, r.outs[1]>>, flushed |-> r.flushed]
      [] m = "StorageTrapAll" ->             \* everything that arrives (and what was stored) is trapped
            [st |-> <<Zero>>, outs |-> <<Add(in[1][t], IF t = 1 THEN cs.states[1] ELSE Zero), Zero>>, flushed |-> Zero]
      [] m = "InstreamParticulateNutrient" ->
            ParticulateStep(st, in[1][t], in[2][t], in[3][t], in[4][t], in[5][t], in[6][t], in[7][t], in[8][t], p[1], p[2], p[3])
      [] m = "StorageParticulateTrapping" -> TrapStep(st[1], in[1][t], in[2][t], in[3][t], in[4][t], p)
      [] m = "InstreamFineSediment" ->
            IF IsZero(p[1])                      \* no bank-full flow configured: plain lumped transport of everything that enters, the channel store untouched
            THEN LET r == LumpedStep(st[2], in[1][t], Add(in[2][t], in[3][t]), in[5][t], in[4][t], Zero, p[13]) IN
                 [st |-> <<st[1], r.st[1]>>, outs |-> <<r.outs[1], Zero, Zero, Zero, Zero>>, flushed |-> r.flushed]
            ELSE FineStep(st, in[1][t], in[2][t], in[3][t], in[4][t], in[5][t], p)
      [] m = "InstreamCoarseSediment" ->     \* param durationInSeconds; states channelStore, totalStoredMass
            LET incoming == Mul(Add(Add(in[1][t], in[2][t]), in[3][t]), p[1]) IN
            [st |-> <<Add(st[1], Add(st[2], incoming)), Zero>>, outs |-> <<Zero>>, flushed |-> Zero]

RECURSIVE ConstituentIter(_, _, _, _)
ConstituentIter(cs, t, st, acc) ==
    IF t > Len(cs.inputs[1]) THEN [st |-> st, rows |-> acc.rows, flushed |-> acc.flushed]
    ELSE LET r == ConstituentStep(cs, t, st) IN
         ConstituentIter(cs, t + 1, r.st, [rows |-> Append(acc.rows, r.outs), flushed |-> Add(acc.flushed, r.flushed)])
InitSt(cs) == IF cs.model = "InstreamFineSediment" THEN FineInit(cs) ELSE cs.states
ConstituentRun(cs) == ConstituentIter(cs, 1, InitSt(cs), [rows |-> <<>>, flushed |-> Zero])
\* per-timestep output tuples -> one series per output variable
Transpose(rows) == [j \in 1..Len(rows[1]) |-> [t \in 1..Len(rows) |-> rows[t][j]]]
ConstituentModels == {"LumpedConstituentRouting", "ConstituentDecay", "StorageDissolvedDecay", "StorageTrapAll", "InstreamCoarseSediment",
                      "InstreamParticulateNutrient", "InstreamFineSediment", "StorageParticulateTrapping"}

\* ---- generation models whose kernels are rational for INTEGER power factors (C16) ------------------------
RECURSIVE IPow(_, _)
IPow(a, n) == IF n = 0 THEN One ELSE Mul(a, IPow(a, n - 1))
DAYS_PER_YEAR == Q(1461, 4)
GRAVITY == Q(981, 100)
PCT(x) == Div(x, R(100))

\* BankErosion: params riparianVegPercent, maxRiparianVegEffectiveness, soilErodibility, bankErosionCoeff, linkSlope,
\* bankFullFlow, bankMgtFactor, sedBulkDensity, bankHeight, linkLength, dailyFlowPowerFactor (integer),
\* longTermAvDailyFlow, soilPercentFine, durationInSeconds; inputs downstreamFlowVolume, totalVolume
BankMeanAnnual(p) ==
    LET erod == Mul(Sub(One, MinR(PCT(p[1]), PCT(p[2]))), PCT(p[3]))
        retreat == Mul(Mul(Mul(Mul(Mul(p[4], R(1000)), GRAVITY), p[5]), p[6]), p[7])
        mass == Mul(Mul(p[8], p[9]), p[10])
    IN Mul(Mul(mass, retreat), erod)
BankTotal(p, flow, vol) ==
    LET ldf == IF Le(vol, Zero) \/ Le(flow, Zero) \/ Le(p[12], Zero) THEN Zero
               ELSE Div(IPow(Mul(flow, p[14]), p[11][1]), p[12])
    IN Div(Mul(Div(Mul(BankMeanAnnual(p), ldf), DAYS_PER_YEAR), TONNES_TO_KG), p[14])

\* DynamicSednetGully / DynamicSednetGullyAlt: params YearDisturbance, GullyEndYear, Area, averageGullyActivityFactor,
\* GullyAnnualAverageSedimentSupply, GullyPercentFine, managementPracticeFactor, longtermRunoffFactor,
\* dailyRunoffPowerFactor (integer), sdrFine, sdrCoarse, timeStepInSeconds; inputs quickflow, year, AnnualRunoff, annualLoad
\* result: <<fineLoad, coarseLoad, generatedFine, generatedCoarse>>
GullyStep(alt, p, q, yr, annualRunoff, annualLoad) ==
    IF Lt(yr, p[1]) \/ IsZero(q) \/ IsZero(annualRunoff) THEN <<Zero, Zero, Zero, Zero>>
    ELSE LET af == IF Lt(p[2], yr) THEN p[4] ELSE One
             propFine == PCT(p[6])
             gen == IF alt
                    THEN LET depth == Mul(Mul(Div(q, p[3]), R(1000)), R(86400))
                             supply == Mul(p[7], annualLoad)
                         IN << Mul(Mul(Mul(Div(depth, annualRunoff), propFine), af), supply),
                               Mul(Mul(Div(depth, annualRunoff), Sub(One, propFine)), supply) >>
                    ELSE LET pw == IF p[9][1] <= 0 THEN 1 ELSE p[9][1]
                             drf == IF Lt(Zero, p[8]) THEN Div(IPow(q, pw), p[8]) ELSE One
                             base == Mul(Mul(Div(One, DAYS_PER_YEAR), drf), Mul(Mul(p[5], p[7]), TONNES_TO_KG))
                         IN << Mul(Mul(base, propFine), af), Mul(base, Sub(One, propFine)) >>
             gf == Div(gen[1], p[12])
             gc == Div(gen[2], p[12])
         IN << Mul(gf, PCT(p[10])), Mul(gc, PCT(p[11])), gf, gc >>

\* SednetParticulateNutrientGeneration: params area, nutSurfSoilConc, hillDeliveryRatio, Nutrient_Enrichment_Ratio,
\* nutSubSoilConc, Nutrient_Enrichment_Ratio_Gully, gullyDeliveryRatio, nutrientDWC, Do_P_CREAMS_Enrichment;
\* inputs fine/coarse sheet, fine/coarse gully generated kg, slowflow; outputs quick, slow, total, hillslope, gully
ParticulateGen(p, a, b, cc, d, slow) ==
    LET hill == Mul(Mul(Mul(Add(a, b), p[2]), p[4]), PCT(p[3]))
        gully == Mul(Mul(Mul(Add(cc, d), p[5]), p[6]), PCT(p[7]))
        quick == Add(hill, gully)
        sl == Mul(Mul(slow, p[8]), MG_L_TO_KG_M3)
    IN << quick, sl, Add(quick, sl), hill, gully >>
\* USLEFineSedimentGeneration: params S, P, RainThreshold, Alpha, Beta (integer here), Eta, A1, A2, A3, DWC, avK, avLS, avFines,
\* area, maxConc, usleHSDRFine, usleHSDRCoarse, timeStepInSeconds; inputs quickflow, baseflow, rainfall, KLSC, KLSC_Fine,
\* CovOrCFact, dayOfYear (= 15 on the grid: the seasonal term cos(2 pi (doy - 15) / 365) is then exactly 1)
\* outputs quickLoadFine, slowLoadFine, quickLoadCoarse, slowLoadCoarse, totalFineLoad, totalCoarseLoad, generatedLoadFine, generatedLoadCoarse
USLEStep(p, qf, sf, rain, klsc, klscFine) ==
    LET loadS == Mul(Mul(p[10], sf), MG_L_TO_KG_M3)
        Rr == IF Lt(p[3], rain) THEN Mul(Mul(p[4], Add(One, p[6])), IPow(rain, p[5][1])) ELSE Zero
        tot == Mul(Rr, klsc)
        fine == Mul(Rr, klscFine)
        coarse == Sub(tot, fine)
        toKg == Mul(Mul(p[14], Q(1, 10000)), TONNES_TO_KG)              \* area [m2] -> ha, t -> kg
        perL == Mul(qf, Q(432, 5))                                      \* m3/s -> ML/day (86.4); mg per kg and L per ML cancel
        active == Lt(Zero, qf) /\ Lt(Zero, tot)
        fineMass == Mul(fine, toKg)
        conc == IF active THEN Div(fineMass, perL) ELSE Zero
        adj == IF active /\ Lt(p[15], conc) THEN Div(Mul(p[15], perL), fineMass) ELSE One
        genFine == IF active THEN Mul(Mul(fine, adj), toKg) ELSE Zero
        genCoarse == IF active THEN Mul(Mul(coarse, adj), toKg) ELSE Zero
        loadQ == Div(Mul(genFine, PCT(p[16])), p[18])
        coarseQ == Div(Mul(genCoarse, PCT(p[17])), p[18])
    IN << loadQ, loadS, coarseQ, Zero, Add(loadQ, loadS), coarseQ, Div(genFine, p[18]), Div(genCoarse, p[18]) >>

GeneratorModels == {"BankErosion", "DynamicSednetGully", "DynamicSednetGullyAlt", "SednetParticulateNutrientGeneration", "USLEFineSedimentGeneration"}

\* ---- the kernels: Out(case) = sequence (per output variable) of series ----
T(cs) == Len(cs.inputs[1])
Series(cs, f(_)) == [t \in 1..T(cs) |-> f(t)]

Out(cs) ==
    LET p == cs.params  in == cs.inputs  m == cs.model IN
    CASE m = "Input" -> << in[1] >>
      [] m = "Sum" -> << Map2(Add, in[1], in[2]) >>
      [] m = "Gate" -> << [t \in 1..T(cs) |-> IF in[1][t][1] > 0 THEN in[2][t] ELSE Zero] >>
      [] m = "FixedPartition" ->
            << [t \in 1..T(cs) |-> Mul(in[1][t], p[1])], [t \in 1..T(cs) |-> Mul(in[1][t], Sub(One, p[1]))] >>
      [] m = "VariablePartition" ->
            << [t \in 1..T(cs) |-> Mul(in[1][t], in[2][t])], [t \in 1..T(cs) |-> Mul(in[1][t], Sub(One, in[2][t]))] >>
      [] m = "RatingCurvePartition" ->       \* params: <<n>> \o xs \o ys
            LET n == p[1][1]
                xs == SubSeq(p, 2, n + 1)  ys == SubSeq(p, n + 2, 2 * n + 1)
            IN << [t \in 1..T(cs) |-> Mul(in[1][t], Interp(in[1][t], xs, ys))],
                  [t \in 1..T(cs) |-> Mul(in[1][t], Sub(One, Interp(in[1][t], xs, ys)))] >>
      [] m = "PartitionDemand" ->            \* inputs: input, demand; outputs: outflow, extraction
            << [t \in 1..T(cs) |-> MaxR(Sub(in[1][t], MinR(in[2][t], in[1][t])), Zero)],
               [t \in 1..T(cs) |-> MinR(in[2][t], in[1][t])] >>
      [] m \in {"ApplyScalingFactor", "DeliveryRatio"} -> << [t \in 1..T(cs) |-> Mul(in[1][t], p[1])] >>
      [] m = "DepthToRate" ->                \* params: DeltaT, area
            << [t \in 1..T(cs) |-> Mul(in[1][t], Div(Mul(MM_TO_M, p[2]), p[1]))] >>
      [] m = "ComputeProportion" ->
            << [t \in 1..T(cs) |-> IF IsZero(in[2][t]) THEN p[1] ELSE Div(in[1][t], in[2][t])] >>
      [] m = "EmcDwc" ->                     \* params EMC, DWC; outputs quick, slow, total
            LET ql == [t \in 1..T(cs) |-> Mul(Mul(in[1][t], p[1]), MG_L_TO_KG_M3)]
                sl == [t \in 1..T(cs) |-> Mul(Mul(in[2][t], p[2]), MG_L_TO_KG_M3)]
            IN << ql, sl, Map2(Add, ql, sl) >>
      [] m = "FixedConcentration" -> << [t \in 1..T(cs) |-> Mul(Mul(in[1][t], p[1]), MG_L_TO_KG_M3)] >>
      [] m = "PassLoadIfFlow" ->             \* inputs flow, inputLoad; param scalingFactor
            << [t \in 1..T(cs) |-> IF Lt(EFFECTIVELY_ZERO, in[1][t]) THEN Mul(in[2][t], p[1]) ELSE Zero] >>
      [] m = "SednetDissolvedNutrientGeneration" ->   \* params EMC, DWC (mg/L); flows m^3/s; loads kg/s
            LET toL == Mul(SECONDS_PER_DAY, M3_TO_L)
                qk == [t \in 1..T(cs) |-> Div(Mul(Mul(p[1], MG_TO_KG), Mul(in[1][t], toL)), SECONDS_PER_DAY)]
                sk == [t \in 1..T(cs) |-> Div(Mul(Mul(p[2], MG_TO_KG), Mul(in[2][t], toL)), SECONDS_PER_DAY)]
            IN << qk, sk, Map2(Add, qk, sk) >>
      [] m = "Lag" ->                        \* param lag k (integer); states = carried buffer of length k
            LET k == p[1][1] IN
            << [t \in 1..T(cs) |-> IF t <= k THEN cs.states[t] ELSE in[1][t - k]] >>
      [] m = "Muskingum" ->                  \* params K, X, DeltaT; states S, prevInflow (total), prevOutflow
            << MuskOut(cs) >>
      [] m \in ConstituentModels -> Transpose(ConstituentRun(cs).rows)
      [] m = "BankErosion" ->
            << [t \in 1..T(cs) |-> Mul(BankTotal(p, in[1][t], in[2][t]), PCT(p[13]))],
               [t \in 1..T(cs) |-> Mul(BankTotal(p, in[1][t], in[2][t]), Sub(One, PCT(p[13])))] >>
      [] m \in {"DynamicSednetGully", "DynamicSednetGullyAlt"} ->
            [k \in 1..4 |-> [t \in 1..T(cs) |-> GullyStep(m = "DynamicSednetGullyAlt", p, in[1][t], in[2][t], in[3][t], in[4][t])[k]]]
      [] m = "USLEFineSedimentGeneration" ->
            [k \in 1..8 |-> [t \in 1..T(cs) |-> USLEStep(p, in[1][t], in[2][t], in[3][t], in[4][t], in[5][t])[k]]]
      [] m = "SednetParticulateNutrientGeneration" ->
            [k \in 1..5 |-> [t \in 1..T(cs) |-> ParticulateGen(p, in[1][t], in[2][t], in[3][t], in[4][t], in[5][t])[k]]]

\* final states (only for the two stateful models here)
St(cs) ==
    CASE cs.model = "Lag" ->
            LET k == cs.params[1][1]  all == cs.states \o cs.inputs[1] IN SubSeq(all, Len(all) - k + 1, Len(all))
      [] cs.model = "Muskingum" ->
            LET o == MuskOut(cs)  n == Len(o) IN
            << cs.states[1], Add(cs.inputs[1][n], cs.inputs[2][n]), o[n] >>
      [] cs.model \in ConstituentModels -> ConstituentRun(cs).st
      [] OTHER -> <<>>

---------------------------------------------------------------------------
(* grids *)
Vals == IF Grid = "small" THEN {R(0), R(2), R(4)} ELSE {R(0), R(1), R(3), R(8), Q(1, 2)}
ValsS == Vals \cup {R(-2)}                          \* including a negative value (negative demand)
Fracs == {R(0), Q(1, 4), Q(1, 2), Q(3, 4), R(1)}
Loads == {R(0), R(2), R(4)}
Flows == {R(0), Q(1, 200), Q(1, 2), R(2)}   \* 1/200 m3/s: a trickle BELOW the minimum volume as a rate but above it as a volume when DeltaT = 4
Vols == {R(0), R(10)}                     \* incl. an empty store (below the minimum volume when there is no outflow)
\* scale factors: 0 and 1 (values at which an implementation may be tempted to skip the pass), ordinary ones, and
\* 2^-27 = 7.45e-9 -- a genuine factor of the size of a unit conversion (mg -> t is 1e-9), exact in binary
Scales == {R(0), Q(1, 2), R(1), R(2), R(3), Q(1, 134217728)}
SeriesOf(S, n) == [1..n -> S]
TT == 2
TTR == IF Grid = "small" THEN 2 ELSE 4        \* series length of the routing cases

Tables == { <<R(2), R(0), R(4), R(1), Q(1, 2)>>,                              \* n=2: xs 0,4   ys 1, 1/2
            <<R(3), R(0), R(2), R(8), R(0), Q(1, 2), R(1)>>,                  \* n=3
            <<R(4), R(0), R(1), R(3), R(8), Q(1, 4), Q(1, 4), Q(3, 4), R(0)>>,
            <<R(3), R(0), R(2), R(8), R(0), Q(6, 5), Q(-1, 5)>> }             \* proportions outside [0,1]: the two outputs still sum to the input

Cases(m) ==
    CASE m \in {"Input"} -> {[model |-> m, params |-> <<>>, inputs |-> <<s>>, states |-> <<>>] : s \in SeriesOf(ValsS, TT)}
      [] m \in {"Sum"} -> {[model |-> m, params |-> <<>>, inputs |-> <<s, u>>, states |-> <<>>] : s \in SeriesOf(ValsS, TT), u \in SeriesOf(Vals, TT)}
      [] m = "Gate" -> {[model |-> m, params |-> <<>>, inputs |-> <<s, u>>, states |-> <<>>] : s \in SeriesOf(ValsS, TT), u \in SeriesOf(Vals, TT)}
      [] m = "FixedPartition" -> {[model |-> m, params |-> <<f>>, inputs |-> <<s>>, states |-> <<>>] : f \in Fracs, s \in SeriesOf(ValsS, TT)}
      [] m = "VariablePartition" -> {[model |-> m, params |-> <<>>, inputs |-> <<s, u>>, states |-> <<>>] : s \in SeriesOf(Vals, TT), u \in SeriesOf(Fracs, TT)}
      [] m = "RatingCurvePartition" -> {[model |-> m, params |-> tb, inputs |-> <<s>>, states |-> <<>>] :
                                          tb \in Tables, s \in SeriesOf({R(0), R(1), R(2), R(3), Q(7, 2), R(4)}, 1)}
      [] m = "PartitionDemand" -> {[model |-> m, params |-> <<>>, inputs |-> <<s, u>>, states |-> <<>>] : s \in SeriesOf(ValsS, TT), u \in SeriesOf(ValsS, TT)}
      [] m \in {"ApplyScalingFactor", "DeliveryRatio"} -> {[model |-> m, params |-> <<f>>, inputs |-> <<s>>, states |-> <<>>] : f \in Scales \cup Fracs, s \in SeriesOf(Vals, TT)}
      [] m = "DepthToRate" -> {[model |-> m, params |-> <<dt, ar>>, inputs |-> <<s>>, states |-> <<>>] :
                                   \* (50000 s and 7000 s do not divide the day: the factor is area/DeltaT, not area x steps-per-day/day)
                                   dt \in {R(86400), R(3600), R(50000), R(7000)}, ar \in {R(0), R(1000), R(250000)}, s \in SeriesOf(Vals, TT)}
      [] m = "ComputeProportion" -> {[model |-> m, params |-> <<f>>, inputs |-> <<s, u>>, states |-> <<>>] : f \in {R(0), R(1)}, s \in SeriesOf(Vals, TT), u \in SeriesOf(Vals, TT)}
      [] m \in {"EmcDwc", "SednetDissolvedNutrientGeneration"} ->
            {[model |-> m, params |-> <<e, d>>, inputs |-> <<s, u>>, states |-> <<>>] : e \in {R(0), R(2), R(50)}, d \in {R(0), R(3)}, s \in SeriesOf(Vals, TT), u \in SeriesOf(Vals, TT)}
      [] m = "FixedConcentration" -> {[model |-> m, params |-> <<e>>, inputs |-> <<s>>, states |-> <<>>] : e \in {R(0), R(2), R(50), Q(1, 2)}, s \in SeriesOf(Vals, TT)}
      [] m = "PassLoadIfFlow" -> {[model |-> m, params |-> <<f>>, inputs |-> <<s, u>>, states |-> <<>>] : f \in Scales, s \in SeriesOf(Vals, TT), u \in SeriesOf(Vals, TT)}
      [] m = "LumpedConstituentRouting" ->
            {[model |-> m, params |-> <<R(0), pi, dt>>, inputs |-> <<a, b, q, v>>, states |-> <<s0>>] :
               pi \in {R(0), R(1)}, dt \in {R(1), R(4)}, a \in SeriesOf(Loads, TT), b \in SeriesOf({R(0), R(2)}, TT),
               q \in SeriesOf(Flows, TT), v \in SeriesOf(Vols, TT), s0 \in {R(0), R(6)}}
      [] m = "ConstituentDecay" ->
            {[model |-> m, params |-> <<R(0), hl, R(4)>>, inputs |-> <<a, b, qi, q, v>>, states |-> <<s0>>] :
               hl \in {R(0), R(4), R(2)}, a \in SeriesOf(Loads, TT), b \in SeriesOf({R(0)}, TT), qi \in SeriesOf({R(1)}, TT),
               q \in SeriesOf(Flows, TT), v \in SeriesOf(Vols, TT), s0 \in {R(0), R(8)}}
      [] m = "StorageDissolvedDecay" ->      \* doStorageDecay = 0 (the decay-disabled clause of C12)
            {[model |-> m, params |-> <<dt, R(0), R(2), R(5), R(1)>>, inputs |-> <<a, qi, q, v>>, states |-> <<s0>>] :
               dt \in {R(1), R(4)}, a \in SeriesOf(Loads, TT), qi \in SeriesOf({R(1)}, TT),
               q \in SeriesOf(Flows, TT), v \in SeriesOf(Vols, TT), s0 \in {R(0), R(6)}}
      [] m = "StorageTrapAll" ->
            {[model |-> m, params |-> <<>>, inputs |-> <<a, qi, q, v>>, states |-> <<s0>>] :
               a \in SeriesOf(Loads, TT), qi \in SeriesOf({R(1)}, TT), q \in SeriesOf({R(2)}, TT), v \in SeriesOf({R(10)}, TT), s0 \in {R(0), R(6)}}
      [] m = "InstreamCoarseSediment" ->
            {[model |-> m, params |-> <<dt>>, inputs |-> <<a, b, cc>>, states |-> <<s0, s1>>] :
               dt \in {R(1), R(4)}, a \in SeriesOf(Loads, TT), b \in SeriesOf({R(0), R(2)}, TT), cc \in SeriesOf({R(0), R(1)}, TT),
               s0 \in {R(0), R(6)}, s1 \in {R(0), R(3)}}
      [] m = "InstreamParticulateNutrient" ->  \* one timestep per case, all branches: lateral sediment yes/no, deposition / resuspension, flush
            {[model |-> m, params |-> <<pc, R(50), dt>>, inputs |-> <<<<up>>, <<lat>>, <<v>>, <<q>>, <<sbe>>, <<ls>>, <<fpf>>, <<chf>>>>, states |-> <<s0, s1>>] :
               pc \in {R(0), Q(1, 2)}, dt \in {R(1), R(4)}, up \in {R(0), R(4)}, lat \in {R(0), R(2)}, v \in Vols, q \in {R(0), R(2)},
               sbe \in {R(0), R(4)}, ls \in {R(0), R(1)}, fpf \in {R(0), Q(1, 2), R(2)}, chf \in {Q(-1, 4), R(0), Q(1, 2), R(1)},
               s0 \in {R(0), R(6)}, s1 \in {R(8)}}
      [] m = "StorageParticulateTrapping" ->  \* index = 100 / inflow^2: 4, 1, 1/4 (and no inflow); efficiencies inside (0,100) and clamped at both ends; no reservoir length
            {[model |-> m, params |-> <<dt, R(100), ln, sb, mu, R(1), pw>>, inputs |-> <<a, qi, q, v>>, states |-> <<s0>>] :
               dt \in {R(1), R(4)}, ln \in {R(100), R(0)}, sb \in {R(100), R(112)}, mu \in {R(10), R(50)}, pw \in {R(0), R(1), R(2)},
               a \in {<<R(3), R(3)>>, <<R(0), R(3)>>, <<R(3), R(0)>>}, qi \in {<<R(0), R(5)>>, <<R(5), R(20)>>, <<R(20), R(0)>>, <<R(10), R(10)>>},
               q \in {<<R(2), R(2)>>, <<R(0), R(2)>>, <<R(0), R(0)>>}, v \in {<<R(10), R(10)>>, <<R(0), R(10)>>, <<R(0), R(0)>>}, s0 \in {R(0), R(6)}}
      [] m = "InstreamFineSediment" ->
            LET PA(dt) == <<R(0), R(1), R(0), R(1), R(2), R(1), R(1), Q(1, 2), R(2), R(1), R(8640), R(4320), dt>>     \* no bank-full flow: lumped transport
                \* bank-full 16, no floodplain area, room for 2000 kg, capacities: deposition above P14(q) t, remobilisation below 2 P14(q) t
                PB(dt) == <<R(16), R(1), R(0), R(1), R(2), R(1), R(1), Q(1, 2), R(2), R(1), R(8640), R(4320), dt>>
                \* bank-full 16, huge floodplain, room for 640 t, wide rough channel: deposition above P14(q)/32 t, remobilisation below P14(q)/64 t
                PC(dt) == <<R(16), R(1), R(1000000), R(32), R(20), R(1), R(1), Q(1, 2), R(2), R(32), R(8640), R(17280), dt>>
                \* outflow exactly AT bank-full flow (32), without and with a floodplain
                PD(dt) == <<R(32), R(1), R(0), R(1), R(2), R(1), R(1), Q(1, 2), R(2), R(1), R(8640), R(4320), dt>>
                PE(dt) == <<R(32), R(1), R(1000000), R(1), R(2), R(1), R(1), Q(1, 2), R(2), R(1), R(8640), R(4320), dt>>
                PSets == {PA(R(1)), PA(R(4)), PB(R(1)), PB(R(4)), PC(R(1)), PC(R(4)), PD(R(1)), PE(R(4))}
            IN {cs \in {[model |-> m, params |-> p, inputs |-> <<<<up>>, <<lat>>, <<loc>>, <<v>>, <<q>>>>, states |-> <<s0, s1>>] :
                   p \in PSets, up \in {R(0), R(500), R(1500)}, lat \in {R(0), R(250)}, loc \in {R(0), R(1000)}, v \in Vols, q \in {R(0), R(1), R(32)},
                   s0 \in {R(0), R(1000), R(2000), Q(-1, 2)}, s1 \in {R(0), R(600)}} : ~(IsZero(cs.params[1]) /\ Lt(cs.states[1], Zero))}
               \cup
               {[model |-> m, params |-> p, inputs |-> <<up, <<R(0), R(0)>>, loc, <<R(10), R(10)>>, q>>, states |-> <<s0, s1>>] :
                   p \in {PA(R(1)), PB(R(1)), PC(R(1))}, up \in SeriesOf({R(0), R(1500)}, 2), loc \in {<<R(0), R(0)>>, <<R(1000), R(0)>>},
                   q \in SeriesOf({R(1), R(32)}, 2), s0 \in {R(0), R(1000)}, s1 \in {R(0), R(600)}}
      [] m = "BankErosion" ->       \* one timestep; integer power factors 0, 1, 2; not-configured long-term flow; zero flow / zero volume
            {[model |-> m, params |-> <<rv, R(50), R(40), Q(1, 10), Q(1, 100), R(5), R(1), R(2), R(3), R(10), pw, lt, pf, dt>>,
              inputs |-> <<<<fl>>, <<vol>>>>, states |-> <<>>] :
               rv \in {R(0), R(30), R(80)}, pw \in {R(0), R(1), R(2)}, lt \in {R(0), R(4)}, pf \in {R(0), R(25), R(100)}, dt \in {R(1), R(2)},
               fl \in {R(0), R(3), Q(1, 2)}, vol \in {R(0), R(7)}}
      [] m \in {"DynamicSednetGully", "DynamicSednetGullyAlt"} ->
            {[model |-> m, params |-> <<R(2000), R(2010), R(5), af, R(6), pf, mp, lt, pw, R(50), R(20), dt>>,
              inputs |-> <<<<q>>, <<yr>>, <<ar>>, <<al>>>>, states |-> <<>>] :
               af \in {Q(1, 2), R(2)}, pf \in {R(0), R(25)}, mp \in {R(1), Q(1, 2)}, lt \in {R(0), R(2)}, pw \in {R(0), R(1), R(2)}, dt \in {R(1), R(4)},
               q \in {R(0), R(3), Q(1, 2)}, yr \in {R(1999), R(2005), R(2015)}, ar \in {R(0), R(8)}, al \in {R(0), R(9)}}
            \* ... and three timesteps whose years are NOT in order (every timestep stands for itself)
            \cup {[model |-> m, params |-> <<R(2000), R(2010), R(5), af, R(6), R(25), R(1), R(2), pw, R(50), R(20), R(1)>>,
              inputs |-> <<<<R(3), q, R(3)>>, <<ys[1], ys[2], ys[3]>>, <<R(8), R(8), R(8)>>, <<R(0), R(0), R(9)>>>>, states |-> <<>>] :
               af \in {Q(1, 2), R(2)}, pw \in {R(0), R(1)}, q \in {R(3), Q(1, 2)},
               ys \in {<<R(1999), R(2015), R(2005)>>, <<R(2015), R(2005), R(2015)>>, <<R(2005), R(2015), R(1999)>>}}
      [] m = "SednetParticulateNutrientGeneration" ->
            {[model |-> m, params |-> <<R(100), c1, R(50), R(2), c2, R(3), R(20), dw, cr>>,
              inputs |-> <<<<a>>, <<b>>, <<cc>>, <<d>>, <<sl>>>>, states |-> <<>>] :
               c1 \in {R(0), Q(1, 2)}, c2 \in {R(0), R(2)}, dw \in {R(0), R(4)}, cr \in {R(0), R(1)},
               a \in {R(0), R(4)}, b \in {R(0), R(2)}, cc \in {R(0), R(6)}, d \in {R(0), R(2)}, sl \in {R(0), R(3)}}
      [] m = "USLEFineSedimentGeneration" ->
            {[model |-> m, params |-> <<R(0), R(0), th, al, be, et, R(1), R(1), R(1), dw, R(1), R(1), R(50), R(20000), mc, R(50), R(20), dt>>,
              inputs |-> <<<<qf>>, <<sf>>, <<rn>>, <<kl>>, <<kf>>, <<R(1)>>, <<R(15)>>>>, states |-> <<>>] :
               th \in {R(0), R(5)}, al \in {Q(1, 2)}, be \in {R(1), R(2)}, et \in {R(0), Q(1, 2)}, dw \in {R(0), R(3)}, mc \in {R(1), R(1000)}, dt \in {R(1), R(4)},
               qf \in {R(0), Q(1, 2), R(2)}, sf \in {R(0), R(2)}, rn \in {R(0), R(4), R(8)}, kl \in {R(0), Q(1, 2)}, kf \in {R(0), Q(1, 4)}}
      [] m = "Lag" -> UNION {{[model |-> m, params |-> <<R(k)>>, inputs |-> <<s>>, states |-> b] : s \in SeriesOf(Vals, n), b \in SeriesOf({R(1), R(7)}, k)} :
                              k \in 0..(TTR + 2), n \in 1..TTR}
      [] m = "Muskingum" -> {[model |-> m, params |-> p, inputs |-> <<s, u>>, states |-> <<R(0), pi, po>>] :
                               \* (the last two have 2KX > DeltaT: the weight on the current inflow is negative, -1/2 and -1/3, and the weights still sum to one)
                               p \in {<<R(1), R(0), R(2)>>, <<R(2), Q(1, 2), R(2)>>, <<R(4), Q(1, 4), R(4)>>, <<R(86400), Q(1, 4), R(86400)>>,
                                      <<R(3), Q(1, 2), R(1)>>, <<R(4), Q(1, 2), R(2)>>},
                               s \in SeriesOf({R(0), R(4), R(8)}, TTR), u \in SeriesOf({R(0), R(4)}, TTR),
                               pi \in {R(0), R(8)}, po \in {R(0), R(8)}}

Init == /\ c \in UNION {Cases(m) : m \in Models} /\ emitted = FALSE
Step == /\ ~emitted /\ emitted' = TRUE /\ c' = c
        /\ (Emit => PrintT(ToJson([exact |-> c, out |-> Out(c), st |-> St(c)])))
Spec == Init /\ [][Step]_vars

---------------------------------------------------------------------------
(* the identities of C16 and C11, as invariants over every case *)
O == Out(c)
In == c.inputs
AllT(P(_)) == \A t \in 1..T(c) : P(t)

PartitionsSum == c.model \in {"FixedPartition", "VariablePartition", "RatingCurvePartition", "PartitionDemand"} =>
                    AllT(LAMBDA t : Eq(Add(O[1][t], O[2][t]), In[1][t]))
DemandBounds == c.model = "PartitionDemand" =>
                    AllT(LAMBDA t : /\ Le(O[2][t], In[2][t]) /\ Le(O[2][t], In[1][t])       \* extraction <= demand, availability
                                    /\ Le(Zero, O[1][t]))                                   \* outflow never negative
Identities == /\ (c.model = "Input" => O[1] = In[1])
              /\ (c.model = "Gate" => AllT(LAMBDA t : Eq(O[1][t], In[2][t]) \/ IsZero(O[1][t])))
              /\ (c.model \in {"ApplyScalingFactor", "DeliveryRatio"} => AllT(LAMBDA t : Eq(O[1][t], Mul(c.params[1], In[1][t]))))
TotalsAreSums == c.model \in {"EmcDwc", "SednetDissolvedNutrientGeneration"} => AllT(LAMBDA t : Eq(O[3][t], Add(O[1][t], O[2][t])))
ZeroDriverZeroLoad == c.model \in {"EmcDwc", "SednetDissolvedNutrientGeneration", "FixedConcentration"} =>
                         AllT(LAMBDA t : (IsZero(In[1][t]) => IsZero(O[1][t])) /\ Le(Zero, O[1][t]))
\* linear in flow and concentration with the mg/L -> kg/m3 factor
ConcentrationLinear == c.model = "FixedConcentration" => AllT(LAMBDA t : Eq(Mul(O[1][t], R(1000)), Mul(In[1][t], c.params[1])))
\* the two concentration generators agree (kg/s = m3/s * mg/L * 1e-3)
GeneratorsAgree == c.model = "SednetDissolvedNutrientGeneration" =>
                     AllT(LAMBDA t : Eq(O[1][t], Mul(Mul(In[1][t], c.params[1]), MG_L_TO_KG_M3)))
\* C16, generators with (here integer) power factors
\* fine + coarse material split by the model's fine fraction; delivered load = generated load x delivery ratio
BankSplit == c.model = "BankErosion" => AllT(LAMBDA t :
                 LET tot == Add(O[1][t], O[2][t]) IN Eq(O[1][t], Mul(tot, PCT(c.params[13]))))
GullyDelivered == c.model \in {"DynamicSednetGully", "DynamicSednetGullyAlt"} => AllT(LAMBDA t :
                 /\ Eq(O[1][t], Mul(O[3][t], PCT(c.params[10]))) /\ Eq(O[2][t], Mul(O[4][t], PCT(c.params[11])))
                 \* before the gullies stop being active the generated material is split by the fine fraction
                 /\ (Le(In[2][t], c.params[2]) => Eq(O[3][t], Mul(Add(O[3][t], O[4][t]), PCT(c.params[6])))))
GenTotals == /\ (c.model = "SednetParticulateNutrientGeneration" => AllT(LAMBDA t :
                     /\ Eq(O[3][t], Add(O[1][t], O[2][t])) /\ Eq(O[1][t], Add(O[4][t], O[5][t]))))
             /\ (c.model = "USLEFineSedimentGeneration" => AllT(LAMBDA t :
                     /\ Eq(O[5][t], Add(O[1][t], O[2][t])) /\ Eq(O[6][t], Add(O[3][t], O[4][t]))
                     \* delivered = generated x hillslope delivery ratio
                     /\ Eq(O[1][t], Mul(O[7][t], PCT(c.params[16]))) /\ Eq(O[3][t], Mul(O[8][t], PCT(c.params[17])))))
\* every generated load is zero when its driver is zero and non-negative when its drivers are
GenZeroDriver == /\ (c.model = "BankErosion" => AllT(LAMBDA t : (IsZero(In[1][t]) \/ IsZero(In[2][t])) => (IsZero(O[1][t]) /\ IsZero(O[2][t]))))
                 /\ (c.model \in {"DynamicSednetGully", "DynamicSednetGullyAlt"} =>
                        AllT(LAMBDA t : IsZero(In[1][t]) => \A k \in 1..4 : IsZero(O[k][t])))
                 \* drivers of USLE: quick flow and erosive rainfall (above the threshold); slow flow for the slow load
                 /\ (c.model = "USLEFineSedimentGeneration" =>
                        AllT(LAMBDA t : /\ ((IsZero(In[1][t]) \/ Le(In[3][t], c.params[3])) => (IsZero(O[1][t]) /\ IsZero(O[3][t]) /\ IsZero(O[7][t]) /\ IsZero(O[8][t])))
                                        /\ (IsZero(In[2][t]) => IsZero(O[2][t]))))
                 /\ (c.model = "SednetParticulateNutrientGeneration" =>
                        AllT(LAMBDA t : /\ (IsZero(Add(In[1][t], In[2][t])) => IsZero(O[4][t]))
                                        /\ (IsZero(Add(In[3][t], In[4][t])) => IsZero(O[5][t]))
                                        /\ (IsZero(In[5][t]) => IsZero(O[2][t]))))
GenNonNegative == c.model \in GeneratorModels => \A k \in 1..Len(O) : AllT(LAMBDA t : Le(Zero, O[k][t]))

\* C12: mass entering + initially stored = mass leaving downstream + trapped/decayed/deposited + finally stored
\* (+ what the documented minimum-volume flush discards); nothing negative for non-negative inputs
DT == CASE c.model = "LumpedConstituentRouting" -> c.params[3] [] c.model = "ConstituentDecay" -> c.params[3]
        [] c.model = "StorageDissolvedDecay" -> c.params[1] [] c.model = "InstreamCoarseSediment" -> c.params[1]
        [] c.model = "InstreamParticulateNutrient" -> c.params[3] [] c.model = "InstreamFineSediment" -> c.params[13]
        [] c.model = "StorageParticulateTrapping" -> c.params[1] [] OTHER -> One
MassIn == CASE c.model = "LumpedConstituentRouting" -> Mul(Add(Add(SumR(In[1]), SumR(In[2])), Mul(c.params[2], R(T(c)))), DT)
            [] c.model = "ConstituentDecay" -> Mul(Add(SumR(In[1]), SumR(In[2])), DT)
            [] c.model \in {"StorageDissolvedDecay", "StorageParticulateTrapping"} -> Mul(SumR(In[1]), DT)
            [] c.model = "StorageTrapAll" -> SumR(In[1])
            [] c.model \in {"InstreamCoarseSediment", "InstreamFineSediment"} -> Mul(Add(Add(SumR(In[1]), SumR(In[2])), SumR(In[3])), DT)
            \* upstream + lateral + streambank erosion x nutrient concentration
            [] c.model = "InstreamParticulateNutrient" -> Mul(Add(Add(SumR(In[1]), SumR(In[2])), Mul(SumR(In[5]), c.params[1])), DT)
MassOut == CASE c.model = "LumpedConstituentRouting" -> Mul(SumR(O[1]), DT)                       \* outflowLoad
             [] c.model = "ConstituentDecay" -> Mul(Add(SumR(O[1]), SumR(O[2])), DT)               \* decayed + outflow
             [] c.model = "StorageDissolvedDecay" -> Mul(SumR(O[2]), DT)                           \* outflowMass
             [] c.model = "StorageTrapAll" -> Add(SumR(O[1]), SumR(O[2]))                          \* trapped + outflow
             [] c.model = "StorageParticulateTrapping" -> Add(SumR(O[1]), Mul(SumR(O[2]), DT))     \* trapped (a mass) + outflow load
             [] c.model = "InstreamCoarseSediment" -> Mul(SumR(O[1]), DT)
             \* downstream + floodplain (net deposition on the bed is the change of the channel store, a state)
             [] c.model = "InstreamFineSediment" -> Mul(Add(SumR(O[1]), SumR(O[2])), DT)
             \* downstream + floodplain (deposition on the bed is the change of the channel store, a state)
             [] c.model = "InstreamParticulateNutrient" -> Mul(Add(SumR(O[3]), SumR(O[4])), DT)
MassConserved == c.model \in ConstituentModels =>
    Eq(Add(MassIn, SumR(InitSt(c))), Add(Add(MassOut, SumR(St(c))), ConstituentRun(c).flushed))
AllInputsNonNegative == \A j \in 1..Len(In) : \A t \in 1..T(c) : Le(Zero, In[j][t])
ConstituentNonNegative == (c.model \in ConstituentModels /\ AllInputsNonNegative) =>
    \* (the fine-sediment model reports NET bed deposition and its fraction, negative when the bed is remobilised)
    /\ \A k \in 1..(IF c.model = "InstreamFineSediment" THEN 2 ELSE Len(O)) : \A t \in 1..T(c) : Le(Zero, O[k][t])
    /\ \A k \in 1..Len(St(c)) : Le(Zero, St(c)[k])
\* the only permitted loss: the flush when the water volume is below the minimum-volume threshold
FlushOnlyWhenEmpty == c.model \in {"LumpedConstituentRouting", "ConstituentDecay", "StorageDissolvedDecay"} =>
    (~IsZero(ConstituentRun(c).flushed) =>
        \E t \in 1..T(c) : LET q == IF c.model = "ConstituentDecay" THEN In[4][t] ELSE In[3][t]
                                 v == IF c.model = "ConstituentDecay" THEN In[5][t] ELSE In[4][t]
                             IN Lt(Add(Mul(q, DT), v), MINIMUM_VOLUME))

\* remobilisation never exceeds what the fine-sediment channel store holds, deposition never exceeds the room left;
\* the reported fractions are the deposited shares of the mass present before deposition
RECURSIVE FineStores(_, _)
FineStores(t, store) == IF t > T(c) THEN <<>> ELSE <<store>> \o FineStores(t + 1, Add(store, O[3][t]))
FineStoreBounds == (c.model = "InstreamFineSediment" /\ ~IsZero(c.params[1])) =>
    LET stores == FineStores(1, InitSt(c)[1]) IN
    \A t \in 1..T(c) : /\ Le(Neg(O[3][t]), stores[t])
                         /\ (Le(stores[t], FineMaxStorage(c.params)) => Le(Add(stores[t], O[3][t]), FineMaxStorage(c.params)))
                         /\ Le(Zero, O[4][t]) /\ Le(O[4][t], One) /\ Le(O[5][t], One)
\* the flush of the fine-sediment model happens only in a reach without any water
FineFlushOnlyWhenDry == c.model = "InstreamFineSediment" =>
    (~IsZero(ConstituentRun(c).flushed) => \E t \in 1..T(c) : Lt(Add(Mul(In[5][t], DT), In[4][t]), MINIMUM_VOLUME))

\* C11 Lag: a pure delay line that loses nothing
LagConserves == c.model = "Lag" => Eq(Add(SumR(O[1]), SumR(St(c))), Add(SumR(c.states), SumR(In[1])))
LagDelays == c.model = "Lag" => LET k == c.params[1][1] IN
                \A t \in 1..T(c) : O[1][t] = (IF t <= k THEN c.states[t] ELSE In[1][t - k])
\* C11 Muskingum: weights sum to one; steady flow passes unchanged; trapezoidal storage balance
MuskWeights == c.model = "Muskingum" => LET a == MuskA(c.params) IN Eq(Add(Add(a[1], a[2]), a[3]), One)
MuskSteady == (c.model = "Muskingum" /\ (\A t \in 1..T(c) : Eq(Add(In[1][t], In[2][t]), c.states[2])) /\ Eq(c.states[2], c.states[3]))
                 => AllT(LAMBDA t : Eq(O[1][t], c.states[2]))
\* K (X I + (1-X) O) changes by dt * (mean inflow - mean outflow) over every step: nothing is created or lost
MuskStorage(i, o) == Mul(c.params[1], Add(Mul(c.params[2], i), Mul(Sub(One, c.params[2]), o)))
MuskBalance == c.model = "Muskingum" =>
    \A t \in 1..T(c) :
       LET i1 == Add(In[1][t], In[2][t])
           i0 == IF t = 1 THEN c.states[2] ELSE Add(In[1][t - 1], In[2][t - 1])
           o1 == O[1][t]
           o0 == IF t = 1 THEN c.states[3] ELSE O[1][t - 1]
       IN Eq(Sub(MuskStorage(i1, o1), MuskStorage(i0, o0)),
             Mul(c.params[3], Sub(Div(Add(i1, i0), R(2)), Div(Add(o1, o0), R(2)))))
=============================================================================
