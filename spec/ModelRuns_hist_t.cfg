\* C14: all histories of 5 actions over 2 objects, 2 parameter contents, base / changed-suffix / truncated inputs
SPECIFICATION Spec
CONSTANTS
  T = 4
  Objs = {1, 2}
  PVars = {1, 2}
  CutPoints = {1, 3}
  MaxOps = 6
  Splits = FALSE
  S0Kinds = {"given", "init"}
  HandOvers = {}
  OutKinds = {"zero"}
  Emit = TRUE
INVARIANTS Causal PureLabels SegmentLabels
CHECK_DEADLOCK FALSE
