SPECIFICATION Spec
CONSTANTS
  Models = {"Lag", "Muskingum"}
  Grid = "wide"
  Emit = TRUE
INVARIANTS LagConserves LagDelays MuskWeights MuskSteady MuskBalance
CHECK_DEADLOCK FALSE
