------------------------------ MODULE RunWrapper ------------------------------
(***************************************************************************)
(* One call of a generated model wrapper's  Run(inputs, states, outputs)   *)
(* (C04, C05, C-ABI half of C03), as the concurrent program it is:         *)
(*                                                                         *)
(*   main : spawn one process per cell (state row), receive one message    *)
(*          per cell on the unbuffered done channel, return.               *)
(*   cell i : read its parameter column  i % NP, its state row i, its      *)
(*          input block i % NB (timesteps 0..T-1), write output row i      *)
(*          (timesteps 0..T-1) and state row i, send i on the channel.     *)
(*                                                                         *)
(* The hydrology is an uninterpreted function: a value is a TERM that      *)
(* records which locations it was computed from.  mem maps every location  *)
(* of the four caller arrays to a term, initially <<"init", loc>>.  What a *)
(* cell writes is  <<"K", what, i, the sequence of terms it has READ>> ,   *)
(* so reading a location another cell has already overwritten, or using    *)
(* another cell's column/row/block, yields a different term.               *)
(*                                                                         *)
(* Locations are rows/timesteps (the real arrays have several states,      *)
(* inputs and outputs per cell; they travel together):                     *)
(*   <<"P", set>>        parameter column `set`  (0..NP-1)                 *)
(*   <<"S", cell>>       state row                (0..NC-1)                *)
(*   <<"I", blk, t>>     input block blk at timestep t (0..NB-1, 0..T-1)   *)
(*   <<"O", cell, t>>    output row cell at timestep t (0..OC-1, 0..OT-1)  *)
(* The output array may be larger than needed (OC >= NC, OT >= T).         *)
(*                                                                         *)
(* The configuration (NC, NP, NB, T, OC, OT, order of accesses inside a    *)
(* cell) is chosen in Init, so one TLC run covers all configurations       *)
(* within the bounds and all interleavings of each.                        *)
(***************************************************************************)
EXTENDS Integers, Sequences, FiniteSets, TLC, Json

CONSTANTS MaxNC, MaxNP, MaxNB, MaxT, MaxSlackC, MaxSlackT,
          Atomic,   \* BOOLEAN: a cell performs its whole program in one step (configuration enumeration
                    \* for wide bounds; interleavings are explored with Atomic = FALSE)
          Bug,      \* "none" | "sharedrow" (cells i and i+1 share a state row: self-test of NoRace)
          Emit

VARIABLES cfg,      \* [nc, np, nb, t, oc, ot, mode]
          mem,      \* location -> term
          pc,       \* cell -> program counter
          acc,      \* cell -> sequence of terms read so far
          reads, writes,   \* cell -> set of locations accessed
          mainpc, spawned, received, chan,   \* chan: cells parked on the unbuffered done channel
          emitted
vars == <<cfg, mem, pc, acc, reads, writes, mainpc, spawned, received, chan, emitted>>

Cells == 0..(cfg.nc - 1)
Locs(c) == {<<"P", s>> : s \in 0..(c.np - 1)} \cup {<<"S", i>> : i \in 0..(c.nc - 1)}
           \cup {<<"I", b, t>> : b \in 0..(c.nb - 1), t \in 0..(c.t - 1)}
           \cup {<<"O", i, t>> : i \in 0..(c.oc - 1), t \in 0..(c.ot - 1)}

PCol(i) == i % cfg.np
Blk(i) == i % cfg.nb
Row(i) == IF Bug = "sharedrow" THEN (i \div 2) * 2 ELSE i

\* the access sequence of a cell: list of <<kind, loc>>, kind in {"r","w"}
\*  mode "stream": kernels that receive their output series as arguments read input t, write output t
\*  mode "batch" : kernels that return their outputs: all reads, then all writes
Program(i) ==
    LET rP == << <<"r", <<"P", PCol(i)>> >> >>
        rS == << <<"r", <<"S", Row(i)>> >> >>
        rI == [t \in 1..cfg.t |-> <<"r", <<"I", Blk(i), t - 1>> >>]
        wO == [t \in 1..cfg.t |-> <<"w", <<"O", i, t - 1>> >>]
        wS == << <<"w", <<"S", Row(i)>> >> >>
        zip == [k \in 1..(2 * cfg.t) |-> IF k % 2 = 1 THEN rI[(k + 1) \div 2] ELSE wO[k \div 2]]
    IN IF cfg.mode = "stream" THEN rP \o rS \o zip \o wS
       ELSE rP \o rS \o rI \o wO \o wS

Configs == {c \in [nc : 1..MaxNC, np : 1..MaxNP, nb : 1..MaxNB, t : 1..MaxT,
                   oc : 1..(MaxNC + MaxSlackC), ot : 1..(MaxT + MaxSlackT), mode : {"stream", "batch"}] :
              /\ c.oc >= c.nc /\ c.oc <= c.nc + MaxSlackC
              /\ c.ot >= c.t /\ c.ot <= c.t + MaxSlackT}

Init == /\ cfg \in Configs
        /\ mem = [l \in Locs(cfg) |-> <<"init", l>>]
        /\ pc = [i \in 0..(cfg.nc - 1) |-> 0]      \* 0 = not started
        /\ acc = [i \in 0..(cfg.nc - 1) |-> <<>>]
        /\ reads = [i \in 0..(cfg.nc - 1) |-> {}]
        /\ writes = [i \in 0..(cfg.nc - 1) |-> {}]
        /\ mainpc = "spawn" /\ spawned = 0 /\ received = 0 /\ chan = {} /\ emitted = FALSE

\* ---- main ----
Spawn == /\ mainpc = "spawn" /\ spawned < cfg.nc
         /\ pc' = [pc EXCEPT ![spawned] = 1]
         /\ spawned' = spawned + 1
         /\ UNCHANGED <<cfg, mem, acc, reads, writes, mainpc, received, chan, emitted>>
SpawnDone == /\ mainpc = "spawn" /\ spawned = cfg.nc
             /\ mainpc' = "join"
             /\ UNCHANGED <<cfg, mem, pc, acc, reads, writes, spawned, received, chan, emitted>>
\* unbuffered channel: a receive completes together with one parked sender
Receive == /\ mainpc = "join" /\ received < cfg.nc
           /\ \E i \in chan :
                /\ chan' = chan \ {i}
                /\ pc' = [pc EXCEPT ![i] = -1]          \* -1 = finished
           /\ received' = received + 1
           /\ UNCHANGED <<cfg, mem, acc, reads, writes, mainpc, spawned, emitted>>
Return == /\ mainpc = "join" /\ received = cfg.nc
          /\ mainpc' = "returned"
          /\ UNCHANGED <<cfg, mem, pc, acc, reads, writes, spawned, received, chan, emitted>>

\* ---- cell i: one atomic memory access per step ----
Access(i) ==
    /\ ~Atomic
    /\ pc[i] >= 1 /\ pc[i] <= Len(Program(i))
    /\ LET a == Program(i)[pc[i]]
           loc == a[2]
       IN IF a[1] = "r"
          THEN /\ acc' = [acc EXCEPT ![i] = Append(@, mem[loc])]
               /\ reads' = [reads EXCEPT ![i] = @ \cup {loc}]
               /\ UNCHANGED <<mem, writes>>
          ELSE /\ mem' = [mem EXCEPT ![loc] = <<"K", loc[1], i, acc[i]>>]
               /\ writes' = [writes EXCEPT ![i] = @ \cup {loc}]
               /\ UNCHANGED <<acc, reads>>
    /\ pc' = [pc EXCEPT ![i] = @ + 1]
    /\ UNCHANGED <<cfg, mainpc, spawned, received, chan, emitted>>
Send(i) == /\ pc[i] = Len(Program(i)) + 1 /\ i \notin chan
           /\ chan' = chan \cup {i}
           /\ pc' = [pc EXCEPT ![i] = @ + 1]           \* parked in the send
           /\ UNCHANGED <<cfg, mem, acc, reads, writes, mainpc, spawned, received, emitted>>

\* ---- the sequential reference: cells 0..NC-1 one after the other, each atomically ----
RECURSIVE RunProgram(_, _, _, _)
RunProgram(m, a, prog, i) ==
    IF prog = <<>> THEN m
    ELSE LET h == Head(prog) IN
         IF h[1] = "r" THEN RunProgram(m, Append(a, m[h[2]]), Tail(prog), i)
         ELSE RunProgram([m EXCEPT ![h[2]] = <<"K", h[2][1], i, a>>], a, Tail(prog), i)

AccessAll(i) ==
    /\ Atomic /\ pc[i] = 1
    /\ mem' = RunProgram(mem, <<>>, Program(i), i)
    /\ reads' = [reads EXCEPT ![i] = {Program(i)[k][2] : k \in {k \in 1..Len(Program(i)) : Program(i)[k][1] = "r"}}]
    /\ writes' = [writes EXCEPT ![i] = {Program(i)[k][2] : k \in {k \in 1..Len(Program(i)) : Program(i)[k][1] = "w"}}]
    /\ pc' = [pc EXCEPT ![i] = Len(Program(i)) + 1]
    /\ UNCHANGED <<cfg, acc, mainpc, spawned, received, chan, emitted>>
RECURSIVE SeqFrom(_, _)
SeqFrom(m, i) == IF i = cfg.nc THEN m ELSE SeqFrom(RunProgram(m, <<>>, Program(i), i), i + 1)
SequentialResult == SeqFrom([l \in Locs(cfg) |-> <<"init", l>>], 0)

\* what the statement of C04 says directly (no execution): cell i's results are K of exactly its own
\* column / row / block; everything else keeps its initial content
ReadsOf(i, upto) ==
    << <<"init", <<"P", PCol(i)>> >>, <<"init", <<"S", i>> >> >>
       \o [t \in 1..upto |-> <<"init", <<"I", Blk(i), t - 1>> >>]
Declarative ==
    [l \in Locs(cfg) |->
        IF l[1] = "S" THEN <<"K", "S", l[2], ReadsOf(l[2], cfg.t)>>
        ELSE IF l[1] = "O" /\ l[2] < cfg.nc /\ l[3] < cfg.t
             THEN <<"K", "O", l[2], ReadsOf(l[2], IF cfg.mode = "stream" THEN l[3] + 1 ELSE cfg.t)>>
             ELSE <<"init", l>>]

Finish == /\ mainpc = "returned" /\ ~emitted
          /\ emitted' = TRUE
          /\ (Emit => PrintT(ToJson([run |-> [nc |-> cfg.nc, np |-> cfg.np, nb |-> cfg.nb, t |-> cfg.t,
                                             oc |-> cfg.oc, ot |-> cfg.ot, mode |-> cfg.mode,
                                             cells |-> [i \in 1..cfg.nc |-> [cell |-> i - 1, pcol |-> PCol(i - 1), blk |-> Blk(i - 1)]],
                                             written |-> {l \in Locs(cfg) : mem[l][1] = "K"},
                                             untouched |-> Cardinality({l \in Locs(cfg) : mem[l][1] = "init"})]])))
          /\ UNCHANGED <<cfg, mem, pc, acc, reads, writes, mainpc, spawned, received, chan>>

Next == Spawn \/ SpawnDone \/ Receive \/ Return \/ Finish
        \/ \E i \in 0..(cfg.nc - 1) : Access(i) \/ AccessAll(i) \/ Send(i)
Spec == Init /\ [][Next]_vars
FairSpec == Spec /\ WF_vars(Next)

---------------------------------------------------------------------------
(* What TLC decides *)

\* C05: no two cells ever conflict (one writes what the other reads or writes)
NoRace == \A i, j \in 0..(cfg.nc - 1) : i # j => writes[i] \cap (reads[j] \cup writes[j]) = {}

\* C05: Run returns only after every cell goroutine has finished
JoinBeforeReturn == mainpc = "returned" => \A i \in 0..(cfg.nc - 1) : pc[i] = -1

\* C05: whatever the interleaving, the result is the sequential cell-by-cell result
ScheduleIndependent == mainpc = "returned" => mem = SequentialResult

\* C04: ... which is exactly "each cell alone with its own column, row, block; nothing else touched"
PerCellAndFrame == (mainpc = "returned" /\ Bug = "none") => mem = Declarative

\* C04: inputs and parameters are never written; output slack is never written
FrameAlways == \A l \in Locs(cfg) :
                  (l[1] \in {"P", "I"} \/ (l[1] = "O" /\ (l[2] >= cfg.nc \/ l[3] >= cfg.t))) => mem[l] = <<"init", l>>

\* the footprints of Program(i) as plain sets -- the form in which RunFootprintProof.tla (TLAPS) proves NoRace for ANY
\* number of cells, parameter sets, input blocks and timesteps; TLC checks here that the two formulations coincide
SetW(i) == {<<"S", i>>} \cup {<<"O", i, t>> : t \in 0..(cfg.t - 1)}
SetR(i) == {<<"P", i % cfg.np>>, <<"S", i>>} \cup {<<"I", i % cfg.nb, t>> : t \in 0..(cfg.t - 1)}
ProgLocs(i, k) == {Program(i)[n][2] : n \in {n \in 1..Len(Program(i)) : Program(i)[n][1] = k}}
FootprintsAreSets == Bug = "none" => \A i \in 0..(cfg.nc - 1) : ProgLocs(i, "w") = SetW(i) /\ ProgLocs(i, "r") = SetR(i)

\* every Run call terminates (under fair scheduling of goroutines)
Terminates == <>(mainpc = "returned")
=============================================================================
