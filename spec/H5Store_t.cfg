SPECIFICATION Spec
CONSTANTS
  Paths <- PathsQ
  Shapes <- ShapesT
  Layouts <- Lay4
  MaxOps = 3
  MaxStep = 3
  Emit = TRUE
INVARIANTS TypeOK
PROPERTIES Stable BlockExact
CHECK_DEADLOCK FALSE
