SPECIFICATION Spec
CONSTANTS
  Paths <- PathsQ
  Shapes <- ShapesT
  Layouts <- Lay4
  MaxOps = 3
  MaxStep = 3
  Fills = {0, 7}
  ValKinds = {"fresh", "zero"}
  Emit = TRUE
INVARIANTS TypeOK
PROPERTIES Stable BlockExact
CHECK_DEADLOCK FALSE
