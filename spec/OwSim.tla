-------------------------------- MODULE OwSim --------------------------------
(***************************************************************************)
(* The execution protocol of ow-sim (C07, ow-sim half of C05):             *)
(*   main      for every generation i: run it (one goroutine per model     *)
(*             type that has nodes in i, joined on a channel), start the   *)
(*             asynchronous writer W_i, apply the links whose source is    *)
(*             generation <= i (lazily loading destination generations);   *)
(*             finally drain: receive on `writingDone` until the last      *)
(*             generation's token arrives, passing other tokens back.      *)
(*   W_g       (g > 0) receive a token prevG, purge generation prevG of    *)
(*             every model; if prevG # g-1 pass the token back, sleep and  *)
(*             retry; then write generation g and send token g.            *)
(*   writingDone is an UNBUFFERED Go channel: a sender parks until a       *)
(*             receiver takes its value and vice versa; the Go runtime     *)
(*             serves parked receivers and parked senders FIFO.  Both      *)
(*             queues are modelled explicitly (sendq, recvq).              *)
(* cmd/ow-sim/main.go, running.go, simulation_model_reference.go are       *)
(* transcribed step by step: one action per statement that touches shared  *)
(* state (generation table, channel, output file).                         *)
(***************************************************************************)
EXTENDS Integers, Sequences, FiniteSets, TLC

CONSTANTS NGen,        \* number of generations (0..NGen-1)
          Models,      \* model types, e.g. {m1, m2}
          HasNodes,    \* [Models -> [0..NGen-1 -> BOOLEAN]]: model has nodes in that generation
          Links,       \* sequence of [sg, dg, sm, dm] sorted by sg (source generation), sg < dg
          Output,      \* BOOLEAN: an output file was given (writers exist)
          FIFO         \* BOOLEAN: parked receivers are served in arrival order (Go runtime); FALSE = any order

Gens == 0..(NGen - 1)
Writers == IF Output THEN Gens ELSE {}
Main == -1                      \* process ids: main = -1, writer of generation g = g
Procs == {Main} \cup Writers

VARIABLES
    mainpc, gi,            \* main's program counter and current generation
    nextLink,              \* index into Links (1-based) of the next link to apply
    running,               \* model goroutines of the current generation that have not finished
    gen,                   \* [Models -> [Gens -> "absent" | "loaded" | "ran" | "purged"]]
    wpc,                   \* writer program counters
    got,                   \* value last received by each process
    sendq, recvq,          \* parked senders <<proc, value>> / parked receivers, in arrival order
    writes,                \* [Gens -> number of times the generation was written]
    writing,               \* set of writers inside writeGeneration
    bad                    \* set of strings: things that must never happen
vars == <<mainpc, gi, nextLink, running, gen, wpc, got, sendq, recvq, writes, writing, bad>>

Init ==
    /\ mainpc = "rungen" /\ gi = 0 /\ nextLink = 1 /\ running = {}
    /\ gen = [m \in Models |-> [g \in Gens |-> "absent"]]
    /\ wpc = [g \in Writers |-> "unborn"]
    /\ got = [p \in Procs |-> -1]
    /\ sendq = <<>> /\ recvq = <<>>
    /\ writes = [g \in Gens |-> 0] /\ writing = {} /\ bad = {}

\* ---- GetGeneration / PurgeGeneration on the shared table ----
Load(tbl, m, g) == IF tbl[m][g] = "absent" THEN [tbl EXCEPT ![m][g] = "loaded"]
                   ELSE tbl        \* a purged generation would be RE-loaded from the input file: flagged by callers
LoadAll(tbl, g) == [m \in Models |-> [h \in Gens |-> IF h = g /\ tbl[m][h] = "absent" THEN "loaded" ELSE tbl[m][h]]]

\* ---- the unbuffered channel ----
\* p sends v: if a receiver is parked, hand over (receiver wakes with the value); else park
Send(p, v, cont(_, _)) ==
    IF recvq # <<>>
    THEN \E k \in (IF FIFO THEN {1} ELSE 1..Len(recvq)) :
            LET r == recvq[k] IN
            /\ recvq' = [j \in 1..(Len(recvq) - 1) |-> IF j < k THEN recvq[j] ELSE recvq[j + 1]]
            /\ got' = [got EXCEPT ![r] = v]
            /\ sendq' = sendq
            /\ cont(TRUE, r)
    ELSE /\ sendq' = Append(sendq, <<p, v>>)
         /\ UNCHANGED <<recvq, got>>
         /\ cont(FALSE, p)
\* p receives: if a sender is parked take its value (sender wakes); else park
Recv(p, cont(_, _)) ==
    IF sendq # <<>>
    THEN LET s == sendq[1] IN
         /\ sendq' = Tail(sendq)
         /\ got' = [got EXCEPT ![p] = s[2]]
         /\ recvq' = recvq
         /\ cont(TRUE, s[1])
    ELSE /\ recvq' = Append(recvq, p)
         /\ UNCHANGED <<sendq, got>>
         /\ cont(FALSE, p)

\* program counters after a rendezvous: the process that was parked continues from its "parked" pc
\* main parked pcs: "drain-parked-recv", "drain-parked-send"; writers: "parked-recv", "parked-send-back", "parked-send-done"
WakeW(w, partner) ==   \* new wpc when `partner` (a parked process) is woken by a rendezvous; w is the acting writer
    [x \in Writers |->
        IF x = partner
        THEN (CASE wpc[x] = "parked-recv" -> "gotprev"
                [] wpc[x] = "parked-send-back" -> "sleep"
                [] wpc[x] = "parked-send-done" -> "done"
                [] OTHER -> wpc[x])
        ELSE wpc[x]]
WakeMain(partner) ==
    IF partner = Main
    THEN (CASE mainpc = "drain-parked-recv" -> "drain-check"
            [] mainpc = "drain-parked-send" -> "drain-sleep"
            [] OTHER -> mainpc)
    ELSE mainpc

---------------------------------------------------------------------------
(* main *)

\* runGeneration(i): GetGeneration(i) for every model, one goroutine per model with nodes
RunGen ==
    /\ mainpc = "rungen"
    /\ (\E m \in Models : gen[m][gi] = "purged") => bad' = bad \cup {"reload-of-purged-generation"}
    /\ (~\E m \in Models : gen[m][gi] = "purged") => bad' = bad
    /\ gen' = LoadAll(gen, gi)
    /\ running' = {m \in Models : HasNodes[m][gi]}
    /\ mainpc' = "waitmodels"
    /\ UNCHANGED <<gi, nextLink, wpc, got, sendq, recvq, writes, writing>>

\* one model goroutine finishes g.Run(); every link into this generation must have been applied
LinksInto(g) == {k \in 1..Len(Links) : Links[k].dg = g}
ModelRun(m) ==
    /\ mainpc = "waitmodels" /\ m \in running
    /\ gen' = [gen EXCEPT ![m][gi] = "ran"]
    /\ running' = running \ {m}
    /\ bad' = IF \E k \in LinksInto(gi) : k >= nextLink THEN bad \cup {"run-before-links-applied"} ELSE bad
    /\ UNCHANGED <<mainpc, gi, nextLink, wpc, got, sendq, recvq, writes, writing>>

GenDone ==
    /\ mainpc = "waitmodels" /\ running = {}
    /\ mainpc' = "spawnwriter"
    /\ UNCHANGED <<gi, nextLink, running, gen, wpc, got, sendq, recvq, writes, writing, bad>>

SpawnWriter ==
    /\ mainpc = "spawnwriter"
    /\ wpc' = IF Output THEN [wpc EXCEPT ![gi] = "start"] ELSE wpc
    /\ mainpc' = "links"
    /\ UNCHANGED <<gi, nextLink, running, gen, got, sendq, recvq, writes, writing, bad>>

\* apply the next link if its source generation is <= gi (reads the source outputs, lazily loads the destination)
ApplyLink ==
    /\ mainpc = "links" /\ nextLink <= Len(Links) /\ (IF nextLink <= Len(Links) THEN Links[nextLink].sg <= gi ELSE FALSE)
    /\ LET l == Links[nextLink] IN
       /\ bad' = bad \cup (IF gen[l.sm][l.sg] # "ran" THEN {"link-from-generation-not-available"} ELSE {})
                      \cup (IF gen[l.dm][l.dg] = "purged" THEN {"reload-of-purged-generation"} ELSE {})
       /\ gen' = Load(gen, l.dm, l.dg)
    /\ nextLink' = nextLink + 1
    /\ UNCHANGED <<mainpc, gi, running, wpc, got, sendq, recvq, writes, writing>>

LinksDone ==
    /\ mainpc = "links" /\ (IF nextLink > Len(Links) THEN TRUE ELSE Links[nextLink].sg > gi)
    /\ IF gi + 1 < NGen THEN /\ gi' = gi + 1 /\ mainpc' = "rungen"
       ELSE /\ gi' = gi /\ mainpc' = (IF Output THEN "drain-recv" ELSE "exit")
    /\ UNCHANGED <<nextLink, running, gen, wpc, got, sendq, recvq, writes, writing, bad>>

\* final drain loop
DrainRecv ==
    /\ mainpc = "drain-recv"
    /\ Recv(Main, LAMBDA now, partner :
                /\ mainpc' = IF now THEN "drain-check" ELSE "drain-parked-recv"
                /\ wpc' = IF now THEN WakeW(Main, partner) ELSE wpc)
    /\ UNCHANGED <<gi, nextLink, running, gen, writes, writing, bad>>
DrainCheck ==
    /\ mainpc = "drain-check"
    /\ mainpc' = IF got[Main] = NGen - 1 THEN "exit" ELSE "drain-send"
    /\ UNCHANGED <<gi, nextLink, running, gen, wpc, got, sendq, recvq, writes, writing, bad>>
DrainSend ==
    /\ mainpc = "drain-send"
    /\ Send(Main, got[Main], LAMBDA now, partner :
                /\ mainpc' = IF now THEN "drain-sleep" ELSE "drain-parked-send"
                /\ wpc' = IF now THEN WakeW(Main, partner) ELSE wpc)
    /\ UNCHANGED <<gi, nextLink, running, gen, writes, writing, bad>>
DrainSleep ==
    /\ mainpc = "drain-sleep" /\ mainpc' = "drain-recv"
    /\ UNCHANGED <<gi, nextLink, running, gen, wpc, got, sendq, recvq, writes, writing, bad>>

---------------------------------------------------------------------------
(* writer W_g *)
W(g) == g

WStart(g) ==
    /\ wpc[g] = "start"
    /\ wpc' = [wpc EXCEPT ![g] = IF g > 0 THEN "recv" ELSE "write"]
    /\ UNCHANGED <<mainpc, gi, nextLink, running, gen, got, sendq, recvq, writes, writing, bad>>

WRecv(g) ==
    /\ wpc[g] = "recv"
    /\ Recv(W(g), LAMBDA now, partner :
                /\ wpc' = [WakeW(g, partner) EXCEPT ![g] = IF now THEN "gotprev" ELSE "parked-recv"]
                /\ mainpc' = IF now THEN WakeMain(partner) ELSE mainpc)
    /\ UNCHANGED <<gi, nextLink, running, gen, writes, writing, bad>>

\* purge generation prevG of every model (whatever token arrived), then compare
LinksFrom(h) == {k \in 1..Len(Links) : Links[k].sg = h}
WPurge(g) ==
    /\ wpc[g] = "gotprev"
    /\ LET h == got[W(g)] IN
       /\ gen' = [m \in Models |-> [x \in Gens |-> IF x = h THEN "purged" ELSE gen[m][x]]]
       /\ bad' = bad \cup (IF writes[h] = 0 THEN {"purged-before-written"} ELSE {})
                      \cup (IF \E k \in LinksFrom(h) : k >= nextLink THEN {"purged-before-links-applied"} ELSE {})
                      \cup (IF h \in {x \in Gens : \E w \in writing : w = x} THEN {"purged-while-being-written"} ELSE {})
       /\ wpc' = [wpc EXCEPT ![g] = IF h = g - 1 THEN "write" ELSE "sendback"]
    /\ UNCHANGED <<mainpc, gi, nextLink, running, got, sendq, recvq, writes, writing>>

WSendBack(g) ==
    /\ wpc[g] = "sendback"
    /\ Send(W(g), got[W(g)], LAMBDA now, partner :
                /\ wpc' = [WakeW(g, partner) EXCEPT ![g] = IF now THEN "sleep" ELSE "parked-send-back"]
                /\ mainpc' = IF now THEN WakeMain(partner) ELSE mainpc)
    /\ UNCHANGED <<gi, nextLink, running, gen, writes, writing, bad>>
WSleep(g) ==
    /\ wpc[g] = "sleep" /\ wpc' = [wpc EXCEPT ![g] = "recv"]
    /\ UNCHANGED <<mainpc, gi, nextLink, running, gen, got, sendq, recvq, writes, writing, bad>>

\* writeGeneration(g): WriteData for every model = GetGeneration(g) + dataset writes
WWriteBegin(g) ==
    /\ wpc[g] = "write"
    /\ writing' = writing \cup {g}
    /\ bad' = bad \cup (IF \E m \in Models : gen[m][g] = "purged" THEN {"write-of-purged-generation"} ELSE {})
                   \cup (IF \E m \in Models : HasNodes[m][g] /\ gen[m][g] # "ran" THEN {"write-before-run"} ELSE {})
                   \cup (IF writing # {} THEN {"concurrent-writers"} ELSE {})
    /\ wpc' = [wpc EXCEPT ![g] = "writing"]
    /\ UNCHANGED <<mainpc, gi, nextLink, running, gen, got, sendq, recvq, writes>>
WWriteEnd(g) ==
    /\ wpc[g] = "writing"
    /\ writes' = [writes EXCEPT ![g] = @ + 1]
    /\ writing' = writing \ {g}
    /\ wpc' = [wpc EXCEPT ![g] = "senddone"]
    /\ UNCHANGED <<mainpc, gi, nextLink, running, gen, got, sendq, recvq, bad>>
WSendDone(g) ==
    /\ wpc[g] = "senddone"
    /\ Send(W(g), g, LAMBDA now, partner :
                /\ wpc' = [WakeW(g, partner) EXCEPT ![g] = IF now THEN "done" ELSE "parked-send-done"]
                /\ mainpc' = IF now THEN WakeMain(partner) ELSE mainpc)
    /\ UNCHANGED <<gi, nextLink, running, gen, writes, writing, bad>>

---------------------------------------------------------------------------
MainNext == RunGen \/ (\E m \in Models : ModelRun(m)) \/ GenDone \/ SpawnWriter \/ ApplyLink \/ LinksDone
            \/ DrainRecv \/ DrainCheck \/ DrainSend \/ DrainSleep
WriterNext(g) == WStart(g) \/ WRecv(g) \/ WPurge(g) \/ WSendBack(g) \/ WSleep(g)
                 \/ WWriteBegin(g) \/ WWriteEnd(g) \/ WSendDone(g)
\* the process has exited (remaining goroutines die with it): terminal stuttering, so that any OTHER
\* state without successors is reported as a deadlock
Exited == mainpc = "exit" /\ UNCHANGED vars
Next == MainNext \/ (\E g \in Writers : WriterNext(g)) \/ Exited
Spec == Init /\ [][Next]_vars
FairSpec == Spec /\ WF_vars(MainNext) /\ \A g \in Writers : WF_vars(WriterNext(g))

---------------------------------------------------------------------------
(* properties (C07) *)
NothingBad == bad = {}
WrittenAtMostOnce == \A g \in Gens : writes[g] <= 1
ExitOnlyAfterAllWritten == (mainpc = "exit" /\ Output) => \A g \in Gens : writes[g] = 1
WritesSerialised == Cardinality(writing) <= 1
\* a purged generation has been written and all its outgoing links applied
PurgeSafe == \A m \in Models, g \in Gens :
                gen[m][g] = "purged" => (writes[g] = 1 /\ \A k \in LinksFrom(g) : k < nextLink)
\* main exits only when nobody is left parked on the channel with main as the only possible partner
Terminates == <>(mainpc = "exit")
\* after main has exited no writer can still be before its write (the process would be killed mid-write)
NoWriterLeftBehind == mainpc = "exit" => \A g \in Writers : wpc[g] \in {"done", "parked-send-done", "senddone"}
=============================================================================
