INIT SInit
NEXT SNext
CONSTANTS
  NGen <- SNGen
  Models <- SModels
  HasNodes <- SHasNodes
  Links <- SLinks
  Output <- SOutput
  FIFO = TRUE
INVARIANTS NothingBad WrittenAtMostOnce WritesSerialised PurgeSafe
CHECK_DEADLOCK FALSE
