SPECIFICATION Spec
CONSTANTS
  NGen = 3
  m1 = m1
  m2 = m2
  Models <- MCModels
  HasNodes <- MCHasNodes
  Links <- MCLinks
  Output = TRUE
  FIFO = TRUE
INVARIANTS NothingBad WrittenAtMostOnce ExitOnlyAfterAllWritten WritesSerialised PurgeSafe NoWriterLeftBehind
CHECK_DEADLOCK TRUE
