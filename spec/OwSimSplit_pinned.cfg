SPECIFICATION Spec
CONSTANTS
  NGen = 3
  SizeChoices <- MCSizeChoices
  Big = 6
  Cap = 3
  Chunk = 2
  WaitAtExit = FALSE
INVARIANTS TypeOK StreamInOrder WrittenOnceInOrder ExitOnlyAfterAllWrittenUnlessLastEmpty NothingLostUnlessLastEmpty CloseAfterAll
PROPERTIES Terminates
CHECK_DEADLOCK FALSE
