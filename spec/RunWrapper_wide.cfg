\* configuration enumeration with wider bounds (cells run atomically: interleavings are RunWrapper.cfg's job)
SPECIFICATION Spec
CONSTANTS
  MaxNC = 5
  MaxNP = 5
  MaxNB = 5
  MaxT = 4
  MaxSlackC = 2
  MaxSlackT = 2
  Atomic = TRUE
  Bug = "none"
  Emit = TRUE
INVARIANTS FootprintsAreSets NoRace JoinBeforeReturn ScheduleIndependent PerCellAndFrame FrameAlways
CHECK_DEADLOCK FALSE
