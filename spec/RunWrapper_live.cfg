SPECIFICATION FairSpec
CONSTANTS
  MaxNC = 3
  MaxNP = 2
  MaxNB = 2
  MaxT = 1
  MaxSlackC = 0
  MaxSlackT = 0
  Atomic = FALSE
  Bug = "none"
  Emit = FALSE
PROPERTIES Terminates
CHECK_DEADLOCK FALSE
