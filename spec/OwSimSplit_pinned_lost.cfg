SPECIFICATION Spec
CONSTANTS
  NGen = 3
  SizeChoices <- MCSizeChoices
  Big = 6
  Cap = 3
  Chunk = 2
  WaitAtExit = FALSE
INVARIANTS NothingLost
CHECK_DEADLOCK FALSE
