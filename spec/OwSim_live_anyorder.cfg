SPECIFICATION FairSpec
CONSTANTS
  NGen = 3
  m1 = m1
  m2 = m2
  Models <- MCModels
  HasNodes <- MCHasNodes
  Links <- MCLinks
  Output = TRUE
  FIFO = FALSE
PROPERTIES Terminates
CHECK_DEADLOCK TRUE
