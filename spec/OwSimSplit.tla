----------------------------- MODULE OwSimSplit -----------------------------
(***************************************************************************)
(* ow-sim with `-outputs <Model>=<file>`: the results of one model type go  *)
(* to their own file through a SECOND PROCESS (`ow-sim -writer <file>`).    *)
(* A two-process extension of OwSim.tla (C07; ow-sim half of C05).          *)
(*                                                                          *)
(*   parent   the writer goroutines of OwSim.tla, which OwSim's invariant   *)
(*            WritesSerialised shows to be one at a time and in generation  *)
(*            order: for every generation g that has cells of the model,    *)
(*            writeProtobuf(g) marshals one frame (4-byte length + message) *)
(*            and Writes both parts to an io.Pipe; a Write on an io.Pipe    *)
(*            returns when a reader has TAKEN all of it.  After the frame   *)
(*            of the model's LAST generation the pipe is closed and the     *)
(*            parent Waits for the child (simulation_model_reference.go).   *)
(*   copier   the goroutine os/exec starts for a Stdin that is not a file:  *)
(*            io.Copy from the io.Pipe into an OS pipe, chunk by chunk; it  *)
(*            dies with the parent.                                         *)
(*   OS pipe  a bounded FIFO of bytes between the two processes.            *)
(*   child    cmd/ow-sim/writer.go: ReadFull(4), ReadFull(size), write the  *)
(*            block at its starting location, loop; a clean end of input    *)
(*            ends it, a short read ends it with an error (frame dropped).  *)
(*                                                                          *)
(* Sizes are counted in abstract units (a frame of size[g] message units    *)
(* is size[g]+1 units long: unit 0 is the length header).                   *)
(*                                                                          *)
(* WaitAtExit = FALSE is the process structure as pinned: the pipe is only  *)
(* closed (and the child only waited for) from inside writeProtobuf of the  *)
(* model's last generation -- which is never called when that generation    *)
(* has no cells of the model.  WaitAtExit = TRUE adds: main closes the pipe *)
(* and waits for the child before it leaves, whatever was sent last.        *)
(***************************************************************************)
EXTENDS Integers, Sequences, FiniteSets, TLC

CONSTANTS NGen,        \* generations 0..NGen-1
          SizeChoices, \* set of functions [0..NGen-1 -> Nat]: message units of generation g's frame (0 = the model has no
                       \* cells in g); the initial state picks one, so one run explores every size vector of the set
          Cap,         \* capacity of the OS pipe, in units
          Chunk,       \* what io.Copy moves per read, in units
          WaitAtExit   \* BOOLEAN, see above

Gens == 0..(NGen - 1)
Hdr(g) == <<g, 0>>
Min(a, b) == IF a < b THEN a ELSE b
Range(s) == {s[i] : i \in 1..Len(s)}

VARIABLES
    size,          \* the size vector of this behaviour (never changes)
    ppc, pg,       \* parent: program counter, generation whose turn it is
    offer,         \* units of the current io.Pipe Write not yet taken by a reader
    closedW,       \* the parent closed its end of the io.Pipe
    waited,        \* cmd.Wait() has returned
    copier,        \* "run" | "done" (saw end of input, closed the OS pipe) | "dead" (parent gone)
    inhand,        \* units the copier has read and not yet written
    ospipe,        \* units in the OS pipe
    oswopen,       \* some process still holds the write end of the OS pipe
    cpc,           \* child: "hdr" | "msg" | "write" | "exited"
    cgen, cgot,    \* child: generation of the frame being read, message units read so far
    written,       \* sequence of generations the child has written, in order
    lost           \* frames the child dropped because its input ended inside them
NonEmpty == {g \in Gens : size[g] > 0}
Msg(g) == [k \in 1..size[g] |-> <<g, k>>]
vars == <<size, ppc, pg, offer, closedW, waited, copier, inhand, ospipe, oswopen, cpc, cgen, cgot, written, lost>>

Init ==
    /\ size \in SizeChoices
    /\ ppc = "next" /\ pg = 0 /\ offer = <<>> /\ closedW = FALSE /\ waited = FALSE
    /\ copier = "run" /\ inhand = <<>> /\ ospipe = <<>> /\ oswopen = TRUE
    /\ cpc = "hdr" /\ cgen = -1 /\ cgot = 0 /\ written = <<>> /\ lost = {}

\* ------------------------------------------------------------------ parent
PFrame == UNCHANGED <<size, copier, inhand, ospipe, oswopen, cpc, cgen, cgot, written, lost>>

\* WriteData(g): nothing at all for a generation without cells of the model; otherwise Write(length)
PNext ==
    /\ ppc = "next" /\ pg < NGen
    /\ IF size[pg] = 0
         THEN /\ pg' = pg + 1 /\ UNCHANGED <<ppc, offer>>
         ELSE /\ ppc' = "hdr" /\ offer' = <<Hdr(pg)>> /\ UNCHANGED pg
    /\ UNCHANGED <<closedW, waited>> /\ PFrame
\* Write(length) has returned; Write(message)
PHdrDone ==
    /\ ppc = "hdr" /\ offer = <<>>
    /\ ppc' = "msg" /\ offer' = Msg(pg)
    /\ UNCHANGED <<pg, closedW, waited>> /\ PFrame
\* Write(message) has returned ("Sent gen ..."); the last generation closes the pipe
PMsgDone ==
    /\ ppc = "msg" /\ offer = <<>>
    /\ IF pg = NGen - 1 THEN ppc' = "close" /\ UNCHANGED pg
                        ELSE ppc' = "next" /\ pg' = pg + 1
    /\ UNCHANGED <<offer, closedW, waited>> /\ PFrame
PClose ==
    /\ ppc \in {"close", "close-at-exit"}
    /\ closedW' = TRUE
    /\ ppc' = IF ppc = "close" THEN "wait" ELSE "wait-at-exit"
    /\ UNCHANGED <<pg, offer, waited>> /\ PFrame
\* cmd.Wait(): the child has exited and the stdin copier has finished
PWait ==
    /\ ppc \in {"wait", "wait-at-exit"}
    /\ cpc = "exited" /\ copier = "done"
    /\ waited' = TRUE
    /\ IF ppc = "wait" THEN ppc' = "next" /\ pg' = pg + 1
                       ELSE ppc' = "leave" /\ UNCHANGED pg
    /\ UNCHANGED <<offer, closedW>> /\ PFrame
\* all generations handed over (the drain loop of main has seen the last token)
PDrained ==
    /\ ppc = "next" /\ pg = NGen
    /\ ppc' = IF WaitAtExit /\ ~waited THEN "close-at-exit" ELSE "leave"
    /\ UNCHANGED <<pg, offer, closedW, waited>> /\ PFrame
\* the parent process ends: its goroutines end with it, whatever the copier still held is gone,
\* the parent's handle on the OS pipe is closed
PExit ==
    /\ ppc = "leave"
    /\ ppc' = "exited"
    /\ copier' = IF copier = "run" THEN "dead" ELSE copier
    /\ inhand' = <<>>
    /\ oswopen' = FALSE
    /\ UNCHANGED <<size, pg, offer, closedW, waited, ospipe, cpc, cgen, cgot, written, lost>>

\* ------------------------------------------------------------------ copier (os/exec)
CFrame == UNCHANGED <<size, ppc, pg, closedW, waited, cpc, cgen, cgot, written, lost>>
CRead ==
    /\ copier = "run" /\ inhand = <<>> /\ offer # <<>>
    /\ LET k == Min(Chunk, Len(offer)) IN
         /\ inhand' = SubSeq(offer, 1, k)
         /\ offer' = SubSeq(offer, k + 1, Len(offer))
    /\ UNCHANGED <<copier, ospipe, oswopen>> /\ CFrame
CWrite ==
    /\ copier = "run" /\ inhand # <<>> /\ Len(ospipe) < Cap
    /\ LET k == Min(Cap - Len(ospipe), Len(inhand)) IN
         /\ ospipe' = ospipe \o SubSeq(inhand, 1, k)
         /\ inhand' = SubSeq(inhand, k + 1, Len(inhand))
    /\ UNCHANGED <<copier, offer, oswopen>> /\ CFrame
CEof ==
    /\ copier = "run" /\ inhand = <<>> /\ offer = <<>> /\ closedW
    /\ copier' = "done" /\ oswopen' = FALSE
    /\ UNCHANGED <<inhand, offer, ospipe>> /\ CFrame

\* ------------------------------------------------------------------ child (ow-sim -writer)
ChFrame == UNCHANGED <<size, ppc, pg, offer, closedW, waited, copier, inhand, oswopen>>
ChReadHdr ==
    /\ cpc = "hdr" /\ ospipe # <<>>
    /\ cgen' = Head(ospipe)[1] /\ cgot' = 0 /\ cpc' = "msg"
    /\ ospipe' = Tail(ospipe)
    /\ UNCHANGED <<written, lost>> /\ ChFrame
ChReadMsg ==
    /\ cpc = "msg" /\ ospipe # <<>>
    /\ LET k == Min(size[cgen] - cgot, Len(ospipe)) IN
         /\ cgot' = cgot + k
         /\ ospipe' = SubSeq(ospipe, k + 1, Len(ospipe))
         /\ cpc' = IF cgot + k = size[cgen] THEN "write" ELSE "msg"
    /\ UNCHANGED <<cgen, written, lost>> /\ ChFrame
ChWrite ==
    /\ cpc = "write"
    /\ written' = Append(written, cgen)
    /\ cpc' = "hdr"
    /\ UNCHANGED <<cgen, cgot, ospipe, lost>> /\ ChFrame
\* ReadFull(4) meets a clean end of input: the child returns
ChEof ==
    /\ cpc = "hdr" /\ ospipe = <<>> /\ ~oswopen
    /\ cpc' = "exited"
    /\ UNCHANGED <<cgen, cgot, ospipe, written, lost>> /\ ChFrame
\* ReadFull(size) meets the end of input inside a frame: "unexpected EOF", the frame is dropped
ChTrunc ==
    /\ cpc = "msg" /\ ospipe = <<>> /\ ~oswopen
    /\ lost' = lost \cup {cgen}
    /\ cpc' = "exited"
    /\ UNCHANGED <<cgen, cgot, ospipe, written>> /\ ChFrame

Next == PNext \/ PHdrDone \/ PMsgDone \/ PClose \/ PWait \/ PDrained \/ PExit
        \/ CRead \/ CWrite \/ CEof
        \/ ChReadHdr \/ ChReadMsg \/ ChWrite \/ ChEof \/ ChTrunc
Done == ppc = "exited" /\ cpc = "exited"
Spec == Init /\ [][Next]_vars /\ WF_vars(Next)

\* ------------------------------------------------------------------ properties
TypeOK ==
    /\ ppc \in {"next", "hdr", "msg", "close", "wait", "close-at-exit", "wait-at-exit", "leave", "exited"}
    /\ pg \in 0..NGen /\ closedW \in BOOLEAN /\ waited \in BOOLEAN /\ oswopen \in BOOLEAN
    /\ copier \in {"run", "done", "dead"}
    /\ cpc \in {"hdr", "msg", "write", "exited"}
    /\ Len(ospipe) <= Cap /\ Len(inhand) <= Chunk
    /\ lost \subseteq Gens /\ Range(written) \subseteq Gens
\* the byte stream is never reordered: what is in flight, in order, is a stretch of the frames in generation order
InFlight == ospipe \o inhand \o offer
StreamInOrder ==
    \A i \in 1..(Len(InFlight) - 1) :
        LET a == InFlight[i] b == InFlight[i + 1] IN
          \/ (a[1] = b[1] /\ b[2] = a[2] + 1)
          \/ (a[1] < b[1] /\ a[2] = size[a[1]] /\ b[2] = 0)
\* every generation is written at most once, in generation order, and only generations that have cells
WrittenOnceInOrder ==
    /\ \A i \in 1..(Len(written) - 1) : written[i] < written[i + 1]
    /\ Range(written) \subseteq NonEmpty
\* C07: every generation is written before the process exits
ExitOnlyAfterAllWritten == ppc = "exited" => Range(written) = NonEmpty
\* nothing the parent handed over is ever dropped
NothingLost == lost = {}
AllWrittenAtEnd == Done => Range(written) = NonEmpty
\* the pipe is closed only after everything was handed over
CloseAfterAll == closedW => (pg = NGen \/ (pg = NGen - 1 /\ ppc \in {"close", "wait", "next"}))
Terminates == <>[]Done
=============================================================================
