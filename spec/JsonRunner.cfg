SPECIFICATION Spec
INVARIANTS Total ProblemHasReason ResultOnlyWhenRunnable
CHECK_DEADLOCK FALSE
