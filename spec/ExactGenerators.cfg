SPECIFICATION Spec
CONSTANTS
  Models = {"BankErosion", "DynamicSednetGully", "DynamicSednetGullyAlt", "SednetParticulateNutrientGeneration", "USLEFineSedimentGeneration"}
  Grid = "small"
  Emit = TRUE
INVARIANTS BankSplit GullyDelivered GenTotals GenZeroDriver GenNonNegative
CHECK_DEADLOCK FALSE
