INIT TraceInit
NEXT TraceNext
CONSTANTS
  MaxNC = 4
  MaxNP = 4
  MaxNB = 4
  MaxT = 3
  MaxSlackC = 1
  MaxSlackT = 1
  Atomic = FALSE
  Bug = "none"
  Emit = FALSE
INVARIANTS NoRace JoinBeforeReturn FrameAlways
CONSTRAINT HW
VIEW TView
POSTCONDITION TraceAccepted
CHECK_DEADLOCK FALSE
