------------------------------ MODULE MCH5Store ------------------------------
EXTENDS H5Store
PathsQ == {"/a", "/g/b"}
\* includes shapes that are rank-reduced prefixes of others (<<2>> of <<2,3>>, <<2,1>> of <<2,1,2>>)
\* (<<1, 2>> and <<3, 2>>: same rank and element count as <<2, 1>> and <<2, 3>> -- a shape test must compare extents)
ShapesQ == {<<4>>, <<2>>, <<2, 3>>, <<3, 2>>, <<2, 1>>, <<1, 2>>, <<2, 1, 2>>}
ShapesT == {<<5>>, <<3>>, <<3, 3>>, <<2, 3>>, <<3, 2>>, <<2, 3, 2>>, <<1, 4>>, <<4, 1>>}
Lay3 == {"contig", "stepped", "offset"}
Lay4 == {"contig", "stepped", "offset", "tail"}
=============================================================================
