------------------------------ MODULE MCH5Store ------------------------------
EXTENDS H5Store
PathsQ == {"/a", "/g/b"}
\* includes shapes that are rank-reduced prefixes of others (<<2>> of <<2,3>>, <<2,1>> of <<2,1,2>>)
ShapesQ == {<<4>>, <<2>>, <<2, 3>>, <<2, 1>>, <<2, 1, 2>>}
ShapesT == {<<5>>, <<3>>, <<3, 3>>, <<2, 3>>, <<2, 3, 2>>, <<1, 4>>}
Lay3 == {"contig", "stepped", "offset"}
Lay4 == {"contig", "stepped", "offset", "tail"}
=============================================================================
