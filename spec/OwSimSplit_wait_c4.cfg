SPECIFICATION Spec
CONSTANTS
  NGen = 3
  SizeChoices <- MCSizeChoices
  Big = 7
  Cap = 4
  Chunk = 3
  WaitAtExit = TRUE
INVARIANTS TypeOK StreamInOrder WrittenOnceInOrder ExitOnlyAfterAllWritten NothingLost AllWrittenAtEnd CloseAfterAll
PROPERTIES Terminates
CHECK_DEADLOCK FALSE
