------------------------- MODULE TraceStorageRouting -------------------------
(***************************************************************************)
(* The StorageRouting clauses of C11, as laws over observed timesteps.     *)
(* The engine runs the real model on seeded cases in the stable parameter  *)
(* region (non-negative series with zero-flow spells) and logs per         *)
(* timestep, RANK-encoded among all floats of the case (order-isomorphic;  *)
(* no arithmetic is done on ranks):                                        *)
(*   resid : | dS - (inflow + lateral - outflow - net evaporation) dt |    *)
(*   tolb  : the solver's mass-balance tolerance (1e-3 m^3, doubled) plus  *)
(*           round-off of the terms                                        *)
(*   out, sto : reported outflow and storage;  zero : rank of 0.0          *)
(*   rel   : | S - (k Q^m + dead storage) |  (only for zero inflow bias    *)
(*           and positive outflow), tolr : the same tolerance propagated   *)
(*           through S(Q)                                                  *)
(* Laws: the water balance closes at every timestep; outflow and storage   *)
(* are never negative; the storage-discharge relation holds.               *)
(***************************************************************************)
EXTENDS Integers, Sequences, TLC, Json

Trace == ndJsonDeserialize("trace.ndjson")
VARIABLES l, zero, viol, reported      \* viol: timesteps (trace positions) at which a law fails, with the law
vars == <<l, zero, viol, reported>>
E == Trace[l]

Init == l = 1 /\ zero = 0 /\ viol = {} /\ reported = FALSE
Case == /\ l <= Len(Trace) /\ E.ev = "case" /\ zero' = E.zero /\ l' = l + 1 /\ UNCHANGED <<viol, reported>>

BalanceCloses(e) == e.resid <= e.tolb
NonNegative(e) == e.out >= zero /\ e.sto >= zero
RelationHolds(e) == e.relchecked => e.rel <= e.tolr

\* every timestep is judged against the three laws; failures are collected (not blocking), so that one run
\* judges the whole log and every failing timestep is reported with the law it breaks
Step == /\ l <= Len(Trace) /\ E.ev = "step"
        /\ viol' = viol \cup (IF BalanceCloses(E) THEN {} ELSE {<<l, "balance">>})
                        \cup (IF NonNegative(E) THEN {} ELSE {<<l, "negative">>})
                        \cup (IF RelationHolds(E) THEN {} ELSE {<<l, "relation">>})
        /\ l' = l + 1 /\ UNCHANGED <<zero, reported>>
Report == /\ l = Len(Trace) + 1 /\ ~reported /\ reported' = TRUE
          /\ PrintT(<<"LAW_VIOLATIONS", viol>>)
          /\ UNCHANGED <<l, zero, viol>>
Next == Case \/ Step \/ Report
Spec == Init /\ [][Next]_vars
TraceAccepted ==
    LET n == TLCGet("stats").diameter - 2 IN
    /\ PrintT(<<"TRACE_CONSUMED", n, Len(Trace)>>)
    /\ n = Len(Trace)
=============================================================================
