----------------------------- MODULE JsonRunner -----------------------------
(***************************************************************************)
(* The JSON single-model runner (sim.RunSingleModelJSON, C17) as a         *)
(* function from request CLASSES to response CLASSES.                      *)
(*                                                                         *)
(* A request is abstracted to                                              *)
(*   form    "malformed" (not a JSON document of the expected shape)       *)
(*           | "wellformed"                                                *)
(*   name    "missing" | "unknown" | "known"                               *)
(*   tables  the named model has table-valued (dimensioned) parameters,    *)
(*           which the request format (name -> one number) cannot carry    *)
(*   params  for every declared parameter: given or not (plus possibly     *)
(*           undeclared extras, duplicates, any order) -- abstracted to    *)
(*           "none" | "some" | "all", and extras TRUE/FALSE                *)
(*   pvals   the values of the given parameters: "drawn" (valid, non-zero  *)
(*           mostly) or "zero" (an explicit 0 is a value like any other:   *)
(*           it is used, and the parameter is NOT reported as defaulted)   *)
(*   inputs  "none" | "some" (a proper, non-empty subset, equal lengths)   *)
(*           | "all" (equal lengths) | "unequal" (two given series differ  *)
(*           in length) | "emptyone" (all given, one series is [] beside   *)
(*           non-empty ones: unequal lengths) | "emptyall" (all given, all *)
(*           of length 0: a run of zero timesteps)                         *)
(* The response is always exactly ONE JSON document:                       *)
(*   "problem": Log describes the problem, RunResults are null             *)
(*   "result" : Log has one entry per defaulted parameter (naming it and   *)
(*              the default) and per zero-filled input; RunResults equal a *)
(*              direct one-cell Run (term K(defaults (+) given,            *)
(*              InitialiseStates(1), given inputs (+) zeros)), numbers     *)
(*              nested like the array's dimensions, non-finite values as   *)
(*              the strings NaN, +Inf, -Inf.                               *)
(* TLC checks that the response function is total and single-valued over   *)
(* all classes and enumerates them for the replay engine.                  *)
(***************************************************************************)
EXTENDS TLC, Json, FiniteSets, Integers, Sequences

\* ---- JSON-safe nesting of an n-d array (io/json JsonSafeArray): element i of the result is the nesting of
\* dimension shiftDim+1.. at index i of dimension shiftDim (earlier dimensions at index 0); numbers stay
\* numbers, non-finite values become the strings "NaN", "+Inf", "-Inf".
RECURSIVE Prod(_)
Prod(sh) == IF sh = <<>> THEN 1 ELSE Head(sh) * Prod(Tail(sh))
Weight(shape, d) == Prod(SubSeq(shape, d + 1, Len(shape)))
RECURSIVE Nest(_, _, _, _)
Nest(cells, shape, d, base) ==
    IF d > Len(shape) THEN cells[base + 1]
    ELSE [i \in 1..shape[d] |-> Nest(cells, shape, d + 1, base + (i - 1) * Weight(shape, d))]
JsonSafe(cells, shape, shiftDim) == Nest(cells, shape, shiftDim + 1, 0)
\* value codes: position k holds k, except every 4th position which cycles through the non-finite values
Code(k) == IF k % 4 # 3 THEN k ELSE (CASE (k \div 4) % 3 = 0 -> "NaN" [] (k \div 4) % 3 = 1 -> "+Inf" [] OTHER -> "-Inf")
NestShapes == {<<3>>, <<5>>, <<2, 3>>, <<3, 1>>, <<2, 1, 2>>, <<2, 2, 3>>}
NestCases == {<<sh, sd>> \in NestShapes \X (0..2) : sd < Len(sh)}

VARIABLES req, emitted
vars == <<req, emitted>>

Requests == [form : {"malformed", "wellformed"}, name : {"missing", "unknown", "known"}, tables : BOOLEAN,
             params : {"none", "some", "all"}, pvals : {"drawn", "zero"}, extras : BOOLEAN,
             inputs : {"none", "some", "all", "unequal", "emptyone", "emptyall"}]

\* classes that make sense: a malformed document has no further structure; tables only for known models
Sensible(r) == /\ (r.form = "malformed" => r.name = "missing" /\ ~r.tables /\ r.params = "none" /\ ~r.extras /\ r.inputs = "none")
               /\ (r.name # "known" => ~r.tables)
               /\ (r.pvals = "zero" => r.params # "none" /\ r.name = "known" /\ ~r.tables /\ r.inputs \in {"some", "all"})
               /\ (r.inputs \in {"emptyone", "emptyall"} => r.name = "known" /\ ~r.tables /\ r.params = "all" /\ ~r.extras)

Response(r) ==
    IF r.form = "malformed" THEN [kind |-> "problem", why |-> "not a valid request document"]
    ELSE IF r.name = "missing" THEN [kind |-> "problem", why |-> "no model name"]
    ELSE IF r.name = "unknown" THEN [kind |-> "problem", why |-> "unknown model"]
    \* table parameters cannot be carried by the request format: either a problem document or, if the
    \* implementation can run the model after all, a result -- but exactly one document and no crash
    ELSE IF r.tables THEN [kind |-> "either", why |-> "table parameters cannot be supplied"]
    ELSE IF r.inputs = "none" THEN [kind |-> "problem", why |-> "no input series: length of the run unknown"]
    ELSE IF r.inputs \in {"unequal", "emptyone"} THEN [kind |-> "problem", why |-> "input series of unequal length"]
    \* a run of zero timesteps: results -- then every series is empty and the states are as initialised -- or a
    \* problem document; exactly one document and no crash either way
    ELSE IF r.inputs = "emptyall" THEN [kind |-> "either", why |-> "zero timesteps", ifResult |-> "empty series, states as initialised"]
    ELSE [kind |-> "result",
          logDefaults |-> (r.params # "all"),          \* every missing parameter is reported with its default
          logZeroInputs |-> (r.inputs = "some")]       \* every missing input is reported

Init == req \in {r \in Requests : Sensible(r)} /\ emitted = FALSE
Emit == /\ ~emitted /\ emitted' = TRUE /\ req' = req
        /\ PrintT(ToJson([jsonclass |-> req, response |-> Response(req)]))
        \* the nesting cases are emitted once, together with the first class
        /\ (req = [form |-> "malformed", name |-> "missing", tables |-> FALSE, params |-> "none", pvals |-> "drawn", extras |-> FALSE, inputs |-> "none"] =>
              \A c \in NestCases :
                 LET cells == [k \in 1..Prod(c[1]) |-> Code(k - 1)] IN
                 PrintT(ToJson([jsonnest |-> [shape |-> c[1], shift |-> c[2], cells |-> cells, expect |-> JsonSafe(cells, c[1], c[2])]])))
Next == Emit
Spec == Init /\ [][Next]_vars

\* total and single valued: exactly one of the two kinds, and a problem always says why
Total == Response(req).kind \in {"problem", "result", "either"}
ProblemHasReason == Response(req).kind = "problem" => Response(req).why # ""
\* a result is only ever produced for a known, undimensioned model with at least one input series of consistent length
ResultOnlyWhenRunnable == Response(req).kind = "result" =>
    (req.form = "wellformed" /\ req.name = "known" /\ ~req.tables /\ req.inputs \in {"some", "all"})
=============================================================================
