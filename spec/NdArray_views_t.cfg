\* all chains of <= 2 slices over every quick shape; no writes
SPECIFICATION Spec
CONSTANTS
  Shapes <- ShapesT
  StepVals <- Steps123
  Broadcast = FALSE
  MaxSlices = 2
  MaxWrites = 0
  MaxReshapes = 0
  WriteOps <- AllWrites
  AllowNil = TRUE
  ChainOnly = TRUE
  WriteNewest = TRUE
  AllowReduce = FALSE
  AllowCopy = FALSE
  EarlyStop = FALSE
  Emit = TRUE
INVARIANTS ViewsOK Compose ContigIsRun
PROPERTIES ViewOpsPure
CHECK_DEADLOCK FALSE
