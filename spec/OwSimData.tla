------------------------------ MODULE OwSimData ------------------------------
(***************************************************************************)
(* The sequential reference semantics of an ow-sim model graph (C07), over *)
(* integer series with exact node semantics.                               *)
(*                                                                         *)
(* A graph: an ordered list of model types; per model the number of nodes  *)
(* in each generation (batches; empty batches allowed); links from an      *)
(* output variable of a node in generation g to an input variable of a     *)
(* node in a LATER generation, listed in non-decreasing source generation. *)
(* Reference: generations run in order; a node's input series is its       *)
(* stored input (zero if the model has none) plus the sum of the outputs   *)
(* of all nodes linked to it; every node runs once with its own parameter  *)
(* column and initial-state row; results appear at the node's row          *)
(*      row(m, g, k) = (number of nodes of m in generations before g) + k  *)
(*                                                                         *)
(* Node kernels (exact on the integer grid used here; inputs are multiples *)
(* of 16 so that every halving below is exact -- asserted by ExactGrid):   *)
(*   Input             out = in                                            *)
(*   Sum               out = i1 + i2                                       *)
(*   Gate              out = incoming if trigger > 0 else 0                *)
(*   FixedPartition    fraction 1/2:   o1 = in/2, o2 = in/2                *)
(*   RunoffCoefficient coeff 2:        out = 2*in                          *)
(*   RatingCurvePartition  a TABLE-parameter model (dimension nPts): node    *)
(*                     row r has a 2-point (r even) or 3-point (r odd) table *)
(*                     whose proportion is 1/2 everywhere: o1 = o2 = in/2;   *)
(*                     ow-sim has to size the table from the parameter file  *)
(*   DynamicSednetGully, DynamicSednetGullyAlt  two catalogue models whose   *)
(*                     NAMES are prefix-related; never linked to and without *)
(*                     stored inputs, so their driver (quick flow) is 0 and  *)
(*                     all four outputs are 0 (ExactModels.tla, GenZeroDriver)*)
(*   ApplyScalingFactor  out = scale * in; the scale of node (row) r is 0   *)
(*                     when r % 3 = 2, else r + 2: a kernel that returns   *)
(*                     early for scale 0 leaves whatever its output array  *)
(*                     held -- which must be zero                          *)
(*   Lag               timeLag = 2: out(t) = state(t) for t <= 2, in(t-2)  *)
(*                     after; the state ROW holds an ARRAY (the last two   *)
(*                     inflows), wider than the model's list of state names*)
(*   Muskingum         K=1, X=0, dt=2 (a1 = a2 = 1/2, a3 = 0); tot = inflow *)
(*                     + lateral: out(t) = tot(t)/2 + tot(t-1)/2;          *)
(*                     states S, previous total inflow, previous outflow   *)
(*                                                                         *)
(* The graph is built by staged actions (ChooseModels, ChooseCounts,       *)
(* AddLink ...), so TLC enumerates all graphs within the bounds; Evaluate  *)
(* computes the reference result and emits graph + expected datasets.      *)
(***************************************************************************)
EXTENDS Integers, Sequences, FiniteSets, TLC, Json

CONSTANTS Kinds,        \* subset of the kernel names above
          MaxModels, MaxGen, MaxPerGen, MaxLinks, T,
          Emit

VARIABLES stage, models, ngen, links, done
vars == <<stage, models, ngen, links, done>>

GullyKinds == {"DynamicSednetGully", "DynamicSednetGullyAlt"}
NI(k) == CASE k = "Input" -> 1 [] k = "Sum" -> 2 [] k = "Gate" -> 2 [] k = "FixedPartition" -> 1
           [] k = "ApplyScalingFactor" -> 1 [] k = "Lag" -> 1
           [] k = "RunoffCoefficient" -> 1 [] k = "Muskingum" -> 2 [] k = "RatingCurvePartition" -> 1 [] k \in GullyKinds -> 4
NO(k) == IF k \in {"FixedPartition", "RatingCurvePartition"} THEN 2 ELSE IF k \in GullyKinds THEN 4 ELSE 1
NS(k) == IF k = "Muskingum" THEN 3 ELSE IF k = "Lag" THEN 2 ELSE 0
\* input variables that links may target
LinkableInputs(k) == IF k \in GullyKinds THEN {} ELSE 0..(NI(k) - 1)
BIG == 1073741824
\* parameter column of node `row` (integers; proportions are numerators over 2; the table model lists nPts, the
\* knots, then the proportions)
Params(k, row) == CASE k = "FixedPartition" -> <<1>>
               [] k = "RunoffCoefficient" -> <<2>>
               [] k = "Muskingum" -> <<1, 0, 2>>
               [] k = "ApplyScalingFactor" -> <<IF row % 3 = 2 THEN 0 ELSE row + 2>>
               [] k = "Lag" -> <<2>>
               [] k = "RatingCurvePartition" -> IF row % 2 = 0 THEN <<2, 0, BIG, 1, 1>> ELSE <<3, 0, 64, BIG, 1, 1, 1>>
               [] k \in GullyKinds -> <<2000, 2010, 5, 2, 6, 25, 1, 2, 1, 50, 20, 86400>>
               [] OTHER -> <<>>

RECURSIVE SumSeq(_)
SumSeq(s) == IF s = <<>> THEN 0 ELSE Head(s) + SumSeq(Tail(s))
Total(m) == SumSeq(models[m].counts)
Row(m, g, k) == SumSeq(SubSeq(models[m].counts, 1, g - 1)) + k      \* g 1-based, k 0-based
Batches(m) == [g \in 1..ngen |-> SumSeq(SubSeq(models[m].counts, 1, g))]

\* stored inputs / initial states of node `row` of model m (deterministic, multiples of 16)
Stored(m, row, j, t) == IF models[m].stored THEN 16 * (row + 1) + 32 * j + 64 * t + 256 * (m - 1) ELSE 0
\* Muskingum: S=0, prevIn=16(row+2), prevOut=0; Lag: the two inflows still on their way
InitState(m, row, s) == IF models[m].kind = "Lag" THEN 8 * (row + 1) + 2 * s
                        ELSE IF s = 1 THEN 16 * (row + 2) ELSE 0

Init == /\ stage = "models" /\ models = <<>> /\ ngen = 0 /\ links = <<>> /\ done = FALSE

ChooseModel ==
    /\ stage = "models" /\ Len(models) < MaxModels
    /\ \E k \in Kinds, st \in BOOLEAN :
         /\ \A i \in 1..Len(models) : models[i].kind # k       \* model names are unique in a file
         /\ (k \in GullyKinds => ~st)
         /\ models' = Append(models, [kind |-> k, stored |-> st, counts |-> <<>>])
    /\ UNCHANGED <<stage, ngen, links, done>>
ModelsDone ==
    /\ stage = "models" /\ Len(models) >= 1
    /\ \E n \in 1..MaxGen : ngen' = n
    /\ stage' = "counts"
    /\ UNCHANGED <<models, links, done>>
\* counts of model i for all generations, chosen model by model
ChooseCounts ==
    /\ stage = "counts"
    /\ \E i \in 1..Len(models) :
         /\ models[i].counts = <<>>
         /\ \A j \in 1..(i - 1) : models[j].counts # <<>>
         /\ \E c \in [1..ngen -> 0..MaxPerGen] :
              /\ SumSeq(c) >= 1
              /\ models' = [models EXCEPT ![i].counts = c]
    /\ UNCHANGED <<stage, ngen, links, done>>
CountsDone ==
    /\ stage = "counts" /\ \A i \in 1..Len(models) : models[i].counts # <<>>
    \* every generation has at least one node overall, and a model without stored inputs and without
    \* any node in a later generation than some source would be pointless but legal
    /\ \A g \in 1..ngen : \E i \in 1..Len(models) : models[i].counts[g] > 0
    \* ow-sim takes the series length from the first model that has a stored inputs dataset
    /\ \E i \in 1..Len(models) : models[i].stored
    /\ stage' = "links"
    /\ UNCHANGED <<models, ngen, links, done>>

Nodes == {<<m, g, k>> \in (1..Len(models)) \X (1..ngen) \X (0..(MaxPerGen - 1)) : k < models[m].counts[g]}
AddLink ==
    /\ stage = "links" /\ Len(links) < MaxLinks
    /\ \E s \in Nodes, d \in Nodes :
         /\ s[2] < d[2]                                             \* strictly later generation
         /\ (links # <<>> => links[Len(links)].sg <= s[2])          \* sorted by source generation
         /\ \E sv \in 0..(NO(models[s[1]].kind) - 1), dv \in LinkableInputs(models[d[1]].kind) :
              links' = Append(links, [sm |-> s[1], sg |-> s[2], sk |-> s[3], sv |-> sv,
                                      dm |-> d[1], dg |-> d[2], dk |-> d[3], dv |-> dv])
    /\ UNCHANGED <<stage, models, ngen, done>>

---------------------------------------------------------------------------
(* reference evaluation *)

Half(x) == x \div 2
Kernel(k, in, st, p) ==   \* p: the node's parameter column; in: [j -> [t -> value]] (1-based), st: sequence of states; returns [out |-> [v -> [t -> ..]], st |-> ..]
    CASE k = "Input" -> [out |-> <<in[1]>>, st |-> st]
      [] k = "Sum" -> [out |-> << [t \in 1..T |-> in[1][t] + in[2][t]] >>, st |-> st]
      [] k = "Gate" -> [out |-> << [t \in 1..T |-> IF in[1][t] > 0 THEN in[2][t] ELSE 0] >>, st |-> st]
      [] k \in GullyKinds -> [out |-> [v \in 1..4 |-> [t \in 1..T |-> 0]], st |-> st]
      [] k \in {"FixedPartition", "RatingCurvePartition"} -> [out |-> << [t \in 1..T |-> Half(in[1][t])], [t \in 1..T |-> Half(in[1][t])] >>, st |-> st]
      [] k = "RunoffCoefficient" -> [out |-> << [t \in 1..T |-> 2 * in[1][t]] >>, st |-> st]
      [] k = "ApplyScalingFactor" -> [out |-> << [t \in 1..T |-> p[1] * in[1][t]] >>, st |-> st]
      [] k = "Lag" -> LET all == st \o in[1]        \* (T >= 2)
                      IN [out |-> << [t \in 1..T |-> all[t]] >>, st |-> <<all[T + 1], all[T + 2]>>]
      [] k = "Muskingum" ->
            LET o == [t \in 1..T |-> Half(in[1][t] + in[2][t]) + Half(IF t = 1 THEN st[2] ELSE in[1][t - 1] + in[2][t - 1])]
            IN [out |-> <<o>>, st |-> <<st[1], in[1][T] + in[2][T], o[T]>>]

\* inputs: [m -> [row -> [j -> [t -> v]]]] (rows 0-based via +1)
StoredInputs == [m \in 1..Len(models) |-> [r \in 1..Total(m) |-> [j \in 1..NI(models[m].kind) |-> [t \in 1..T |-> Stored(m, r - 1, j - 1, t - 1)]]]]
InitStates == [m \in 1..Len(models) |-> [r \in 1..Total(m) |-> [s \in 1..NS(models[m].kind) |-> InitState(m, r - 1, s - 1)]]]

RECURSIVE ApplyLinks(_, _, _)
ApplyLinks(inp, outs, ls) ==
    IF ls = <<>> THEN inp
    ELSE LET l == Head(ls)
             sr == Row(l.sm, l.sg, l.sk) + 1
             dr == Row(l.dm, l.dg, l.dk) + 1
             add == [t \in 1..T |-> inp[l.dm][dr][l.dv + 1][t] + outs[l.sm][sr][l.sv + 1][t]]
         IN ApplyLinks([inp EXCEPT ![l.dm][dr][l.dv + 1] = add], outs, Tail(ls))

LinksOf(g) == SelectSeq(links, LAMBDA l : l.sg = g)

\* state of the evaluation: [inp, outs, fin]; outs/fin rows of generations not yet run are placeholders
RECURSIVE RunGens(_, _)
RunGens(ev, g) ==
    IF g > ngen THEN ev
    ELSE LET res == [m \in 1..Len(models) |-> [r \in 1..Total(m) |->
                        IF r - 1 >= Row(m, g, 0) /\ r - 1 < Row(m, g, 0) + models[m].counts[g]
                        THEN Kernel(models[m].kind, ev.inp[m][r], InitStates[m][r], Params(models[m].kind, r - 1))
                        ELSE [out |-> ev.outs[m][r], st |-> ev.fin[m][r]]]]
             outs == [m \in 1..Len(models) |-> [r \in 1..Total(m) |-> res[m][r].out]]
             fin == [m \in 1..Len(models) |-> [r \in 1..Total(m) |-> res[m][r].st]]
         IN RunGens([inp |-> ApplyLinks(ev.inp, outs, LinksOf(g)), outs |-> outs, fin |-> fin], g + 1)

Reference ==
    RunGens([inp |-> StoredInputs,
             outs |-> [m \in 1..Len(models) |-> [r \in 1..Total(m) |-> [v \in 1..NO(models[m].kind) |-> [t \in 1..T |-> 0]]]],
             fin |-> InitStates], 1)

\* every halving in the reference was exact: all inputs that reach a halving kernel are even
ExactGrid(ref) == \A m \in 1..Len(models) : \A r \in 1..Total(m) : \A j \in 1..NI(models[m].kind) : \A t \in 1..T :
                      ref.inp[m][r][j][t] % 2 = 0

---------------------------------------------------------------------------
(* which datasets ow-sim writes: the four selection flags.  -outputs-for / -inputs-for FORCE inclusion, the -no-
   flags exclude, inclusion wins, and a model named by neither keeps its default: outputs are written; final
   inputs are written only for models WITHOUT nodes in the first generation (their inputs were all computed).
   Names are compared as whole names.  (The flag help says "only write ... for specified models"; the implemented
   and specified meaning is the one above.) *)
ModelIx == 1..Len(models)
WritesOutputs(m, f) == f.outFor[m] \/ ~f.noOutFor[m]
DefaultWritesInputs(m) == models[m].counts[1] = 0
WritesInputs(m, f) == IF f.inFor[m] THEN TRUE ELSE IF f.noInFor[m] THEN FALSE ELSE DefaultWritesInputs(m)
None == [m \in ModelIx |-> FALSE]
All == [m \in ModelIx |-> TRUE]
Only(i) == [m \in ModelIx |-> m = i]
Flags(o, no, i, ni) == [outFor |-> o, noOutFor |-> no, inFor |-> i, noInFor |-> ni]
Selections ==
    LET n == Len(models) IN
    <<Flags(None, Only(1), Only(n), None), Flags(Only(1), None, None, All)>>
    \o [i \in 1..n |-> Flags(None, Only(i), None, Only(i))]           \* one model deselected at a time
    \o [i \in 1..n |-> Flags(Only(i), All, Only(i), All)]              \* everything excluded, one model forced back in
SelectionTable == [k \in 1..Len(Selections) |->
    [flags |-> Selections[k], wo |-> [m \in ModelIx |-> WritesOutputs(m, Selections[k])],
                              wi |-> [m \in ModelIx |-> WritesInputs(m, Selections[k])]]]
\* deselecting one model never affects another; forcing inclusion beats exclusion
SelectionLocal == stage = "links" =>
    \A i \in ModelIx : \A m \in ModelIx :
        /\ WritesOutputs(m, Flags(None, Only(i), None, None)) = (m # i)
        /\ WritesOutputs(m, Flags(Only(i), All, None, None)) = (m = i)
        /\ WritesInputs(m, Flags(None, None, Only(i), All)) = (m = i)

Evaluate ==
    /\ stage = "links" /\ ~done
    /\ LET ref == Reference IN
       /\ Assert(ExactGrid(ref), "reference left the exact grid")
       /\ (Emit => PrintT(ToJson([graph |-> [T |-> T, ngen |-> ngen,
                                   models |-> [m \in 1..Len(models) |->
                                        [kind |-> models[m].kind, stored |-> models[m].stored,
                                         counts |-> models[m].counts, batches |-> Batches(m),
                                         params |-> [r \in 1..Total(m) |-> Params(models[m].kind, r - 1)],
                                         ni |-> NI(models[m].kind), no |-> NO(models[m].kind), ns |-> NS(models[m].kind),
                                         storedInputs |-> StoredInputs[m], initStates |-> InitStates[m]]],
                                   links |-> [i \in 1..Len(links) |->
                                        LET l == links[i] IN
                                        [srcGen |-> l.sg - 1, srcModel |-> l.sm - 1, srcNode |-> Row(l.sm, l.sg, l.sk),
                                         srcGenNode |-> l.sk, srcVar |-> l.sv,
                                         destGen |-> l.dg - 1, destModel |-> l.dm - 1, destNode |-> Row(l.dm, l.dg, l.dk),
                                         destGenNode |-> l.dk, destVar |-> l.dv]]],
                                  select |-> SelectionTable,
                                  expect |-> [m \in 1..Len(models) |->
                                        [outputs |-> ref.outs[m], states |-> ref.fin[m], inputs |-> ref.inp[m]]]])))
    /\ done' = TRUE
    /\ UNCHANGED <<stage, models, ngen, links>>

Next == ChooseModel \/ ModelsDone \/ ChooseCounts \/ CountsDone \/ AddLink \/ Evaluate
Spec == Init /\ [][Next]_vars

---------------------------------------------------------------------------
\* TLC decides: the reference does not depend on the order in which the links of one generation are applied
RECURSIVE Reverse(_)
Reverse(s) == IF s = <<>> THEN <<>> ELSE Append(Reverse(Tail(s)), Head(s))
LinkOrderIrrelevant ==
    stage = "links" =>
       \A g \in 1..ngen :
          LET ref == Reference IN
          ApplyLinks(StoredInputs, ref.outs, LinksOf(g)) = ApplyLinks(StoredInputs, ref.outs, Reverse(LinksOf(g)))
=============================================================================
