SPECIFICATION TraceSpec
INVARIANTS BracketOK
POSTCONDITION TraceAccepted
CHECK_DEADLOCK FALSE
