SPECIFICATION Spec
CONSTANTS
  Models = {"Input", "Sum", "Gate", "FixedPartition", "VariablePartition", "RatingCurvePartition", "PartitionDemand", "ApplyScalingFactor", "DeliveryRatio", "DepthToRate", "ComputeProportion", "EmcDwc", "FixedConcentration", "PassLoadIfFlow", "SednetDissolvedNutrientGeneration"}
  Grid = "small"
  Emit = TRUE
INVARIANTS PartitionsSum DemandBounds Identities TotalsAreSums ZeroDriverZeroLoad ConcentrationLinear GeneratorsAgree
CHECK_DEADLOCK FALSE
