\* root + one slice over representative small stores, then one write of every kind through either view
SPECIFICATION Spec
CONSTANTS
  Shapes <- ShapesW1
  StepVals <- Steps12
  Broadcast = FALSE
  MaxSlices = 1
  MaxWrites = 1
  MaxReshapes = 0
  WriteOps <- AllWrites
  AllowNil = FALSE
  ChainOnly = FALSE
  WriteNewest = FALSE
  AllowReduce = FALSE
  AllowCopy = FALSE
  EarlyStop = FALSE
  Emit = TRUE
INVARIANTS ViewsOK Compose ContigIsRun Live
PROPERTIES ViewOpsPure FootprintExact
CHECK_DEADLOCK FALSE
