\* C06: every composition of T=5 into consecutive segments, every hand-over mode at every boundary,
\* same object or a second object with the same parameters
SPECIFICATION Spec
CONSTANTS
  T = 5
  Objs = {1, 2}
  PVars = {1}
  CutPoints = {}
  MaxOps = 9
  Splits = TRUE
  S0Kinds = {"given"}
  HandOvers = {"inplace", "copygo", "copyc"}
  OutKinds = {"zero"}
  Emit = TRUE
INVARIANTS Causal PureLabels Tiling SegmentLabels
CHECK_DEADLOCK FALSE
