------------------------------- MODULE MCOwSim -------------------------------
EXTENDS OwSim
CONSTANTS m1, m2
MCModels == {m1, m2}
\* m1 has nodes everywhere; m2 has an empty batch in generation 0 (and in the last generation when NGen > 2)
MCHasNodes == [m \in MCModels |-> [g \in 0..(NGen - 1) |-> IF m = m1 THEN TRUE ELSE (g # 0 /\ (NGen <= 2 \/ g # NGen - 1))]]
\* every pair of generations linked (sorted by source generation), alternating models
RECURSIVE PairsFrom(_, _)
PairsFrom(s, d) == IF s >= NGen - 1 THEN <<>>
                   ELSE IF d >= NGen THEN PairsFrom(s + 1, s + 2)
                   ELSE <<[sg |-> s, dg |-> d, sm |-> m1, dm |-> IF MCHasNodes[m2][d] THEN m2 ELSE m1]>> \o PairsFrom(s, d + 1)
MCLinks == PairsFrom(0, 1)
=============================================================================
