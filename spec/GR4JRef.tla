------------------------------ MODULE GR4JRef ------------------------------
(***************************************************************************)
(* The published daily GR4J model (Perrin, Michel, Andreassian 2003) as an *)
(* explicit one-timestep transition function over SYMBOLIC real            *)
(* expressions (C15).  TLC has no reals, so the real-valued primitives     *)
(* (+, -, *, /, min, max, tanh, rational powers, comparisons) stay         *)
(* uninterpreted constructors; everything else -- the structure of the     *)
(* model -- is explicit:                                                   *)
(*   state   S (production store), R (routing store), the two unit-       *)
(*           hydrograph delay lines q9[1..n1], q1[1..n2]                   *)
(*   inputs  P (rainfall), E (potential evapotranspiration)                *)
(*   params  x1, x2, x3, x4; n1 = ceil(x4), n2 = ceil(2 x4) are the class  *)
(*           of the case (lengths of the delay lines)                      *)
(* Step(n1, n2) gives the expressions of the next state and of the runoff  *)
(* in terms of the symbols "S", "R", "q9_i", "q1_i", "P", "E", "x1".."x4". *)
(* TLC enumerates the classes (n1, n2), checks the structural invariants   *)
(* (every expression is closed over those symbols; the delay lines keep    *)
(* their length; water enters the two hydrographs in the 90/10 split) and  *)
(* emits the step function of every class; the engine interprets the       *)
(* expressions in float64 over seeded parameters, series and initial       *)
(* stores and compares runoff and every store with the real model at       *)
(* every timestep.                                                         *)
(***************************************************************************)
EXTENDS Integers, Sequences, FiniteSets, TLC, Json

CONSTANTS MaxN1, Emit
VARIABLES cls, emitted
vars == <<cls, emitted>>

\* ---- symbolic real expressions ----
Num(n, d) == <<"num", n, d>>
Sym(s) == <<"sym", s>>
Add(a, b) == <<"add", a, b>>
Sub(a, b) == <<"sub", a, b>>
Mul(a, b) == <<"mul", a, b>>
Div(a, b) == <<"div", a, b>>
Min(a, b) == <<"min", a, b>>
Max(a, b) == <<"max", a, b>>
Tanh(a) == <<"tanh", a>>
Pow(a, n, d) == <<"pow", a, n, d>>                    \* a ^ (n/d)
IfGe(a, b, x, y) == <<"ifge", a, b, x, y>>             \* IF a >= b THEN x ELSE y
IfGt(a, b, x, y) == <<"ifgt", a, b, x, y>>             \* IF a >  b THEN x ELSE y
Zero == Num(0, 1)
One == Num(1, 1)
IntE(i) == Num(i, 1)

x1 == Sym("x1")  x2 == Sym("x2")  x3 == Sym("x3")  x4 == Sym("x4")
P == Sym("P")  E == Sym("E")  S == Sym("S")  R == Sym("R")
Q9(i) == Sym("q9_" \o ToString(i))
Q1(i) == Sym("q1_" \o ToString(i))

\* ---- S-curves and unit-hydrograph ordinates (time base x4 and 2 x4, exponent 5/2) ----
SH1(t) == IF t = 0 THEN Zero ELSE IfGe(IntE(t), x4, One, Pow(Div(IntE(t), x4), 5, 2))
SH2(t) == IF t = 0 THEN Zero
          ELSE IfGe(x4, IntE(t), Mul(Num(1, 2), Pow(Div(IntE(t), x4), 5, 2)),
                    IfGt(Mul(IntE(2), x4), IntE(t), Sub(One, Mul(Num(1, 2), Pow(Sub(IntE(2), Div(IntE(t), x4)), 5, 2))), One))
UH1(j) == Sub(SH1(j), SH1(j - 1))
UH2(j) == Sub(SH2(j), SH2(j - 1))

\* ---- one day ----
Pn == IfGe(P, E, Sub(P, E), Zero)                      \* net rainfall
En == IfGe(P, E, Zero, Sub(E, P))                      \* net evapotranspiration capacity
Cap13(a) == Min(a, IntE(13))
SR == Div(S, x1)
TP == Tanh(Cap13(Div(Pn, x1)))
TE == Tanh(Cap13(Div(En, x1)))
Ps == Div(Mul(Mul(x1, Sub(One, Mul(SR, SR))), TP), Add(One, Mul(SR, TP)))                 \* part of Pn filling the store
Es == Div(Mul(Mul(S, Sub(IntE(2), SR)), TE), Add(One, Mul(Sub(One, SR), TE)))               \* evaporation from the store
S1 == Add(Sub(S, Es), Ps)
Perc == Mul(S1, Sub(One, Pow(Add(One, Pow(Mul(Num(4, 9), Div(S1, x1)), 4, 1)), -1, 4)))    \* percolation
S2 == Sub(S1, Perc)
Pr == Add(Perc, Sub(Pn, Ps))                                                                \* water reaching the routing part
\* delay lines after adding today's share: 90 % through UH1, 10 % through UH2
Line9(n1) == [j \in 1..n1 |-> Add(Q9(j), Mul(Mul(Pr, Num(9, 10)), UH1(j)))]
Line1(n2) == [j \in 1..n2 |-> Add(Q1(j), Mul(Mul(Pr, Num(1, 10)), UH2(j)))]
Shift(line) == [j \in 1..Len(line) |-> IF j < Len(line) THEN line[j + 1] ELSE Zero]
F == Mul(x2, Pow(Div(R, x3), 7, 2))                                                         \* groundwater exchange
R1(n1) == Max(Zero, Add(Add(R, Line9(n1)[1]), F))
Qr(n1) == Mul(R1(n1), Sub(One, Pow(Add(One, Pow(Div(R1(n1), x3), 4, 1)), -1, 4)))          \* routing-store outflow
Qd(n2) == Max(Zero, Add(Line1(n2)[1], F))                                                    \* direct flow

Step(n1, n2) == [S |-> S2, R |-> Sub(R1(n1), Qr(n1)),
                 q9 |-> Shift(Line9(n1)), q1 |-> Shift(Line1(n2)),
                 Q |-> Add(Qr(n1), Qd(n2))]

Classes == {<<a, b>> \in (1..MaxN1) \X (1..(2 * MaxN1)) : b \in {2 * a - 1, 2 * a}}

Init == cls \in Classes /\ emitted = FALSE
EmitStep == /\ ~emitted /\ emitted' = TRUE /\ cls' = cls
            /\ (Emit => PrintT(ToJson([gr4jclass |-> [n1 |-> cls[1], n2 |-> cls[2]], step |-> Step(cls[1], cls[2])])))
Spec == Init /\ [][EmitStep]_vars

---------------------------------------------------------------------------
\* structural invariants
RECURSIVE Syms(_)
Syms(e) == CASE e[1] = "sym" -> {e[2]}
             [] e[1] = "num" -> {}
             [] e[1] \in {"tanh"} -> Syms(e[2])
             [] e[1] = "pow" -> Syms(e[2])
             [] e[1] \in {"add", "sub", "mul", "div", "min", "max"} -> Syms(e[2]) \cup Syms(e[3])
             [] e[1] \in {"ifge", "ifgt"} -> Syms(e[2]) \cup Syms(e[3]) \cup Syms(e[4]) \cup Syms(e[5])
Allowed(n1, n2) == {"x1", "x2", "x3", "x4", "P", "E", "S", "R"} \cup {"q9_" \o ToString(j) : j \in 1..n1} \cup {"q1_" \o ToString(j) : j \in 1..n2}
Closed == LET st == Step(cls[1], cls[2]) IN
          /\ Syms(st.S) \subseteq Allowed(cls[1], cls[2]) /\ Syms(st.R) \subseteq Allowed(cls[1], cls[2]) /\ Syms(st.Q) \subseteq Allowed(cls[1], cls[2])
          /\ \A j \in 1..cls[1] : Syms(st.q9[j]) \subseteq Allowed(cls[1], cls[2])
          /\ \A j \in 1..cls[2] : Syms(st.q1[j]) \subseteq Allowed(cls[1], cls[2])
LinesKeepLength == LET st == Step(cls[1], cls[2]) IN Len(st.q9) = cls[1] /\ Len(st.q1) = cls[2] /\ st.q9[cls[1]] = Zero /\ st.q1[cls[2]] = Zero
\* the production store does not depend on the routing part, the routing part not on E directly except through Pr
ProductionIndependent == LET st == Step(cls[1], cls[2]) IN Syms(st.S) \subseteq {"x1", "P", "E", "S"}
=============================================================================
