------------------------------ MODULE RootFind ------------------------------
(***************************************************************************)
(* The bracket discipline of the root finder (util/fn FindRoot, C18).      *)
(* Points are 0..N (an order-isomorphic image of the floats involved),     *)
(* f : 0..N -> -V..V with f(0) <= 0 <= f(N).  One step of the algorithm    *)
(* evaluates f at the initial guess and both ends; every iteration         *)
(* evaluates some trial points INSIDE THE CURRENT BRACKET, moves each      *)
(* bracket end to the tightest trial point of its sign, and continues from *)
(* the better end.  Which trial points are chosen (halving, secant,        *)
(* Newton) is left open: the properties hold for any choice.               *)
(* TLC checks, for every f of the class and every choice of trial points:  *)
(*   - every evaluation lies in [min, max]            (EvalInside)         *)
(*   - the bracket always has f(lo) <= 0 <= f(hi)     (SignChange)         *)
(*   - the point returned was evaluated and comes with ITS value (Paired)  *)
(*   - for non-decreasing f, after at least one iteration the returned     *)
(*     |value| is no larger than at the better end of the initial bracket  *)
(*     (NoWorseThanEnds)                                                   *)
(***************************************************************************)
EXTENDS Integers, Sequences, FiniteSets, TLC

CONSTANTS N, V, MaxIter, Monotone
VARIABLES f, lo, hi, x, fx, evaluated, iter, pc
vars == <<f, lo, hi, x, fx, evaluated, iter, pc>>

Abs(n) == IF n < 0 THEN -n ELSE n
Fns == {g \in [0..N -> (-V)..V] : g[0] <= 0 /\ g[N] >= 0 /\ (Monotone => \A i \in 0..(N - 1) : g[i] <= g[i + 1])}

Init == /\ f \in Fns /\ lo = 0 /\ hi = N /\ iter = 0 /\ pc = "run"
        /\ \E i \in 0..N : x = i /\ fx = f[i] /\ evaluated = {i, 0, N}

SubSeqTail(s) == [i \in 1..(Len(s) - 1) |-> s[i + 1]]
\* move the bracket ends over a sequence of trial points (as the code does, in order)
RECURSIVE Tighten(_, _, _)
Tighten(l, h, ts) ==
    IF ts = <<>> THEN <<l, h>>
    ELSE LET t == ts[1] IN
         IF f[t] < 0 THEN (IF t > l /\ t <= h THEN Tighten(t, h, SubSeqTail(ts)) ELSE Tighten(l, h, SubSeqTail(ts)))
         ELSE (IF t < h /\ t >= l THEN Tighten(l, t, SubSeqTail(ts)) ELSE Tighten(l, h, SubSeqTail(ts)))

Iterate ==
    /\ pc = "run" /\ iter < MaxIter
    /\ \E t1 \in lo..hi, t2 \in lo..hi :
       \E t3 \in (lo..hi) \cup {-1} :            \* -1: no Newton trial this iteration
          LET ts == IF t3 = -1 \/ t3 = lo \/ t3 = hi THEN <<t1, t2>> ELSE <<t1, t2, t3>>
              nb == Tighten(lo, hi, ts)
          IN /\ evaluated' = evaluated \cup {ts[i] : i \in 1..Len(ts)}
             \* an exact root among the trial points ends the search at once
             /\ IF \E i \in 1..Len(ts) : f[ts[i]] = 0
                THEN /\ \E i \in 1..Len(ts) : f[ts[i]] = 0 /\ x' = ts[i] /\ fx' = 0
                     /\ pc' = "done" /\ UNCHANGED <<lo, hi>>
                ELSE /\ lo' = nb[1] /\ hi' = nb[2]
                     /\ IF Abs(f[nb[1]]) <= f[nb[2]] THEN x' = nb[1] /\ fx' = f[nb[1]] ELSE x' = nb[2] /\ fx' = f[nb[2]]
                     /\ pc' = "run"
    /\ iter' = iter + 1 /\ UNCHANGED f
Stop == /\ pc = "run" /\ pc' = "done" /\ UNCHANGED <<f, lo, hi, x, fx, evaluated, iter>>
Next == Iterate \/ Stop
Spec == Init /\ [][Next]_vars

EvalInside == evaluated \subseteq 0..N
SignChange == f[lo] <= 0 /\ f[hi] >= 0 /\ lo <= hi
Paired == x \in evaluated /\ fx = f[x] /\ x \in 0..N
NoWorseThanEnds == (Monotone /\ iter >= 1) =>
                      (Abs(fx) <= Abs(f[0]) /\ Abs(fx) <= Abs(f[N]))
=============================================================================
