\* three generations with a scaling model whose factor is 0 for some nodes (kernels that return early rely on zeroed
\* output arrays) and a model whose state row holds an array (Lag with a lag of two timesteps)
SPECIFICATION Spec
CONSTANTS
  Kinds = {"Input", "ApplyScalingFactor", "Lag"}
  MaxModels = 2
  MaxGen = 3
  MaxPerGen = 1
  MaxLinks = 2
  T = 3
  Emit = TRUE
INVARIANTS LinkOrderIrrelevant SelectionLocal
CHECK_DEADLOCK FALSE
