---------------------------- MODULE TraceNdArray ----------------------------
(* B2 for C01/C02/C03a: histories of operations performed by a seeded random driver on the REAL arrays  *)
(* (any element type, either back-end), logged with arguments and everything observed (values read      *)
(* through views, Contiguous(), Unroll(), Maximum/Minimum, the whole backing storage after the call),    *)
(* must be behaviours of NdArray: every event is explained by the corresponding NdArray definition and   *)
(* every logged observation equals the specification's value.  Traces are concatenated; "new" resets.    *)
EXTENDS NdArray

Trace == ndJsonDeserialize("trace.ndjson")
VARIABLE l
tvars == <<vars, l>>

IsEv(name) == l <= Len(Trace) /\ Trace[l].ev = name
E == Trace[l]
Skip == UNCHANGED <<fresh, nS, nW, nR, hist, done>>

SelOf(e) == [d \in 1..Len(e.loc) |-> <<e.loc[d], e.dims[d], e.step[d]>>]
SelInBounds(sel, shape) ==
    /\ Len(sel) = Len(shape)
    /\ \A d \in 1..Len(sel) : sel[d][1] >= 0 /\ sel[d][2] >= 1 /\ sel[d][3] >= 0
                              /\ sel[d][1] + (sel[d][2] - 1) * sel[d][3] <= shape[d] - 1

SeqMax(s) == CHOOSE m \in {s[i] : i \in 1..Len(s)} : \A i \in 1..Len(s) : s[i] <= m
SeqMin(s) == CHOOSE m \in {s[i] : i \in 1..Len(s)} : \A i \in 1..Len(s) : s[i] >= m

\* observations logged for a view: values through Get in row-major order, Contiguous(), Unroll(), max, min
ObsOK(e, w, st) ==
    LET vals == [k \in 1..Len(w.offs) |-> st[w.offs[k] + 1]] IN
    /\ e.vals = vals
    /\ e.unroll = vals
    /\ e.contig = Contig(w)
    /\ e.max = SeqMax(vals) /\ e.min = SeqMin(vals)
    /\ e.shape = w.shape

TraceInit == /\ Init /\ l = 1

TNew == /\ IsEv("new")
        /\ stores' = <<E.store>>
        /\ Len(E.store) = Prod(E.shape)
        /\ views' = <<RootView(1, E.shape)>>
        /\ Skip /\ l' = l + 1

TSlice == /\ IsEv("slice")
          /\ LET v == views[E.v]
                 sel == SelOf(E)
             IN /\ SelInBounds(sel, v.shape)
                /\ LET w == [sid |-> 1, shape |-> E.dims, offs |-> SliceOffs(v, sel),
                             aff |-> IF v.affine THEN AffSlice(v.aff, sel) ELSE v.aff, affine |-> v.affine]
                   IN /\ ObsOK(E, w, stores[1])
                      /\ views' = Append(views, w)
          /\ E.store = stores[1]
          /\ stores' = stores /\ Skip /\ l' = l + 1

\* Reshape of a contiguous view: a live alias; of a non-contiguous view: a copy whose values are observed
TReshape == /\ IsEv("reshape")
            /\ LET v == views[E.v] IN
               /\ Prod(E.newshape) = Len(v.offs)
               /\ LET w == [sid |-> 1, shape |-> E.newshape, offs |-> v.offs,
                            aff |-> [start |-> v.offs[1],
                                     stride |-> [d \in 1..Len(E.newshape) |-> Weight(E.newshape, d)]],
                            affine |-> TRUE]
                  IN /\ E.vals = [k \in 1..Len(v.offs) |-> stores[1][v.offs[k] + 1]]
                     /\ E.fastok = Contig(v)
                     /\ E.alias = Contig(v)   \* the driver keeps the result as a live view iff it aliases
                     /\ views' = IF Contig(v) THEN Append(views, w) ELSE views
            /\ E.store = stores[1]
            /\ stores' = stores /\ Skip /\ l' = l + 1

TReshapeErr == /\ IsEv("reshape-error")
               /\ Prod(E.newshape) # Len(views[E.v].offs)
               /\ UNCHANGED <<stores, views>> /\ Skip /\ l' = l + 1

TRead == /\ IsEv("read")
         /\ views[E.v].sid = 1
         /\ ObsOK(E, views[E.v], stores[1])
         /\ UNCHANGED <<stores, views>> /\ Skip /\ l' = l + 1

WriteTo(ws) == /\ stores' = <<ApplyWrites(stores[1], ws)>>
               /\ E.store = stores'[1]
               /\ views' = views /\ Skip /\ l' = l + 1

TSet == /\ IsEv("set")
        /\ LET v == views[E.v] IN
           /\ v.sid = 1
           /\ WriteTo(<< <<v.offs[Pos(E.idx, v.shape) + 1], E.val>> >>)

TApply == /\ IsEv("apply")
          /\ LET v == views[E.v]
                 n == Len(E.vals)
                 dim == E.dim + 1
             IN /\ v.sid = 1
                /\ E.loc[dim] + (n - 1) * E.step <= v.shape[dim] - 1
                /\ WriteTo([j \in 1..n |->
                      <<v.offs[Pos([E.loc EXCEPT ![dim] = E.loc[dim] + (j - 1) * E.step], v.shape) + 1], E.vals[j]>>])

TApplySlice == /\ IsEv("applyslice")
               /\ LET v == views[E.v]
                      sel == SelOf(E)
                  IN /\ v.sid = 1
                     /\ SelInBounds(sel, v.shape)
                     /\ LET offs == SliceOffs(v, sel)
                        IN /\ Len(E.srcvals) = Len(offs)
                           /\ WriteTo([j \in 1..Len(offs) |-> <<offs[j], E.srcvals[j]>>])

TCopyFrom == /\ IsEv("copyfrom")
             /\ LET v == views[E.v] IN
                /\ v.sid = 1
                /\ Len(E.srcvals) = Len(v.offs)
                /\ WriteTo([j \in 1..Len(v.offs) |-> <<v.offs[j], E.srcvals[j]>>])

TTwoArray == /\ IsEv("twoarray")
             /\ LET v == views[E.v] IN
                /\ v.sid = 1
                /\ Len(E.srcvals) = Len(v.offs)
                /\ WriteTo([j \in 1..Len(v.offs) |->
                       <<v.offs[j], TwoArrayFn(E.fn, stores[1][v.offs[j] + 1], E.srcvals[j])>>])

TraceNext == TNew \/ TSlice \/ TReshape \/ TReshapeErr \/ TRead \/ TSet \/ TApply \/ TApplySlice
             \/ TCopyFrom \/ TTwoArray
TraceSpec == TraceInit /\ [][TraceNext]_tvars

TraceAccepted ==
    LET n == TLCGet("stats").diameter - 1 IN
    /\ PrintT(<<"TRACE_CONSUMED", n, Len(Trace)>>)
    /\ n = Len(Trace)
=============================================================================
