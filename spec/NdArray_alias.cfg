\* C02 aliasing: slice, reshape the (contiguous) result, then write through any of the three views
SPECIFICATION Spec
CONSTANTS
  Shapes <- ShapesA
  StepVals <- Steps12
  Broadcast = FALSE
  MaxSlices = 1
  MaxWrites = 1
  MaxReshapes = 1
  WriteOps = {"set", "apply"}
  AllowNil = FALSE
  ChainOnly = TRUE
  WriteNewest = FALSE
  AllowReduce = FALSE
  AllowCopy = FALSE
  EarlyStop = FALSE
  Emit = TRUE
INVARIANTS ViewsOK Compose ContigIsRun Live
PROPERTIES ViewOpsPure FootprintExact
CHECK_DEADLOCK FALSE
