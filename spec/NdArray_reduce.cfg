\* rank-reducing slices (table-parameter form) of roots and of slices, then one write through any view
SPECIFICATION Spec
CONSTANTS
  Shapes <- ShapesR
  StepVals <- Steps12
  Broadcast = FALSE
  MaxSlices = 2
  MaxWrites = 1
  MaxReshapes = 0
  WriteOps = {"set", "apply"}
  AllowNil = FALSE
  ChainOnly = TRUE
  WriteNewest = FALSE
  AllowReduce = TRUE
  AllowCopy = FALSE
  EarlyStop = FALSE
  Emit = TRUE
INVARIANTS ViewsOK ContigIsRun Live
PROPERTIES ViewOpsPure FootprintExact
CHECK_DEADLOCK FALSE
