----------------------------- MODULE TraceOwSim -----------------------------
(* B2 for C07 / the ow-sim half of C05: the event log written by the hooks of the REAL ow-sim binary      *)
(* (build tag verif; one linearised ndjson file, sequence numbers under one mutex) must be a behaviour of  *)
(* OwSim.  Line 1 of trace.ndjson is a "config" record written by the harness (generations, models, which  *)
(* model has nodes where, the links); the protocol constants are read from it.                             *)
(*                                                                                                          *)
(* Grain of atomicity: every non-channel step of OwSim (RunGen, ModelRun, GenDone, SpawnWriter, ApplyLink, *)
(* LinksDone, WStart, WPurge, WWriteBegin, WWriteEnd) is matched one-to-one with a hook event and the OwSim *)
(* action itself is taken.  Channel operations are logged as send-BEGIN (before the statement) and          *)
(* receive-END (after it), so log order can never contradict the rendezvous; the channel is abstracted to  *)
(* the bag of values offered and not yet received (`pending`): FIFO service is a property of the Go        *)
(* runtime, not of ow-sim.  Lazy loads ("load") and purges ("purge") are checked against the generation    *)
(* table.  All OwSim invariants are evaluated in every state of the trace.                                 *)
EXTENDS OwSim, Json

Trace == ndJsonDeserialize("trace.ndjson")
Cfg == Trace[1]
TNGen == Cfg.ngen
TModels == {Cfg.models[i] : i \in 1..Len(Cfg.models)}
THasNodes == [m \in TModels |-> [g \in 0..(TNGen - 1) |-> Cfg.hasnodes[m][g + 1]]]
TLinks == [k \in 1..Len(Cfg.links) |-> [sg |-> Cfg.links[k].sg, dg |-> Cfg.links[k].dg, sm |-> Cfg.links[k].sm, dm |-> Cfg.links[k].dm]]
TOutput == Cfg.output

VARIABLES l, pending    \* position in the trace; bag (as a sequence) of values offered on writingDone
tvars == <<vars, l, pending>>

E == Trace[l]
Is(k) == l <= Len(Trace) /\ E.ev = k
Adv == l' = l + 1

RECURSIVE RemoveFirst(_, _)
RemoveFirst(s, v) == IF s = <<>> THEN <<>> ELSE IF Head(s) = v THEN Tail(s) ELSE <<Head(s)>> \o RemoveFirst(Tail(s), v)
Has(s, v) == \E i \in 1..Len(s) : s[i] = v

TraceInit == Init /\ l = 2 /\ pending = <<>> /\ TLCSet(1, 0)

\* non-channel steps: the OwSim action itself
Plain == \/ (Is("rungen") /\ E.gen = gi /\ RunGen)
         \/ (Is("modelrun") /\ E.gen = gi /\ ModelRun(E.model))
         \/ (Is("gendone") /\ E.gen = gi /\ GenDone)
         \/ (Is("spawn") /\ E.gen = gi /\ SpawnWriter)
         \/ (Is("link") /\ E.k + 1 = nextLink /\ ApplyLink)
         \/ (Is("linksdone") /\ E.gen = gi /\ LinksDone)
         \/ (Is("wstart") /\ WStart(E.g))
         \/ (Is("wpurged") /\ got[E.g] = E.prev /\ WPurge(E.g))
         \/ (Is("wwritebegin") /\ WWriteBegin(E.g))
         \/ (Is("wwriteend") /\ WWriteEnd(E.g))
\* when no output file is given SpawnWriter leaves no event: taken silently together with the next link step
SilentSpawn == /\ ~TOutput /\ mainpc = "spawnwriter" /\ SpawnWriter /\ UNCHANGED <<l, pending>>

\* channel steps on the abstract channel
Frame == UNCHANGED <<gi, nextLink, running, gen, writes, writing, bad, sendq, recvq>>
ChanStep ==
    \/ /\ Is("wrecv") /\ wpc[E.g] = "recv" /\ Has(pending, E.prev)
       /\ pending' = RemoveFirst(pending, E.prev)
       /\ got' = [got EXCEPT ![E.g] = E.prev]
       /\ wpc' = [wpc EXCEPT ![E.g] = "gotprev"]
       /\ UNCHANGED mainpc /\ Frame
    \/ /\ Is("wpassback") /\ wpc[E.g] = "sendback" /\ got[E.g] = E.prev
       /\ pending' = Append(pending, E.prev)
       /\ wpc' = [wpc EXCEPT ![E.g] = "recv"]          \* (after the hand-off and the sleep)
       /\ UNCHANGED <<mainpc, got>> /\ Frame
    \/ /\ Is("wsend") /\ wpc[E.g] = "senddone"
       /\ pending' = Append(pending, E.g)
       /\ wpc' = [wpc EXCEPT ![E.g] = "done"]
       /\ UNCHANGED <<mainpc, got>> /\ Frame
    \/ /\ Is("mainrecv") /\ mainpc = "drain-recv" /\ Has(pending, E.v)
       /\ pending' = RemoveFirst(pending, E.v)
       /\ got' = [got EXCEPT ![Main] = E.v]
       /\ mainpc' = IF E.v = NGen - 1 THEN "exit" ELSE "drain-send"
       /\ UNCHANGED wpc /\ Frame
    \/ /\ Is("mainpassback") /\ mainpc = "drain-send" /\ got[Main] = E.v
       /\ pending' = Append(pending, E.v)
       /\ mainpc' = "drain-recv"
       /\ UNCHANGED <<wpc, got>> /\ Frame
    \/ /\ Is("mainexit") /\ mainpc = "exit"
       /\ UNCHANGED <<vars, pending>>

\* observations of the generation table
TableStep ==
    \/ /\ Is("load")
       \* a generation is only ever loaded from the input file once: re-loading one that was purged means its
       \* results were thrown away while still needed
       /\ bad' = IF gen[E.model][E.gen] = "purged" THEN bad \cup {"reload-of-purged-generation"} ELSE bad
       /\ UNCHANGED <<mainpc, gi, nextLink, running, gen, wpc, got, sendq, recvq, writes, writing, pending>>
    \* PurgeGeneration of one model, whoever calls it and whenever: the generation must have been written and
    \* all links leaving it applied (otherwise its results are discarded while still needed)
    \/ /\ Is("purge")
       /\ bad' = bad \cup (IF writes[E.gen] = 0 THEN {"purged-before-written"} ELSE {})
                      \cup (IF \E k \in LinksFrom(E.gen) : k >= nextLink THEN {"purged-before-links-applied"} ELSE {})
       /\ gen' = [gen EXCEPT ![E.model][E.gen] = "purged"]
       /\ UNCHANGED <<mainpc, gi, nextLink, running, wpc, got, sendq, recvq, writes, writing, pending>>

TraceNext == \/ (Plain /\ Adv /\ UNCHANGED pending)
             \/ (ChanStep /\ Adv)
             \/ (TableStep /\ Adv)
             \/ SilentSpawn
TraceSpec == TraceInit /\ [][TraceNext]_tvars

\* high-water mark of consumed events (silent steps exist, so the diameter is not the trace length)
HW == TLCSet(1, IF l > TLCGet(1) THEN l ELSE TLCGet(1))
TraceAccepted ==
    /\ PrintT(<<"TRACE_CONSUMED", TLCGet(1) - 1, Len(Trace)>>)
    /\ TLCGet(1) - 1 = Len(Trace)
ExitSeen == (l = Len(Trace) + 1) => (mainpc = "exit" /\ (TOutput => \A g \in Gens : writes[g] = 1))
=============================================================================
