\* prefix-related model names (selection flags compare whole names): the two gully generators beside a Sum
SPECIFICATION Spec
CONSTANTS
  Kinds = {"Sum", "DynamicSednetGully", "DynamicSednetGullyAlt"}
  MaxModels = 3
  MaxGen = 2
  MaxPerGen = 1
  MaxLinks = 1
  T = 2
  Emit = TRUE
INVARIANTS LinkOrderIrrelevant SelectionLocal
CHECK_DEADLOCK FALSE
