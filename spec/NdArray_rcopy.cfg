\* C03 lock-step: slice, reshape the non-contiguous result (detached copy), then write through any view
SPECIFICATION Spec
CONSTANTS
  Shapes <- ShapesA
  StepVals <- Steps12
  Broadcast = FALSE
  MaxSlices = 1
  MaxWrites = 1
  MaxReshapes = 1
  WriteOps = {"set", "apply"}
  AllowNil = FALSE
  ChainOnly = TRUE
  WriteNewest = FALSE
  AllowReduce = FALSE
  AllowCopy = TRUE
  EarlyStop = FALSE
  Emit = TRUE
INVARIANTS ViewsOK ContigIsRun Live
PROPERTIES ViewOpsPure FootprintExact
CHECK_DEADLOCK FALSE
