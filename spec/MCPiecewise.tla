---------------------------- MODULE MCPiecewise ----------------------------
(* Long tables for Piecewise.tla: a lookup that treats tables above some length differently (bisection before a   *)
(* linear scan, cached brackets) is only reached by tables of ten and more knots.                                 *)
EXTENDS Piecewise
LongTables == {[i \in 1..n |-> i - 1] : n \in {9, 10, 12, 13}}
              \cup {[i \in 1..n |-> IF i <= 6 THEN i - 1 ELSE 2 * i - 7] : n \in {11, 12}}
\* values: a zig-zag that differs between neighbouring segments plus one free entry (every position in turn)
ZigZag(n) == {[i \in 1..n |-> IF i = k THEN 7 ELSE IF i % 2 = 0 THEN 3 ELSE (i % 3)] : k \in 0..n}
LongInit == /\ xs \in LongTables /\ ys \in ZigZag(Len(xs)) /\ q = 0 /\ emitted = FALSE
LongSpec == LongInit /\ [][Step]_vars
=============================================================================
