SPECIFICATION Spec
CONSTANTS
  MaxLen = 5
  MaxKnot = 7
  YVals = {0, 3, 4}
  Emit = TRUE
INVARIANTS AtKnots Between ErrorOutside
CHECK_DEADLOCK FALSE
