SPECIFICATION Spec
CONSTANTS
  MaxLen = 5
  MaxKnot = 6
  YVals = {0, 3, 4}
  Emit = TRUE
INVARIANTS AtKnots Between ErrorOutside
CHECK_DEADLOCK FALSE
