SPECIFICATION Spec
CONSTANTS
  MaxLen = 4
  MaxDim = 4
  MaxVal = 4
  Emit = TRUE
INVARIANTS RankUnrank UnrankRank OdometerStep OffsetsLaw ArgmaxLaw EmitCase
CHECK_DEADLOCK FALSE
