---------------------------- MODULE MCOwSimSplit ----------------------------
(* Model-checking instance of OwSimSplit: every size vector over {0 (no cells), 1 (small frame), Big (more than the *)
(* OS pipe plus the copier's hand can hold)} is explored in one run.                                                 *)
EXTENDS OwSimSplit
CONSTANTS Big
MCSizeChoices == [0..(NGen - 1) -> {0, 1, Big}]
\* expected counter-examples of the pinned structure are only accepted for the shape that explains them
LastGenEmpty == size[NGen - 1] = 0 /\ \E g \in 0..(NGen - 1) : size[g] > 0
ExitOnlyAfterAllWrittenUnlessLastEmpty == LastGenEmpty \/ ExitOnlyAfterAllWritten
NothingLostUnlessLastEmpty == LastGenEmpty \/ NothingLost
=============================================================================
