--------------------------- MODULE TraceRunWrapper ---------------------------
(***************************************************************************)
(* Trace validation of RunWrapper.tla against the real generated wrappers  *)
(* (C04, C05).  The harness hands the wrappers TRACING PROXIES for the     *)
(* four caller arrays (vh proxytrace); every element access is logged with *)
(* the goroutine it happened on and the abstract location it touched       *)
(* (<<"P", set>>, <<"S", cell>>, <<"I", blk, t>>, <<"O", cell, t>>, the    *)
(* locations of RunWrapper).  A log is a concatenation of runs:            *)
(*    run   nc np nb t oc ot   -- configuration of the next Run call       *)
(*    acc   g kind locs        -- goroutine g (1 = the caller) read ("r")  *)
(*                                or wrote ("w") the locations locs        *)
(*    ret                      -- Run has returned to the caller           *)
(* Which goroutine serves which cell is NOT logged: TLC infers the binding *)
(* (a goroutine is bound to a cell at its first access; the accesses that  *)
(* follow must keep fitting that cell).  An access is explained iff the    *)
(* goroutine is bound (or can be bound) to ONE cell i, no other goroutine  *)
(* serves i, the locations lie inside the footprint of Program(i) of       *)
(* RunWrapper -- reads: what the cell reads or writes; writes: what it     *)
(* writes -- and Run has not returned.  The caller itself touches no       *)
(* element during Run.  The observed *)
(* read/write sets are RunWrapper's own variables, so its invariants       *)
(* NoRace, FrameAlways and JoinBeforeReturn are evaluated on every state   *)
(* of every observed execution.                                            *)
(***************************************************************************)
EXTENDS RunWrapper

Trace == ndJsonDeserialize("trace.ndjson")
VARIABLES l,      \* position in Trace
          bind    \* goroutine -> cell
tvars == <<vars, l, bind>>
E == Trace[l]

FootR(i) == {Program(i)[k][2] : k \in 1..Len(Program(i))}                               \* reads may also look at own results
FootW(i) == {Program(i)[k][2] : k \in {k \in 1..Len(Program(i)) : Program(i)[k][1] = "w"}}

CfgOf(e) == [nc |-> e.nc, np |-> e.np, nb |-> e.nb, t |-> e.t, oc |-> e.oc, ot |-> e.ot, mode |-> "stream"]

Blank == [nc |-> 1, np |-> 1, nb |-> 1, t |-> 1, oc |-> 1, ot |-> 1, mode |-> "stream"]
TraceInit == /\ l = 1 /\ bind = <<>> /\ TLCSet(1, 0)
             /\ cfg = Blank
             /\ mem = [x \in Locs(Blank) |-> <<"init", x>>]
             /\ pc = [i \in 0..0 |-> -1] /\ acc = [i \in 0..0 |-> <<>>]
             /\ reads = [i \in 0..0 |-> {}] /\ writes = [i \in 0..0 |-> {}]
             /\ mainpc = "returned" /\ spawned = 0 /\ received = 0 /\ chan = {} /\ emitted = FALSE

\* a new Run call: everything starts afresh
TraceRun == /\ l <= Len(Trace) /\ E.ev = "run"
            /\ LET c == CfgOf(E) IN
               /\ cfg' = c
               /\ mem' = [x \in Locs(c) |-> <<"init", x>>]
               /\ pc' = [i \in 0..(c.nc - 1) |-> 0]
               /\ acc' = [i \in 0..(c.nc - 1) |-> <<>>]
               /\ reads' = [i \in 0..(c.nc - 1) |-> {}]
               /\ writes' = [i \in 0..(c.nc - 1) |-> {}]
               /\ spawned' = c.nc
            /\ mainpc' = "join" /\ received' = 0 /\ chan' = {} /\ emitted' = FALSE
            /\ bind' = <<>> /\ l' = l + 1

LocsOf(e) == {e.locs[k] : k \in 1..Len(e.locs)}

TraceAcc == /\ l <= Len(Trace) /\ E.ev = "acc"
            /\ mainpc = "join"                        \* nothing is touched once Run has returned
            /\ E.g # 1                                \* the caller touches no element while the cells run
            /\ \E i \in Cells :
                 /\ IF E.g \in DOMAIN bind THEN bind[E.g] = i
                    ELSE \A h \in DOMAIN bind : bind[h] # i
                 /\ pc[i] # -1
                 /\ IF E.kind = "r" THEN LocsOf(E) \subseteq FootR(i) ELSE LocsOf(E) \subseteq FootW(i)
                 /\ bind' = [h \in (DOMAIN bind) \cup {E.g} |-> IF h = E.g THEN i ELSE bind[h]]
                 /\ pc' = [pc EXCEPT ![i] = 1]
                 /\ IF E.kind = "r"
                    THEN /\ reads' = [reads EXCEPT ![i] = @ \cup LocsOf(E)]
                         /\ UNCHANGED <<writes, mem>>
                    ELSE /\ writes' = [writes EXCEPT ![i] = @ \cup LocsOf(E)]
                         /\ mem' = [x \in DOMAIN mem |-> IF x \in LocsOf(E) THEN <<"K", x[1], i, <<>> >> ELSE mem[x]]
                         /\ UNCHANGED reads
            /\ l' = l + 1
            /\ UNCHANGED <<cfg, acc, mainpc, spawned, received, chan, emitted>>

\* Run returns: the goroutines are through (a kernel that touches nothing -- BaseflowFilter is an empty stub -- leaves
\* its cell unbound, so "every cell was served" is not demanded here; the value comparison of C04 covers completeness)
TraceRet == /\ l <= Len(Trace) /\ E.ev = "ret"
            /\ mainpc = "join"
            /\ pc' = [i \in Cells |-> -1]
            /\ received' = cfg.nc
            /\ mainpc' = "returned"
            /\ l' = l + 1
            /\ UNCHANGED <<cfg, mem, acc, reads, writes, spawned, chan, emitted, bind>>

TraceNext == TraceRun \/ TraceAcc \/ TraceRet
TraceSpec == TraceInit /\ [][TraceNext]_tvars

HW == TLCSet(1, IF l > TLCGet(1) THEN l ELSE TLCGet(1))
TraceAccepted ==
    /\ PrintT(<<"TRACE_CONSUMED", TLCGet(1) - 1, Len(Trace)>>)
    /\ TLCGet(1) - 1 = Len(Trace)
\* hide everything that does not influence what can still be explained
TView == <<l, bind, mainpc, cfg, reads, writes>>
=============================================================================
