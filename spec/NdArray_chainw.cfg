\* chains of two slices (stepped parents included), then one write through the innermost view
SPECIFICATION Spec
CONSTANTS
  Shapes <- ShapesW2
  StepVals <- Steps12
  Broadcast = FALSE
  MaxSlices = 2
  MaxWrites = 1
  MaxReshapes = 0
  WriteOps = {"set", "apply", "applyslice", "copyfrom"}
  AllowNil = FALSE
  ChainOnly = TRUE
  WriteNewest = TRUE
  AllowReduce = FALSE
  AllowCopy = FALSE
  EarlyStop = FALSE
  Emit = TRUE
INVARIANTS ViewsOK Compose ContigIsRun Live
PROPERTIES ViewOpsPure FootprintExact
CHECK_DEADLOCK FALSE
