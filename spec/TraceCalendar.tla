---------------------------- MODULE TraceCalendar ----------------------------
(* B2 for C19: recorded runs of the real DateGenerator must be behaviours of   *)
(* Calendar!Step.  trace.ndjson: {"ev":"start",d,m,y} opens a run (the model's *)
(* parameters), each {"ev":"out",d,m,y,doy,exact} is one emitted timestep.     *)
EXTENDS Integers, Sequences, TLC, Json

Trace == ndJsonDeserialize("trace.ndjson")

VARIABLES d, m, y, doy, y0, l, fresh
C == INSTANCE Calendar WITH StartYears <- {}, SpanYears <- 0, Emit <- FALSE

TraceInit == /\ l = 1 /\ fresh = FALSE
             /\ d = 0 /\ m = 0 /\ y = 0 /\ doy = 0 /\ y0 = 0

Start == /\ l <= Len(Trace) /\ Trace[l].ev = "start"
         /\ d' = Trace[l].d /\ m' = Trace[l].m /\ y' = Trace[l].y
         /\ doy' = C!DaysBefore(Trace[l].m, Trace[l].y) + Trace[l].d
         /\ y0' = Trace[l].y /\ fresh' = TRUE /\ l' = l + 1

\* first emitted step = the start date itself
First == /\ l <= Len(Trace) /\ Trace[l].ev = "out" /\ fresh
         /\ Trace[l].exact
         /\ <<Trace[l].d, Trace[l].m, Trace[l].y, Trace[l].doy>> = <<d, m, y, doy>>
         /\ fresh' = FALSE /\ l' = l + 1 /\ UNCHANGED <<d, m, y, doy, y0>>

\* every further emitted step = the specification's successor
Out == /\ l <= Len(Trace) /\ Trace[l].ev = "out" /\ ~fresh
       /\ Trace[l].exact
       /\ C!Step
       /\ <<Trace[l].d, Trace[l].m, Trace[l].y, Trace[l].doy>> = <<d', m', y', doy'>>
       /\ fresh' = FALSE /\ l' = l + 1

TraceNext == Start \/ First \/ Out
TraceSpec == TraceInit /\ [][TraceNext]_<<d, m, y, doy, y0, l, fresh>>

TypeOK == (l > 1 /\ ~fresh) => C!TypeOK
DoyDef == (l > 1) => C!DoyDef
TraceAccepted ==
    LET n == TLCGet("stats").diameter - 1 IN
    /\ PrintT(<<"TRACE_CONSUMED", n, Len(Trace)>>)
    /\ n = Len(Trace)
=============================================================================
