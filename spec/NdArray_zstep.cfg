\* zero steps (single-element dimensions), as the generated wrappers use them to write one state row
SPECIFICATION Spec
CONSTANTS
  Shapes <- ShapesZ
  StepVals <- Steps01
  MaxSlices = 1
  MaxWrites = 1
  MaxReshapes = 0
  WriteOps = {"set", "apply", "applyslice"}
  AllowNil = FALSE
  ChainOnly = FALSE
  WriteNewest = FALSE
  AllowReduce = FALSE
  AllowCopy = FALSE
  EarlyStop = FALSE
  Emit = TRUE
INVARIANTS ViewsOK Compose ContigIsRun Live
PROPERTIES ViewOpsPure FootprintExact
CHECK_DEADLOCK FALSE
