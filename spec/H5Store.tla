------------------------------ MODULE H5Store ------------------------------
(***************************************************************************)
(* The array I/O layer of openwater-core (package io, H5Ref<T>) over one   *)
(* HDF5 file (C08), as a state machine over the abstract file              *)
(*       file : dataset path -> [shape, cells]   (cells in row-major order)*)
(* Actions = the public entry points with the semantics of the statement:  *)
(*   Create(p, shape, fill) no-op if p exists with the same shape, refused *)
(*                          (error, nothing changes) if the shape differs; *)
(*                          a new dataset holds zeros -- or the fill value:*)
(*                          the implementation ignores its fill argument   *)
(*                          and the statement does not say which, so cells *)
(*                          of a dataset created with fill f # 0 are the   *)
(*                          value -f, read by the engine as "0 or f"       *)
(*   Write(p, v)            creates p if absent (shape of v); dataset :=   *)
(*                          row-major values of the view, whatever its     *)
(*                          in-memory layout; refused if the shape differs *)
(*   WriteSlice(p, v, loc)  exactly the block loc .. loc+shape(v)-1 changes*)
(*   Load(p, sel)           sel[d] = nil (whole dimension) or              *)
(*                          <<start, stop, step>> selecting the indices    *)
(*                          start + k*step < min(stop, extent)             *)
(*                          (half open, clipped to the extent)             *)
(*   Shape(p), Exists(p)    Exists also answers for groups (path prefixes) *)
(* The in-memory layout of a source view is a parameter of Write /         *)
(* WriteSlice (the engine builds the view accordingly); it must not        *)
(* influence the file.                                                     *)
(***************************************************************************)
EXTENDS Integers, Sequences, FiniteSets, TLC, Json

CONSTANTS Paths,       \* dataset paths, e.g. {"/a", "/g/b"}
          Shapes,      \* dataset shapes
          Layouts,     \* in-memory layouts of source views: subset of {"contig","stepped","offset","tail"}
          MaxOps, MaxStep,
          Fills,       \* fill values offered to Create, e.g. {0, 7}
          ValKinds,    \* what a written view holds: subset of {"fresh", "zero"} ("zero": an all-zero array)
          Emit

VARIABLES file, fresh, hist, nops, done
vars == <<file, fresh, hist, nops, done>>

RECURSIVE Prod(_)
Prod(s) == IF s = <<>> THEN 1 ELSE Head(s) * Prod(Tail(s))
Weight(shape, d) == Prod(SubSeq(shape, d + 1, Len(shape)))
RECURSIVE SumTo(_, _)
SumTo(f, n) == IF n = 0 THEN 0 ELSE f[n] + SumTo(f, n - 1)
Pos(idx, shape) == SumTo([d \in 1..Len(shape) |-> idx[d] * Weight(shape, d)], Len(shape))
Unrank(k, shape) == [d \in 1..Len(shape) |-> (k \div Weight(shape, d)) % shape[d]]
RECURSIVE SeqProd(_)
SeqProd(ss) == IF ss = <<>> THEN {<<>>} ELSE {<<h>> \o t : h \in Head(ss), t \in SeqProd(Tail(ss))}

Min(a, b) == IF a < b THEN a ELSE b

\* indices selected in one dimension (as a sequence, increasing)
RECURSIVE IdxFrom(_, _, _)
IdxFrom(i, step, lim) == IF i >= lim THEN <<>> ELSE <<i>> \o IdxFrom(i + step, step, lim)
DimIdx(s, ext) == IF s = <<>> THEN IdxFrom(0, 1, ext) ELSE IdxFrom(s[1], s[3], Min(s[2], ext))

\* selections offered per dimension: nil, or start <= extent, stop in start .. extent+1, step 1..MaxStep.
\* stop = start (and start = extent) select NOTHING: the result has extent 0 in that dimension, like the in-memory
\* slice of length 0 -- whatever the step.
DimSels(ext) == {<<>>} \cup {<<a, b, c>> \in (0..ext) \X (0..(ext + 1)) \X (1..MaxStep) : b >= a}

LoadShape(sel, shape) == [d \in 1..Len(shape) |-> Len(DimIdx(sel[d], shape[d]))]
LoadVals(ds, sel) ==
    LET ls == LoadShape(sel, ds.shape) IN
    [k \in 1..Prod(ls) |->
        LET i == Unrank(k - 1, ls)
            src == [d \in 1..Len(ls) |-> DimIdx(sel[d], ds.shape[d])[i[d] + 1]]
        IN ds.cells[Pos(src, ds.shape) + 1]]

\* groups implied by the datasets present: every proper prefix "/g" of a path "/g/b"
GroupOf(p) == IF p = "/g/b" THEN {"/g"} ELSE {}
ExistsSpec(q) == q \in DOMAIN file \/ \E p \in DOMAIN file : q \in GroupOf(p)

Init == /\ file = <<>> /\ fresh = 100 /\ hist = <<>> /\ nops = 0 /\ done = FALSE

Log(rec) == /\ hist' = Append(hist, rec) /\ nops' = nops + 1
Put(p, ds) == [q \in DOMAIN file \cup {p} |-> IF q = p THEN ds ELSE file[q]]
FreshVals(n) == [k \in 1..n |-> fresh + k - 1]
Zeros(n) == [k \in 1..n |-> 0]

\* Shape of the generated histories (a bound, not semantics): the last action of a history is an
\* observation (full load / Exists+Shape); a load with a proper selection directly follows the first
\* action and ends the history -- selections are a function of the dataset only.
LastWasSelLoad == hist # <<>> /\ hist[Len(hist)].op = "load" /\ ~hist[Len(hist)].err
                  /\ \E d \in 1..Len(hist[Len(hist)].sel) : hist[Len(hist)].sel[d] # <<>>
Mutable == nops < MaxOps - 1 /\ ~LastWasSelLoad

Create ==
    /\ ~done /\ Mutable
    /\ \E p \in Paths, s \in Shapes, f \in Fills :
        IF p \in DOMAIN file
        THEN /\ file' = file
             /\ Log([op |-> "create", p |-> p, shape |-> s, fill |-> f, err |-> (file[p].shape # s)])
        ELSE /\ file' = Put(p, [shape |-> s, cells |-> [k \in 1..Prod(s) |-> 0 - f]])
             /\ Log([op |-> "create", p |-> p, shape |-> s, fill |-> f, err |-> FALSE])
    /\ UNCHANGED <<fresh, done>>

Write ==
    /\ ~done /\ Mutable
    /\ \E p \in Paths, s \in Shapes, lay \in Layouts, vk \in ValKinds :
        LET vals == IF vk = "zero" THEN Zeros(Prod(s)) ELSE FreshVals(Prod(s))
            bad == p \in DOMAIN file /\ file[p].shape # s
        IN /\ file' = IF bad THEN file ELSE Put(p, [shape |-> s, cells |-> vals])
           /\ Log([op |-> "write", p |-> p, shape |-> s, layout |-> lay, vals |-> vals, err |-> bad])
           /\ fresh' = fresh + Prod(s)
    /\ UNCHANGED done

\* blocks: shape bs placed at loc, inside the dataset
Blocks(shape) == {b \in SeqProd([d \in 1..Len(shape) |-> (0..(shape[d] - 1)) \X (1..shape[d])]) :
                    \A d \in 1..Len(shape) : b[d][1] + b[d][2] <= shape[d]}
WriteSlice ==
    /\ ~done /\ Mutable
    /\ \E p \in DOMAIN file, lay \in Layouts, vk \in ValKinds :
       \E b \in Blocks(file[p].shape) :
        LET loc == [d \in 1..Len(b) |-> b[d][1]]
            bs == [d \in 1..Len(b) |-> b[d][2]]
            vals == IF vk = "zero" THEN Zeros(Prod(bs)) ELSE FreshVals(Prod(bs))
            cells == [k \in 1..Len(file[p].cells) |->
                        LET i == Unrank(k - 1, file[p].shape) IN
                        IF \A d \in 1..Len(bs) : i[d] >= loc[d] /\ i[d] < loc[d] + bs[d]
                        THEN vals[Pos([d \in 1..Len(bs) |-> i[d] - loc[d]], bs) + 1]
                        ELSE file[p].cells[k]]
        IN /\ file' = [file EXCEPT ![p].cells = cells]
           /\ Log([op |-> "writeslice", p |-> p, loc |-> loc, shape |-> bs, layout |-> lay, vals |-> vals, err |-> FALSE])
           /\ fresh' = fresh + Prod(bs)
    /\ UNCHANGED done

Load ==
    /\ ~done /\ nops < MaxOps /\ ~LastWasSelLoad
    /\ \E p \in DOMAIN file :
       \E sel \in (IF nops = 1 THEN SeqProd([d \in 1..Len(file[p].shape) |-> DimSels(file[p].shape[d])])
                    ELSE {[d \in 1..Len(file[p].shape) |-> <<>>]}) :
         /\ Log([op |-> "load", p |-> p, sel |-> sel, shape |-> LoadShape(sel, file[p].shape),
                 vals |-> LoadVals(file[p], sel), err |-> FALSE])
    /\ UNCHANGED <<file, fresh, done>>

\* loading / asking the shape of something that is not there is an error
LoadMissing ==
    /\ ~done /\ nops < MaxOps /\ ~LastWasSelLoad
    /\ \E p \in Paths \ DOMAIN file :
         Log([op |-> "load", p |-> p, sel |-> <<>>, shape |-> <<>>, vals |-> <<>>, err |-> TRUE])
    /\ UNCHANGED <<file, fresh, done>>

Observe ==
    /\ ~done /\ nops < MaxOps /\ ~LastWasSelLoad
    /\ hist # <<>> /\ hist[Len(hist)].op # "observe"
    /\ Log([op |-> "observe",
            exists |-> [q \in Paths \cup {"/g", "/nothere"} |-> ExistsSpec(q)],
            shapes |-> [q \in DOMAIN file |-> file[q].shape]])
    /\ UNCHANGED <<file, fresh, done>>

Finish == /\ ~done /\ (nops = MaxOps \/ LastWasSelLoad)
          /\ done' = TRUE
          /\ (Emit => PrintT(ToJson([h5case |-> hist, final |-> file])))
          /\ UNCHANGED <<file, fresh, hist, nops>>

Next == Create \/ Write \/ WriteSlice \/ Load \/ LoadMissing \/ Observe \/ Finish
Spec == Init /\ [][Next]_vars

---------------------------------------------------------------------------
TypeOK == \A p \in DOMAIN file : Len(file[p].cells) = Prod(file[p].shape)

\* round trip: loading everything returns exactly what the dataset holds
RoundTrip == \A p \in DOMAIN file :
                LET all == [d \in 1..Len(file[p].shape) |-> <<>>] IN
                /\ LoadShape(all, file[p].shape) = file[p].shape
                /\ LoadVals(file[p], all) = file[p].cells

\* a selection is the in-memory slice loc=start, dims=count, step=step of the whole array
SelectionIsSlice == \A p \in DOMAIN file :
    \A sel \in SeqProd([d \in 1..Len(file[p].shape) |-> {s \in DimSels(file[p].shape[d]) : s # <<>>}]) :
        LET ls == LoadShape(sel, file[p].shape) IN
        \A k \in 1..Prod(ls) :
            LET i == Unrank(k - 1, ls) IN
            LoadVals(file[p], sel)[k] =
                file[p].cells[Pos([d \in 1..Len(ls) |-> sel[d][1] + i[d] * sel[d][3]], file[p].shape) + 1]

\* Create never changes contents; an erroneous call changes nothing; shapes never change
Stable == [][ \A p \in DOMAIN file :
                 /\ p \in DOMAIN file' /\ file'[p].shape = file[p].shape
                 /\ (hist'[Len(hist')].op \in {"create", "load", "observe"} \/ hist'[Len(hist')].err) => file'[p] = file[p] ]_vars

\* WriteSlice changes exactly the addressed block
BlockExact == [][ (hist' # hist /\ hist'[Len(hist')].op = "writeslice") =>
                    LET r == hist'[Len(hist')] IN
                    \A k \in 1..Len(file[r.p].cells) :
                        LET i == Unrank(k - 1, file[r.p].shape)
                            inside == \A d \in 1..Len(r.shape) : i[d] >= r.loc[d] /\ i[d] < r.loc[d] + r.shape[d]
                        IN ~inside => file'[r.p].cells[k] = file[r.p].cells[k] ]_vars
=============================================================================
