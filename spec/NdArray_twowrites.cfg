\* root + one slice, then TWO consecutive Apply / Set writes through the same view objects
SPECIFICATION Spec
CONSTANTS
  Shapes <- ShapesTwo
  StepVals <- Steps12
  Broadcast = FALSE
  MaxSlices = 1
  MaxWrites = 2
  MaxReshapes = 0
  WriteOps = {"apply"}
  AllowNil = FALSE
  ChainOnly = FALSE
  WriteNewest = FALSE
  AllowReduce = FALSE
  AllowCopy = FALSE
  EarlyStop = FALSE
  Emit = TRUE
INVARIANTS ViewsOK Compose ContigIsRun Live
PROPERTIES ViewOpsPure FootprintExact
CHECK_DEADLOCK FALSE
