\* views with NEGATIVE steps (a dimension walked backwards), alone and nested under / over forward slices, with every
\* kind of write through the newest view, reads and bulk observations (Contiguous / Unroll / Reshape / Maximum ...)
SPECIFICATION Spec
CONSTANTS
  Shapes <- ShapesN
  StepVals <- StepsNeg
  Broadcast = FALSE
  MaxSlices = 2
  MaxWrites = 1
  MaxReshapes = 0
  WriteOps = {"set"}
  AllowNil = FALSE
  ChainOnly = TRUE
  WriteNewest = TRUE
  AllowReduce = FALSE
  AllowCopy = FALSE
  EarlyStop = FALSE
  Emit = TRUE
INVARIANTS ViewsOK Compose ContigIsRun Live
PROPERTIES ViewOpsPure FootprintExact
CHECK_DEADLOCK FALSE
