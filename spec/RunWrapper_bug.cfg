\* self-test: with two cells sharing a state row TLC must find the race (the check is not vacuous)
SPECIFICATION Spec
CONSTANTS
  MaxNC = 2
  MaxNP = 1
  MaxNB = 1
  MaxT = 1
  MaxSlackC = 0
  MaxSlackT = 0
  Atomic = FALSE
  Bug = "sharedrow"
  Emit = FALSE
INVARIANTS NoRace
CHECK_DEADLOCK FALSE
