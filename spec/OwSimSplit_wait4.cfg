SPECIFICATION Spec
CONSTANTS
  NGen = 4
  SizeChoices <- MCSizeChoices
  Big = 6
  Cap = 3
  Chunk = 2
  WaitAtExit = TRUE
INVARIANTS TypeOK StreamInOrder WrittenOnceInOrder ExitOnlyAfterAllWritten NothingLost AllWrittenAtEnd CloseAfterAll
PROPERTIES Terminates
CHECK_DEADLOCK FALSE
