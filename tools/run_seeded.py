#!/usr/bin/env python3
"""Regression of the seeded changes: apply every /verif/seeded/<id>/patch.diff to a scratch worktree of /repo's
current main and run the quick check(s) recorded as detecting it.  Never touches /repo's working tree or the
committed evidence (VERIF_REPO + VERIF_SCRATCH_EVIDENCE).

    tools/run_seeded.py <out.tsv> [-j N] [id-prefix ...]

Columns: id, property, verdict (DETECTED rc=1 / MISSED rc=0 / INFRA rc=2 / STALE patch does not apply), first
VIOLATION detail.  Worktrees live under /tmp/seedwt-* and are removed as soon as a change is done.
"""
import json
import os
import subprocess
import sys
from concurrent.futures import ThreadPoolExecutor

VERIF = os.path.dirname(os.path.dirname(os.path.abspath(__file__)))
REPO = os.environ.get("VERIF_BASE_REPO", "/repo")
ENV = dict(os.environ, GOFLAGS="-mod=mod", GOPROXY="off", GOSUMDB="off", GOTOOLCHAIN="local")


def sh(cmd, **kw):
    return subprocess.run(cmd, shell=isinstance(cmd, str), capture_output=True, text=True, env=ENV, **kw)


def one(sid):
    d = os.path.join(VERIF, "seeded", sid)
    meta = {}
    try:
        meta = json.load(open(os.path.join(d, "meta.json")))
    except Exception:
        pass
    props = (meta.get("confirmed_by_me", {}).get("detected_by_properties") or sid.split("-")[0])
    props = [p.strip().split()[0] for p in props.replace("(", ",").split(",") if p.strip().startswith("C")]
    if not props or props == ["NOT"]:
        props = [sid.split("-")[0]]
    wt = "/tmp/seedwt-" + sid
    sh(["git", "-C", REPO, "worktree", "remove", "--force", wt])
    r = sh(["git", "-C", REPO, "worktree", "add", "-q", "--detach", wt, "main"])
    if r.returncode != 0:
        return [(sid, ",".join(props), "INFRA worktree: " + r.stderr.strip()[:200], "")]
    rows = []
    try:
        patch = os.path.join(d, "patch.diff")
        r = sh(["git", "-C", wt, "apply", patch])
        if r.returncode != 0:
            r3 = sh(["git", "-C", wt, "apply", "--3way", patch])
            st = sh(["git", "-C", wt, "diff", "--name-only", "--diff-filter=U"]).stdout.strip()
            if r3.returncode != 0 or st:
                return [(sid, ",".join(props), "STALE (patch no longer applies to main)", r.stderr.strip()[:200].replace("\n", " "))]
        for p in props[:2]:
            env = dict(ENV, VERIF_REPO=wt, VERIF_SCRATCH_EVIDENCE="1")
            r = subprocess.run([os.path.join(VERIF, "check"), p, "quick"], capture_output=True, text=True, env=env)
            detail = ""
            lines = r.stdout.splitlines()
            for i, ln in enumerate(lines):
                if ln.startswith("VIOLATION"):
                    detail = (lines[i + 1] if i + 1 < len(lines) else "").strip()[:220]
                    break
            verdict = {0: "MISSED rc=0", 1: "DETECTED rc=1"}.get(r.returncode, "INFRA rc=%d" % r.returncode)
            rows.append((sid, p, verdict, detail))
            if r.returncode == 1:
                break
    finally:
        sh(["git", "-C", REPO, "worktree", "remove", "--force", wt])
    return rows


def main():
    out = sys.argv[1]
    jobs, prefixes = 4, []
    a = sys.argv[2:]
    while a:
        x = a.pop(0)
        if x == "-j":
            jobs = int(a.pop(0))
        else:
            prefixes.append(x)
    ids = sorted(d for d in os.listdir(os.path.join(VERIF, "seeded")) if os.path.isdir(os.path.join(VERIF, "seeded", d)))
    if prefixes:
        ids = [i for i in ids if any(i.startswith(p) for p in prefixes)]
    with open(out, "w") as f, ThreadPoolExecutor(jobs) as ex:
        for rows in ex.map(one, ids):
            for row in rows:
                f.write("\t".join(row) + "\n")
                f.flush()
    print("done", len(ids))


if __name__ == "__main__":
    main()
