#!/bin/bash
# tools/try_mutants.sh <worktree> <outfile> <prop> [<prop>...]
# For every _mutants/m*/patch.diff in <worktree>: apply it THERE, run the given checks (quick) against that
# worktree (VERIF_REPO), revert. Results (exit codes + VIOLATION lines) are appended to <outfile>.
# Evidence/replay files written by these runs are scratch (VERIF_EVIDENCE_DIR).
wt=$1; out=$2; shift 2
for m in $wt/_mutants/m*/; do
  name=$(basename $m)
  git -C $wt checkout -q -- . ; git -C $wt apply $m/patch.diff || { echo "$name APPLY-FAILED" >> $out; continue; }
  for p in "$@"; do
    VERIF_REPO=$wt VERIF_SCRATCH_EVIDENCE=1 /verif/check $p quick > /tmp/mut-$$.log 2>&1; rc=$?
    echo "$(basename $wt) $name $p rc=$rc $(grep -m1 -A1 '^VIOLATION' /tmp/mut-$$.log | tr '\n' ' ' | cut -c1-260)" >> $out
  done
  git -C $wt checkout -q -- .
done
echo "DONE $wt" >> $out
